"""Property registry: which contracted functions (units), Lean theorems, bounded harnesses and replayers decide each property."""
BP = "mdpax.utils.batch_processing.BatchProcessor"
VI = "mdpax.solvers.value_iteration.ValueIteration"

ARITH = "NumPy/JAX int32 treated as mathematical integers; float32/float64 treated as real numbers (equalities hold over R; floating-point rounding is outside the proof)"
ENGINE = "the pyvc engine itself (AST interpreter, proof rules, reduction lemmas) is new code: guarded by per-clause canaries, the mutation table and the CPython cross-check, but not verified"

def U(modules, target, **kw):
    d = dict(modules=modules if isinstance(modules, list) else [modules], target=target); d.update(kw)
    d.setdefault("id", target + ("#" + kw["tag"] if "tag" in kw else "")); return d

PROPS = {}

PROPS["C18"] = dict(
    level="proof",
    units=[U("contracts.batch_processing", f"{BP}.__init__"), U("contracts.batch_processing", f"{BP}.prepare_batches"),
           U("contracts.batch_processing", f"{BP}.unbatch_results"), U("contracts.batch_processing", f"{BP}.batch_shape")],
    bounded=[dict(name="c18_runtime", script="harness_c18.py"), dict(name="library_model_conformance", script="xcheck_models.py", args=["--prop", "C18"], wall_s=200)],
    replayers=[("*BatchProcessor*", "replay_c18.py")],
    trusted_base=["library models: jnp.zeros, jnp.vstack, reshape (row-major), slicing, len(jax.devices()) as an arbitrary integer >= 1"],
    assumptions=[ARITH, ENGINE, "row-major reshape is a bijection between flat and multi-indices (Lean: Mdpax.Engine ravel*_inj/surj)"],
)

PROPS["C19"] = dict(
    level="proof",
    units=[U("contracts.spaces", "mdpax.utils.spaces.create_range_space", timeout_ms=30000)],
    bounded=[dict(name="c19_runtime", script="harness_c19.py"), dict(name="library_model_conformance", script="xcheck_models.py", args=["--prop", "C19"], wall_s=200)],
    replayers=[("*create_range_space*", "replay_c19.py")],
    trusted_base=["library models: itertools.product (lexicographic, last factor fastest), np.arange, jnp.ravel_multi_index(mode='clip') = sum_k clip(v_k,0,dim_k-1)*stride_k"],
    assumptions=[ARITH, ENGINE, "dimension counts 1..4 are proved per instance (bounds symbolic and unbounded); higher dimension counts are not covered"],
)

V1 = ["contracts.value_iteration", "contracts.vi_solve"]
SOLVER_ASSUME = [ARITH, ENGINE,
    "jax.vmap / jax.pmap are maps over the leading axis with pytree-prefix in_axes; jax.lax.scan is a left fold (device placement, sharding and XLA behaviour are not modelled)",
    "jax.jit is the identity on results",
    "out-of-range reads return an unconstrained value; out-of-range scatter updates are dropped; duplicate scatter indices have an unspecified winner"]
C02_UNITS = [U(V1, f"{VI}.{m}") for m in ["_get_value_next_state", "_calculate_updated_state_action_value", "_calculate_updated_value",
             "_calculate_updated_value_state_batch", "_calculate_updated_value_scan_state_batches", "_update_values",
             "_extract_policy_idx_one_state", "_extract_policy_idx_state_batch", "_extract_policy_idx_scan_state_batches", "_extract_policy"]]
PROPS["C02"] = dict(
    bounded=[dict(name="c02_runtime", script="harness_solvers.py", args=["--prop", "c02"], wall_s=300),
             dict(name="interpreter_cross_check", script="xcheck.py", args=["--prop", "C02"], wall_s=200),
             dict(name="library_model_conformance", script="xcheck_models.py", args=["--prop", "C02"], wall_s=200),
             dict(name="c03_multidevice", script="harness_devices.py", wall_s=600)],          # "every state": also when the sweep is spread over several devices and batches
    level="proof", units=C02_UNITS + PROPS["C18"]["units"][2:3],
    lean=["bell_discop", "bellpol_discop", "contraction", "span_contraction", "greedy_eq", "bellpol_le_bell"],
    links={"bell_discop": "monotone + shift-by-gamma*c of the operator that value_iteration.ValueIteration._update_values.post.elementwise proves the sweep to be (hypotheses P>=0, rows sum to 1 = WF-prob, discharged for the shipped problems under C13)",
           "contraction": "gamma-contraction in the sup norm, from DiscOp", "greedy_eq": "a policy attaining the max (ValueIteration._extract_policy.post.attains_max) is greedy: T_d V = T V"},
    trusted_base=["library models: vmap, pmap, lax.scan (carry-invariant = map), dot, max, argmax (first maximiser), take, reshape"],
    assumptions=SOLVER_ASSUME + ["the abstract problem satisfies WF-shape (N, A, E >= 1); transition / probability / state_to_index are uninterpreted functions of opaque vectors, so the result holds for every problem and every vector dimension"],
)

RV = "mdpax.solvers.relative_value_iteration.RelativeValueIteration"
PV = "mdpax.solvers.periodic_value_iteration.PeriodicValueIteration"
PI = "mdpax.solvers.policy_iteration.PolicyIteration"
SA = "mdpax.solvers.semi_async_value_iteration.SemiAsyncValueIteration"
SOLV = "mdpax.core.solver.Solver"
PB = "mdpax.core.problem.Problem.build_transition_and_reward_matrices"
DM = "mdpax.problems.perishable_inventory.de_moor_single_product.DeMoorSingleProductPerishable"
HX = "mdpax.problems.perishable_inventory.hendrix_two_product.HendrixTwoProductPerishable"
MJ = "mdpax.problems.perishable_inventory.mirjalili_platelet.MirjaliliPlateletPerishable"
FO = "mdpax.problems.forest.Forest"
RVM = V1 + ["contracts.rvi"]
PROPS["C04"] = dict(level="proof", bounded=[dict(name="c04_runtime", script="harness_solvers.py", args=["--prop", "c04"], wall_s=300)],
    units=[U(RVM, f"{RV}._iteration_step"), U(RVM, f"{SOLV}._initialize_values"), U(RVM, f"{RV}._initialize_solver_state_elements"),
           U(RVM, f"{RV}.solve", timeout_ms=20000)],
    lean=["rvi_gain_within", "rvi_monotone_bracket", "policy_gain_bracket", "policy_gain_eq"], assumptions=SOLVER_ASSUME,
    replayers=[("*RelativeValueIteration*", "replay_c04.py")])
PIM = V1 + ["contracts.pi"]
PROPS["C05"] = dict(level="proof", bounded=[dict(name="c05_runtime", script="harness_solvers.py", args=["--prop", "c05"], wall_s=300)],
    units=[U(PIM, f"{PI}.{m}") for m in ["_calculate_policy_value_state_batch", "_calculate_policy_values", "_evaluate_policy", "_iteration_step", "_initialize_policy", "_initialize_solver_state_elements"]]
          + [U(PIM + ["contracts.rvi"], f"{PI}.solve", timeout_ms=20000, ignore=["*eval_converged_when_policy_declared_stable"])],
    lean=["eval_bound", "eval_bound_threshold"], assumptions=SOLVER_ASSUME)
SAM = ["contracts.value_iteration", "contracts.semi_async"]
SA_KERNELS = [U(SAM, f"{SA}.{m}") for m in ("_get_value_next_state", "_calculate_updated_state_action_value", "_calculate_updated_value", "_calculate_updated_value_state_batch")]
PROPS["C06"] = dict(level="proof", bounded=[dict(name="c06_runtime", script="harness_solvers.py", args=["--prop", "c06"], wall_s=300),
                                            dict(name="c06_multidevice", script="harness_c06_devices.py", wall_s=300)],       # "earlier batches ON THE SAME DEVICE": the sweep on 2-8 emulated devices
    units=[U(SAM, f"{SA}._calculate_updated_value_scan_state_batches", timeout_ms=30000), U(SAM, f"{SA}._shuffle_states"), U(SAM, f"{SA}._reorder_values"),
           U(SAM + ["contracts.vi_solve"], f"{SA}._update_values", timeout_ms=20000), U(SAM + ["contracts.vi_solve"], f"{SA}._iteration_step", timeout_ms=20000),
           U(SAM + ["contracts.vi_solve"], f"{SA}.solve", timeout_ms=20000), U(SAM + ["contracts.vi_solve"], f"{SA}._setup_config")] + SA_KERNELS,
    lean=["gs_fixed_point", "gs_fixed_converse", "perm_argsort_inv"], assumptions=SOLVER_ASSUME)
PVM = V1 + ["contracts.periodic"]
PROPS["C07"] = dict(level="proof", bounded=[dict(name="c07_runtime", script="harness_solvers.py", args=["--prop", "c07"], wall_s=300)],
    units=[U(PVM, f"{PV}._calculate_period_span_without_discount", timeout_ms=30000), U(PVM, f"{PV}._calculate_period_span_with_discount", timeout_ms=30000),
           U(PVM, f"{PV}._iteration_step", timeout_ms=30000), U(PVM, f"{PV}.solve", pop=[f"{PV}._iteration_step"], timeout_ms=20000),
           U(PVM, f"{PV}._get_periodic_span"), U(PVM, f"{PV}._initialize_solver_state_elements"), U(PVM, f"{PV}._setup_convergence_testing"), U(PVM, f"{PV}._clear_value_history"), U(PVM, f"{PV}._setup_config")],
    lean=["periodic_gain_bracket", "periodic_gain_within"], assumptions=SOLVER_ASSUME)
PROPS["C17"] = dict(level="proof", bounded=[dict(name="c17_runtime", script="harness_solvers.py", args=["--prop", "c17"], wall_s=300)], units=[U(["contracts.matrices"], PB, timeout_ms=20000)], lean=["matrix_backup_eq"], assumptions=SOLVER_ASSUME)
PROPS["C15"] = dict(level="proof", bounded=[dict(name="c15_runtime", script="harness_problems.py", args=["--prop", "c15"], wall_s=300)], units=[U(["contracts.problems"], f"{t}.transition", timeout_ms=30000, wall_s=1200) for t in (DM, HX, MJ, FO)], assumptions=[ARITH, ENGINE])
PRB = ["contracts.probabilities"]
C13_UNITS = [U(PRB, f"{DM}.{m}", timeout_ms=20000) for m in ("_convert_gamma_parameters", "_calculate_demand_probabilities", "random_event_probability")] \
          + [U(PRB, f"{FO}.random_event_probability")] \
          + [U(PRB, f"{MJ}.{m}", timeout_ms=20000) for m in ("_setup_before_space_construction", "_calculate_demand_probabilities", "_get_multinomial_logits", "_calculate_received_order_probabilities", "random_event_probability")]
DIST_ASSUME = ["distribution functions are uninterpreted mathematical functions with assumed contracts: a cdf is non-decreasing with values in [0,1] (Gamma: cdf(0)=0); a pmf is >= 0 and its partial sums are <= 1; exp(log_prob(x)) is the pmf; the multinomial pmf sums to one over the compositions of the order - the numerical accuracy of numpyro / scipy / jax.scipy is trusted",
               "Hendrix: the four-case decomposition of units issued and the contents of the tables pu / pz are proved with the Poisson / binomial pmf uninterpreted; that the four cases SUM to one over the event space (up to the truncated tail) is covered only by the bounded harness (complete enumeration on a stated parameter grid)",
               "Mirjalili: sum-to-one over the enumerated event space is the Lean theorem events_sum_one over the discharged code obligations (event space = documented event set, product form, censored demand factor sums to one) plus the assumed library fact that the multinomial pmf sums to one over the splits of the order"]
PROPS["C13"] = dict(level="proof", bounded=[dict(name="c13_runtime", script="harness_problems.py", args=["--prop", "c13"], wall_s=300)], units=C13_UNITS, lean=["telescope", "events_sum_one", "events_nonneg"], assumptions=[ARITH, ENGINE] + DIST_ASSUME,
    links={"events_sum_one (Mirjalili: the event probabilities of every state-action pair sum to one)": {
              "hmem (every listed event is a documented event)": "MirjaliliPlateletPerishable._construct_random_event_space.post.every_row_is_a_documented_event",
              "hinj (no event listed twice)": "..._construct_random_event_space.post.no_event_is_listed_twice",
              "hsurj (every documented event listed)": "..._construct_random_event_space.post.every_documented_event_is_listed (+ candidate_rows_are_the_full_product)",
              "summand nb d * g r": "MirjaliliPlateletPerishable.random_event_probability.post.censored_negbin_of_the_weekday_times_multinomial_split_of_the_order (every listed demand incl. the censored bin)",
              "hnb (demand factor sums to one)": "MirjaliliPlateletPerishable._calculate_demand_probabilities.post.sums_to_one",
              "hg (split factor sums to one over the documented splits)": "ASSUMED: the multinomial pmf sums to one over the compositions of the order (all of which are documented splits because order <= max_order_quantity); g is zero on the other splits (..._calculate_received_order_probabilities.post.multinomial_pmf_if_split_sums_to_order_else_zero)"},
           "events_nonneg": "non-negativity of each term from the factors' non-negativity (_calculate_demand_probabilities.post.nonnegative; pmf >= 0 assumed)",
           "telescope": "De Moor: differences of the cdf at the bin edges telescope (sum to cdf(last edge) - cdf(0))"})
PROPS["C16"] = dict(level="other", bounded=[dict(name="c16_runtime", script="harness_problems.py", args=["--prop", "c16"], wall_s=400)],
    units=C13_UNITS + [U(PRB, f"{HX}.initial_value"), U(PRB, "mdpax.core.problem.Problem.initial_value"), U(PRB, f"{HX}.random_event_probability", timeout_ms=30000)]
        + [U(PRB, f"{HX}.{m}") for m in ("_get_probs_ia_lt_stock_a_ib_lt_stock_b", "_get_probs_ia_eq_stock_a_ib_lt_stock_b", "_get_probs_ia_lt_stock_a_ib_eq_stock_b", "_get_probs_ia_eq_stock_a_ib_eq_stock_b")], lean=["telescope"], assumptions=[ARITH, ENGINE] + DIST_ASSUME,
    explanation="plumbing proved (which distribution, which parameters, which bins, which ordering, censoring, product form, initial values) with the distribution functions uninterpreted; numerics of the special functions trusted; Hendrix' joint distribution only bounded (brute-force enumeration up to the documented tail)")

CFGS = ["mdpax.solvers.value_iteration.ValueIterationConfig", "mdpax.solvers.policy_iteration.PolicyIterationConfig",
        "mdpax.solvers.relative_value_iteration.RelativeValueIterationConfig", "mdpax.solvers.periodic_value_iteration.PeriodicValueIterationConfig",
        "mdpax.solvers.semi_async_value_iteration.SemiAsyncValueIterationConfig", "mdpax.problems.forest.ForestConfig",
        "mdpax.problems.perishable_inventory.de_moor_single_product.DeMoorSingleProductPerishableConfig",
        "mdpax.problems.perishable_inventory.hendrix_two_product.HendrixTwoProductPerishableConfig"]
C20M = ["contracts.logging_configs", "contracts.validators"]
CTOR = [U(["contracts.constructors"], f"{t}.__init__", timeout_ms=15000) for t in (VI, RV, PV, SA, PI)]
CK = "mdpax.utils.checkpointing.CheckpointMixin"
PROPS["C20"] = dict(level="proof",
    units=[U(C20M, "mdpax.utils.logging.get_convergence_format"), U(C20M, "mdpax.core.solver.Solver._setup_config"),
           U(C20M, f"{VI}._setup_convergence_testing", only=["full."], tag="full")]
          + [U(C20M, f"{c}.__post_init__") for c in CFGS]
          + [U(C20M, "mdpax.problems.perishable_inventory.mirjalili_platelet.MirjaliliPlateletPerishableConfig.__post_init__"), U(C20M, "mdpax.utils.logging.verbosity_to_loguru_level")]
          + CTOR + [U(C20M, "mdpax.core.solver.Solver.set_verbosity"), U(["contracts.checkpointing"], f"{VI}._setup_additional_components"),
                    # solver-specific configuration plumbing on both construction routes
                    U(SAM + ["contracts.vi_solve"], f"{SA}._setup_config"), U(PVM, f"{PV}._setup_config"),
                    # third route: what restore() later reads is the configuration THIS solver wrote (config.yaml saved on every set-up with a reconstructible problem)
                    U(["contracts.checkpointing"], f"{CK}._setup_checkpointing"), U(["contracts.checkpointing"], f"{CK}.restore", timeout_ms=20000),
                    U(["contracts.checkpointing"], f"{CK}.has_full_config")],
    replayers=[("*", "replay_c20.py")],
    bounded=[dict(name="c20_runtime", script="harness_c20.py", wall_s=400)],
    assumptions=[ARITH, ENGINE, "the float64 clause and the equivalence of the three construction routes involve JAX's global x64 flag, Hydra instantiate and the OmegaConf YAML round trip: bounded run-time checks only (fresh processes, 5 solvers x 2 problems), not proved"])

PROPS["C08"] = dict(
    bounded=[dict(name="c08_runtime", script="harness_solvers.py", args=["--prop", "c08"], wall_s=300),
             dict(name="c07_runtime", script="harness_solvers.py", args=["--prop", "c07"], wall_s=300)],      # the periodic solver's stop rule against its documented measure (a C08 report then carries a concrete input)
    level="proof",
    units=[U(V1, f"{VI}.{m}") for m in ["_get_span", "_get_max_diff", "_iteration_step", "solve"]]
        + [U(["contracts.logging_configs"], f"{VI}._setup_convergence_testing", only=["pos."])]
        + [U(RVM, f"{SOLV}._initialize_values"), U(RVM, f"{RV}._iteration_step"), U(RVM, f"{RV}.solve", timeout_ms=20000)]
        + [U(PVM, f"{PV}._iteration_step", timeout_ms=30000), U(PVM, f"{PV}.solve", pop=[f"{PV}._iteration_step"], timeout_ms=20000)]
        + [U(SAM + ["contracts.vi_solve"], f"{SA}._iteration_step", timeout_ms=20000), U(SAM + ["contracts.vi_solve"], f"{SA}.solve", timeout_ms=20000)]
        + [U(PIM + ["contracts.rvi"], f"{PI}.solve", timeout_ms=20000, ignore=["*eval_converged_when_policy_declared_stable"])]
        + [U(RVM, f"{RV}._setup_convergence_testing"), U(RVM, f"{SOLV}._initialize_solver_state_elements"), U(RVM, f"{RV}._initialize_solver_state_elements"),
           U(PVM, f"{PV}._setup_convergence_testing"), U(PVM, f"{PV}._initialize_solver_state_elements"), U(PVM, f"{PV}._get_periodic_span"), U(PVM, f"{PV}._clear_value_history"),
           U(PIM, f"{PI}._initialize_solver_state_elements")],
    assumptions=SOLVER_ASSUME + ["PeriodicValueIteration.solve requires value_history is not None (a converged solve with the default clear_value_history_on_convergence=True clears it; a further solve() then raises TypeError) - stated precondition, see DESIGN C08"],
)

CAD = [U(V1 + ["contracts.cadence"], f"{VI}.solve", prepare="contracts.cadence:install", tag="cadence", only=["span."], timeout_ms=20000),
       U(RVM + ["contracts.cadence"], f"{RV}.solve", prepare="contracts.cadence:install", tag="cadence", timeout_ms=20000),
       U(PVM + ["contracts.cadence"], f"{PV}.solve", prepare="contracts.cadence:install", tag="cadence", pop=[f"{PV}._iteration_step"], timeout_ms=20000),
       U(SAM + ["contracts.vi_solve", "contracts.cadence"], f"{SA}.solve", prepare="contracts.cadence:install", tag="cadence", only=["fixed.span.", "shuffled.span."], timeout_ms=20000),
       U(PIM + ["contracts.rvi", "contracts.cadence"], f"{PI}.solve", prepare="contracts.cadence:install", tag="cadence", timeout_ms=20000)]
CKPT_ASSUME = [ARITH, ENGINE,
    "Orbax CheckpointManager ADT (assumed, conformance-tested by the bounded harness against orbax-checkpoint 0.12.4): save(step) is accepted iff step > latest step, otherwise silently skipped; after wait_until_finished() the directory lists the max_to_keep largest accepted steps; save() snapshots its argument before returning; restore(step, template) returns the saved leaf for every non-None template leaf and None for a None leaf; commit is atomic",
    "OmegaConf.save/load round-trips the solver+problem configuration; hydra.utils.instantiate(cfg) builds _target_(**fields)",
    "pathlib.Path.mkdir/exists are modelled as a ghost effect log / an arbitrary boolean"]
PROPS["C12"] = dict(level="proof",
    units=CAD + [U(["contracts.checkpointing"], f"{CK}._setup_checkpointing"), U(["contracts.checkpointing"], f"{CK}.has_full_config"),
                 U(["contracts.checkpointing"], f"{VI}._setup_additional_components")],
    bounded=[dict(name="c12_runtime", script="harness_ckpt.py", args=["--prop", "c12"], wall_s=400)],
    assumptions=CKPT_ASSUME)

FRAME = dict(script="contracts/frame_static.py", id="frame_static", modules=[], target="frame_static")
PROPS["C09"] = dict(level="proof",
    units=[dict(FRAME, ignore=["*template_covers_saved"])] + CAD,          # C09's share is ...template_covers_carried_state (same script)
    bounded=[dict(name="c09_runtime", script="harness_ckpt.py", args=["--prop", "c09"], wall_s=600)],
    assumptions=CKPT_ASSUME + ["resume equivalence is derived, not stated as one obligation: solve() is a deterministic function of the carried state (frame obligations: everything it reads is either carried or fixed by construction from the configuration), the carried state is saved at a save site whose label is the iteration and whose state object is the current one (cadence.* obligations), every saved field is assigned back to its own attribute, and the configuration round trip is assumed; composition over several interruptions follows by induction on the number of interruptions (C08 composability)"])
PROPS["C10"] = dict(level="proof",
    units=[FRAME, U(["contracts.checkpointing"], f"{CK}.restore"), U(["contracts.checkpointing"], f"{CK}.load_checkpoint"), U(["contracts.checkpointing"], f"{CK}.has_full_config"),
           U(["contracts.checkpointing"], f"{CK}._setup_checkpointing"), U(["contracts.logging_configs", "contracts.validators"], "mdpax.core.solver.Solver._setup_config")],
    bounded=[dict(name="c10_runtime", script="harness_ckpt.py", args=["--prop", "c10"], wall_s=400)],
    assumptions=CKPT_ASSUME + ["bit-for-bit equality of arrays through Orbax and tuple-valued parameters through YAML are library behaviour: exercised by the bounded harness (5 solvers x 4 shipped problems), not proved"])

PROPS["C14"] = dict(level="proof",
    units=[U(["contracts.problem_spaces"], f"{t}.state_to_index", timeout_ms=60000, wall_s=1500) for t in (DM, HX, MJ, FO)]
        + [U(["contracts.problems"], f"{t}.transition", timeout_ms=30000, wall_s=1200, ignore=["*post.next_state", "*post.reward*", "*post.conservation"]) for t in (DM, HX, MJ, FO)]
        + [U("contracts.spaces", "mdpax.utils.spaces.create_range_space", timeout_ms=30000)],
    bounded=[dict(name="c14_runtime", script="harness_problems.py", args=["--prop", "c14"], wall_s=300)],
    assumptions=[ARITH, ENGINE, "index consistency and sizes are proved per dimension instance with state dimension <= 4 (De Moor m+L-1 <= 4, Hendrix m <= 2, Mirjalili m <= 4, Forest any S) with order limits symbolic; closure of the transition is proved for useful life 1..5 x lead time 1..4; larger dimension counts are covered only by the bounded harness",
                 "Mirjalili's random-event space is built with a boolean-mask filter (data-dependent length): its size and duplicate-freeness are checked by complete enumeration in the bounded harness only"])

BI = ["contracts.batch_independence"]
PROPS["C03"] = dict(level="proof",
    units=[U(BI, f"{VI}._update_values", tag="rel", timeout_ms=30000), U(BI, f"{VI}._extract_policy", tag="rel", timeout_ms=30000), U(BI, f"{SOLV}._initialize_values", tag="rel", timeout_ms=30000),
           U(BI, f"{PI}._calculate_policy_values", tag="rel", timeout_ms=30000)]
        + PROPS["C18"]["units"]
        # the relational obligations see callees through their contracts, so every kernel between them and the code carries its own obligations here
        + C02_UNITS + [U(PIM, f"{PI}._calculate_policy_value_state_batch"), U(PIM, f"{PI}._calculate_policy_values"), U(RVM, f"{SOLV}._initialize_values")]
        + [U(SAM, f"{SA}._calculate_updated_value_scan_state_batches", timeout_ms=30000), U(SAM + ["contracts.vi_solve"], f"{SA}._update_values", timeout_ms=20000)],
    lean=["gs_new_value_near", "gs_fixed_point", "contraction_to_fixed_bound", "singh_yee", "ravel3_inj", "ravel3_surj"],
    bounded=[dict(name="c03_multidevice", script="harness_devices.py", wall_s=900)],
    assumptions=SOLVER_ASSUME + ["jax.pmap is modelled as a map over the leading (device) axis: real sharding / device placement is exercised only by the bounded multi-device harness (XLA host-platform device emulation)",
        "solve-level independence (stopping iteration, gain, history, policy value) follows from kernel-level independence because the C08/C04/C07/C05 loop contracts define the trajectory from these kernels and mention no batch parameter",
        "for the semi-asynchronous solver the sweep depends on the partition by design; what is claimed is the error bound for every partition (Lean: gs_* quantify over all lists of blocks)"])

PROPS["C01"] = dict(level="proof",
    units=[U(V1, f"{VI}.{m}") for m in ["_update_values", "_extract_policy", "_get_span", "_get_max_diff", "_iteration_step", "solve"]]
        + [U(["contracts.logging_configs"], f"{VI}._setup_convergence_testing", only=["pos."])]
        + [U(SAM, f"{SA}._calculate_updated_value_scan_state_batches", timeout_ms=30000)]
        + [U(SAM + ["contracts.vi_solve"], f"{SA}.{m}", timeout_ms=20000) for m in ("_update_values", "_iteration_step", "solve")]
        + [U(PIM, f"{PI}.{m}") for m in ["_calculate_policy_value_state_batch", "_calculate_policy_values", "_evaluate_policy", "_iteration_step", "_initialize_solver_state_elements"]]
        + [U(PIM + ["contracts.rvi"], f"{PI}.solve", timeout_ms=20000)],
    lean=["bell_discop", "bellpol_discop", "bellpol_le_bell", "greedy_eq", "contraction", "le_fixed", "fixed_le", "greedy_bracket", "vi_span_bound", "vi_maxdiff_bound",
          "eval_bound", "eval_bound_threshold", "pi_bound", "singh_yee", "gs_new_value_near", "contraction_to_fixed_bound"],
    links={
      "vi_span_bound / vi_maxdiff_bound": {
          "hW  (W = T V, T the Bellman operator of the problem)": "ValueIteration._update_values.post.elementwise + ValueIteration.solve.post.values_are_VAL (VAL(k+1) = B(VAL(k)))",
          "hStop (measure(W - V) < threshold on the convergence path)": "ValueIteration.solve.post.stop_rule + _iteration_step.post.measure",
          "hThr (threshold = eps(1-gamma)/gamma)": "ValueIteration._setup_convergence_testing.post.threshold",
          "hGreedy (returned policy greedy for the returned values)": "ValueIteration.solve.post.policy_greedy + _extract_policy.post.attains_max",
          "hT, hTd (monotone, shift by gamma c)": "Lean bell_discop / bellpol_discop from WF-prob (C13)"},
      "pi_bound / eval_bound_threshold": {
          "evaluation iterate v with measure(T_pi v - v) < threshold": "PolicyIteration._evaluate_policy.post.break_means_small_residual + solve.post.eval_converged_when_policy_declared_stable (KNOWN FINDING C01-pi-eval-budget: not established by the code)",
          "d = pi greedy for v": "PolicyIteration.solve.post.returned_policy_greedy_for_returned_values + early_stop_means_no_component_changed",
          "T_pi v is the policy backup": "PolicyIteration._calculate_policy_values.post.policy_backup_of_every_state"},
      "singh_yee / gs_new_value_near / contraction_to_fixed_bound": {
          "sweep = block Gauss-Seidel for the partition / permutation of that sweep": "SemiAsyncValueIteration._update_values.post.natural_order_gauss_seidel (+ scan0.* carry invariant)",
          "|OV - V| < threshold on the convergence path (max_diff)": "SemiAsyncValueIteration.solve.post.stop_rule + _iteration_step.post.measure",
          "returned policy greedy for returned values": "SemiAsyncValueIteration.solve.post.policy_greedy"}},
    bounded=[dict(name="c01_runtime", script="harness_solvers.py", args=["--prop", "c01"], wall_s=400),
             dict(name="c05_runtime", script="harness_solvers.py", args=["--prop", "c05"], wall_s=300)],      # policy-stability / evaluation clauses the PI bound rests on
    assumptions=SOLVER_ASSUME + ["MDP theory cited, not proved: the optimal value is the fixed point of the Bellman operator T, the exact value of a stationary policy d is the fixed point of T_d (Puterman Thm 6.2.5 / 6.1.1); the Lean theorems are stated for any fixed points",
        "the correspondence between a Lean hypothesis and the code obligation named in coverage.lean.links is established by reading: both are stated over the same spec functions Q, B, G, B_pi (the Lean side re-declares them)",
        "WF-prob (probabilities non-negative, summing to one) is a hypothesis on the problem, discharged for the shipped problems under C13"])

# Modularity: a caller sees a callee only through its contract, so a property's unit list carries the contract of EVERY function between
# the property's statement and the code (a change inside a kernel is noticed by the kernel's own obligations).
def _extend(pid, extra):
    have = {u.get("id") for u in PROPS[pid]["units"]}
    PROPS[pid]["units"] = PROPS[pid]["units"] + [u for u in extra if u.get("id") not in have]
PI_KERNELS = [U(PIM, f"{PI}._calculate_policy_value_state_batch"), U(PIM, f"{PI}._calculate_policy_values")]
UNBATCH = PROPS["C18"]["units"][2:3]
# every solver property rests on the batch layout (state of slot (d, b, j) is state (d*B + b)*bs + j; results are flattened in the same order): the whole BatchProcessor chain
BPCHAIN = PROPS["C18"]["units"][:4]
# the solve-loop proofs apply "save(step) returns None and changes nothing on the solver" at the call sites: the real body as a unit of its own
SAVE_UNIT = U(["contracts.save_unit"], "mdpax.utils.checkpointing.CheckpointMixin.save")
for _p in ("C01", "C04", "C05", "C06", "C07", "C08"): _extend(_p, [SAVE_UNIT])
for _p in ("C01", "C02", "C03", "C04", "C05", "C06", "C07", "C08"): _extend(_p, BPCHAIN)
_extend("C01", C02_UNITS + SA_KERNELS + PI_KERNELS + UNBATCH)
_extend("C04", C02_UNITS + UNBATCH)
_extend("C05", C02_UNITS + UNBATCH)
_extend("C07", C02_UNITS + UNBATCH)
_extend("C08", C02_UNITS + SA_KERNELS + PI_KERNELS + UNBATCH + [U(SAM, f"{SA}._calculate_updated_value_scan_state_batches", timeout_ms=30000), U(SAM + ["contracts.vi_solve"], f"{SA}._update_values", timeout_ms=20000)])
_extend("C06", UNBATCH)
_extend("C03", SA_KERNELS)

LEVEL_TEXT = {
 "C01": "Proof of the code obligations the bounds rest on (sweep = Bellman backup, stop rule, greedy extraction, policy evaluation/stability, Gauss-Seidel sweep) for every problem, gamma, epsilon, initial values, batch layout; the bounds themselves are Lean theorems over those contracts (vi_span_bound, vi_maxdiff_bound, pi_bound, eval_bound_threshold, singh_yee, gs_*). One hypothesis of the PI bound is NOT established by the code (known finding). Bounded run-time harness on random tabular MDPs with exact policy evaluation as second line.",
 "C02": "Proof: every kernel of value_iteration.py is symbolically executed from the real source with all sizes symbolic and its result shown equal to the textbook Bellman backup / first greedy maximiser; monotone / contraction / shift are Lean theorems about that operator.",
 "C03": "Proof by self-composition: the same kernel on two solvers with different (devices, batches, batch size, padding) returns pointwise equal arrays of length N; callee chain under contract; semi-async bound for every partition in Lean. Real pmap/sharding behaviour only by the bounded multi-device harness.",
 "C04": "Proof of the RVI step / loop contracts (gain = last component of B(V)-V, span test, class invariant gain = values[-1]) + Lean rvi_gain_within, rvi_monotone_bracket, policy_gain_bracket; harness with LP optimal gain.",
 "C05": "Proof of the seven policy-iteration functions against Q/B_pi/greedy specs, the counting definition of n_changed, stop <=> no component changed, initial policy; eval accuracy bound in Lean.",
 "C06": "Proof: scan-with-carry invariant of the real per-device sweep (conditional on fully-real batches, duplicate scatter indices nondeterministic), shuffle/reorder with assumed PRNG/argsort contracts, key threading, solve loop; fixed point in Lean.",
 "C07": "Proof: ring-buffer invariant, both measures (partial-sum loop invariant), dispatch (infinite before a full period), plain-VI iterates, stop rule; gain bracket in Lean.",
 "C08": "Proof of the five solve loops (iteration accounting, values = that many reference sweeps, first-stop rule, thresholds, initialisation) by loop invariants over a ghost trajectory.",
 "C09": "Proof relative to assumed Orbax/OmegaConf contracts: carried state is saved, saved state is the current state at a save site labelled with the iteration (real save() body executed against the manager ADT), every saved field restored to its own attribute, everything else fixed by construction. Resume equality itself is exercised by the bounded harness (fresh process).",
 "C10": "Proof relative to assumed library contracts: restore() error paths, overrides field by field (every subset of the optional arguments, symbolic values), state read from the original directory at the chosen step, load_checkpoint, has_full_config, config capture; template-structure obligation fails for the VI family (known finding).",
 "C12": "Proof relative to the CheckpointManager ADT: cadence invariant of the five solve loops with the real save() body, final iteration always submitted, set-up effects (nothing for f = 0, max_to_keep, config.yaml iff reconstructible); retention itself is the ADT's assumed behaviour, conformance-tested against real Orbax.",
 "C13": "Proof of sum-to-one / non-negativity by construction for Forest, De Moor and Mirjalili's demand factor with the distribution functions uninterpreted; Mirjalili's event space proved to be exactly the documented event set, each event once (useful life 1-3, limits symbolic; boolean-mask filter as assumed library contract); Hendrix: four-case decomposition and the contents of both tables (nested loop invariants over the real numpy loops) proved, the sum over the event space itself bounded only (complete enumeration on a parameter grid; tail mass = known finding). Mirjalili sum-to-one: Lean events_sum_one over the discharged obligations + the assumed fact that the multinomial pmf sums to one.",
 "C14": "Proof per dimension instance (state dimension <= 4, order limits symbolic): documented sizes, index of every listed state, in-box vectors map to the row holding them; closure of transition for useful life <= 5, lead time <= 4.",
 "C15": "Proof, complete per dimension instance (useful life 1..5 x lead time 1..4 x issuing policy), all quantities symbolic: transition == independent scalar model, conservation, reward coefficient-wise.",
 "C16": "Plumbing proved with distribution functions uninterpreted (which distribution, parameters, bins, ordering, censoring, product form, initial values); numerics of special functions trusted; Hendrix: four cases + table contents (pu = Poisson demand thinned by binomial substitution, pz = convolution with Poisson demand for A) proved for the configured parameters; Mirjalili event space = documented event set. The comparison against scipy brute force stays as bounded second line.",
 "C17": "Proof with two loop invariants: P entries = event mass per successor, R = expected reward, ValueError exactly when some row deviates by more than the tolerance, accepted rows renormalised to one, the error message names a pair attaining the largest deviation (argmax over the flattened array linked to the pair by instantiated lemma calls); equality of the matrix backup in Lean.",
 "C18": "Proof for all n_states, max_batch_size, device counts: attribute consistency, layout, un-batching for ranks 3-5.",
 "C19": "Proof per dimension count 1..4 with arbitrary integer bounds: enumeration, inverse index, clipping to the nearest box vector.",
 "C20": "Proof: validators in both directions for all nine config classes, whole constructors of the five solvers reach normal return for every accepted parameter set (gamma = 0 excepted: known finding), format spec valid, verbosity mapping, config capture on both routes; the WHOLE constructor is executed on both construction routes (keyword arguments + problem instance; configuration object alone with the real, validated config dataclass and hydra's instantiate as assumed contract) and establishes on each that the core and derived attributes (gamma, epsilon, batch size, period, evaluation budget, PRNG key, problem) are the given parameters - hence the two routes build the same solver; the third route (saved configuration file) is the restore contract of C10 relative to the OmegaConf round trip. The float64 clause and the behavioural comparison of the three routes in fresh processes stay bounded.",
}
for _p, _t in LEVEL_TEXT.items():
    if _p in PROPS: PROPS[_p]["level_text"] = _t

HXT = [U(["contracts.hendrix_tables"], f"{HX}.{m}") for m in ("_calculate_pu", "_calculate_pz", "_setup_after_space_construction")]
PCTOR = [U(["contracts.problem_spaces"], f"{t}.__init__", timeout_ms=20000, **({"pop": [f"{HX}._setup_after_space_construction"]} if t == HX else {})) for t in (DM, MJ, HX, FO)]
MJE = [U(["contracts.mirjalili_events"], f"{MJ}._construct_random_event_space")]
_extend("C14", PCTOR + MJE); _extend("C15", PCTOR); _extend("C20", PCTOR); _extend("C16", PCTOR + HXT + MJE)

# every property is quantified over problems / instances / call histories: none may depend on hidden module-level state
GLOBALS = dict(script="contracts/global_state.py", id="global_state", modules=[], target="global_state")
# contracts on base-class methods are applied at every self.method(...) call: an override of a contracted method must itself be a unit (else NEEDS-CONTRACT -> bounded fallback)
OVERRIDES = dict(script="contracts/override_audit.py", id="override_audit", modules=[], target="override_audit")
SA_INIT = U(SAM, f"{SA}._initialize_solver_state_elements")
for _p in ("C03", "C06", "C08", "C09", "C20"): PROPS[_p]["units"] = PROPS[_p]["units"] + [SA_INIT]
for _p in list(PROPS): PROPS[_p]["units"] = PROPS[_p]["units"] + [GLOBALS, OVERRIDES]
_extend("C13", MJE + HXT + [PCTOR[2]] + [U(PRB, f"{HX}.random_event_probability", timeout_ms=30000)] + [U(PRB, f"{HX}.{m}") for m in ("_get_probs_ia_lt_stock_a_ib_lt_stock_b", "_get_probs_ia_eq_stock_a_ib_lt_stock_b", "_get_probs_ia_lt_stock_a_ib_eq_stock_b", "_get_probs_ia_eq_stock_a_ib_eq_stock_b")])

for _p in ("C13", "C14", "C16"):
    PROPS[_p]["lean"] = list(PROPS[_p].get("lean", [])) + [x for x in ("ravel2_inj", "ravel2_lt") if x not in PROPS[_p].get("lean", [])]
    PROPS[_p]["assumptions"] = list(PROPS[_p].get("assumptions", [])) + [
        "numpy boolean-mask row selection keeps exactly the rows whose mask is True, in their original order (assumed library contract, pyvc FILTER rule; conformance: bounded harness c14/c16 event-space enumeration)",
        "np.repeat(a, r, axis=0): result row k is source row k // r; np.hstack joins 2-D arrays column-wise (assumed library contracts)",
        "scipy.stats.poisson.pmf / binom.pmf are the mathematical pmfs (uninterpreted; numerics trusted)"]
# (unit id, callee) pairs excluded from the inline cross-check: the relational C03 units compare two solvers with different batch layouts; with the real reshape of
# unbatch_results inlined the two results are expressed through two unrelated sets of Skolem digits and the equality does not close (engine incompleteness, not a
# hidden precondition: unbatch_results' own unit proves its contract for every layout)
INLINE_SKIP = {(u["id"], "unbatch_results") for u in PROPS["C03"]["units"] if str(u.get("id", "")).endswith("#rel")}
HOOK_COMMITS = []
NOT_APPLICABLE = {
    "C11": "crash atomicity and writer-thread interleavings live inside Orbax's commit protocol, which is not code of this repository; contracts on mdpax's calls can only assume atomic commit, not decide it (DESIGN.md section 6 C11). The contract-shaped fragments (step label, no mutation of a state handed to an asynchronous save, latest-step selection) are discharged under C09/C10/C12.",
}
