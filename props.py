"""Property registry: which contracted functions (units), Lean theorems, bounded harnesses and replayers decide each property."""
BP = "mdpax.utils.batch_processing.BatchProcessor"
VI = "mdpax.solvers.value_iteration.ValueIteration"

ARITH = "NumPy/JAX int32 treated as mathematical integers; float32/float64 treated as real numbers (equalities hold over R; floating-point rounding is outside the proof)"
ENGINE = "the pyvc engine itself (AST interpreter, proof rules, reduction lemmas) is new code: guarded by per-clause canaries, the mutation table and the CPython cross-check, but not verified"

def U(modules, target, **kw):
    d = dict(modules=modules if isinstance(modules, list) else [modules], target=target); d.update(kw)
    d.setdefault("id", target + ("#" + kw["tag"] if "tag" in kw else "")); return d

PROPS = {}

PROPS["C18"] = dict(
    level="proof",
    units=[U("contracts.batch_processing", f"{BP}.__init__"), U("contracts.batch_processing", f"{BP}.prepare_batches"),
           U("contracts.batch_processing", f"{BP}.unbatch_results"), U("contracts.batch_processing", f"{BP}.batch_shape")],
    bounded=[dict(name="c18_runtime", script="harness_c18.py")],
    replayers=[("*BatchProcessor*", "replay_c18.py")],
    trusted_base=["library models: jnp.zeros, jnp.vstack, reshape (row-major), slicing, len(jax.devices()) as an arbitrary integer >= 1"],
    assumptions=[ARITH, ENGINE, "row-major reshape is a bijection between flat and multi-indices (Lean: Mdpax.Engine ravel*_inj/surj)"],
)

PROPS["C19"] = dict(
    level="proof",
    units=[U("contracts.spaces", "mdpax.utils.spaces.create_range_space", timeout_ms=30000)],
    bounded=[dict(name="c19_runtime", script="harness_c19.py")],
    replayers=[("*create_range_space*", "replay_c19.py")],
    trusted_base=["library models: itertools.product (lexicographic, last factor fastest), np.arange, jnp.ravel_multi_index(mode='clip') = sum_k clip(v_k,0,dim_k-1)*stride_k"],
    assumptions=[ARITH, ENGINE, "dimension counts 1..4 are proved per instance (bounds symbolic and unbounded); higher dimension counts are not covered"],
)

HOOK_COMMITS = []
NOT_APPLICABLE = {
    "C11": "crash atomicity and writer-thread interleavings live inside Orbax's commit protocol, which is not code of this repository; contracts on mdpax's calls can only assume atomic commit, not decide it (DESIGN.md section 6 C11). The contract-shaped fragments (step label, no mutation of a state handed to an asynchronous save, latest-step selection) are discharged under C09/C10/C12.",
}
