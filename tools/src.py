#!/usr/bin/env python3
"""print a class/function of the repo without docstrings: tools/src.py <file> [name ...]"""
import ast, sys
t = ast.parse(open(sys.argv[1]).read())
names = set(sys.argv[2:])
class Strip(ast.NodeTransformer):
    def visit_FunctionDef(self, n):
        self.generic_visit(n)
        if n.body and isinstance(n.body[0], ast.Expr) and isinstance(n.body[0].value, ast.Constant) and isinstance(n.body[0].value.value, str): n.body = n.body[1:] or [ast.Pass()]
        n.returns = None
        for a in n.args.args + n.args.kwonlyargs: a.annotation = None
        return n
    visit_ClassDef = visit_FunctionDef if False else None
def strip_cls(c):
    if c.body and isinstance(c.body[0], ast.Expr) and isinstance(c.body[0].value, ast.Constant): c.body = c.body[1:]
    return c
for n in t.body:
    if isinstance(n, ast.ClassDef):
        strip_cls(n)
        for m in n.body:
            if isinstance(m, ast.FunctionDef) and (not names or m.name in names or n.name in names):
                print(f"# {n.name}.{m.name}  L{m.lineno}-{m.end_lineno}"); print(ast.unparse(Strip().visit(m))); print()
    elif isinstance(n, ast.FunctionDef) and (not names or n.name in names):
        print(f"# {n.name} L{n.lineno}-{n.end_lineno}"); print(ast.unparse(Strip().visit(n))); print()
