#!/bin/bash
# tools/seeded_confirm.sh <source worktree of the sub-agent> <Cxx> <id> [FULL]   (phase A: independent confirmation in a scratch worktree)
# Confirms a seeded change independently in a fresh scratch worktree (demo passes without / fails with the change, existing tests pass with it),
# stores it under /verif/seeded/<id>/, then runs the property's check against /repo with the patch applied and undoes it straight afterwards.
set -u
SRCWT=$1; PID=$2; ID=$3; FULL=${4:-}
DEST=/verif/seeded/$ID; mkdir -p $DEST
cp $SRCWT/patch.diff $DEST/patch.diff; cp $SRCWT/demo.py $DEST/demo.py; cp $SRCWT/NOTE.md $DEST/NOTE.md 2>/dev/null
SW=/tmp/sw_$ID; git -C /repo worktree remove --force $SW 2>/dev/null; git -C /repo worktree add --detach $SW HEAD -q
run_demo() { (cd $SW && JAX_PLATFORMS=cpu PYTHONPATH=$SW/src timeout 900 /venv/bin/python $DEST/demo.py > $1 2>&1; echo $?); }
sed "s#/tmp/wt_$PID#$SW#g" $DEST/demo.py > $SW/demo_local.py
run_demo_local() { (cd $SW && JAX_PLATFORMS=cpu PYTHONPATH=$SW/src timeout 900 /venv/bin/python $SW/demo_local.py > $1 2>&1; echo $?); }
RC0=$(run_demo_local /tmp/demo0_$ID.log)
git -C $SW apply $DEST/patch.diff; APPLY=$?
RC1=$(run_demo_local /tmp/demo1_$ID.log)
files=$(grep '^+++ b/' $DEST/patch.diff | sed 's#+++ b/##')
tests=""
for f in $files; do case $f in
  *semi_async_value_iteration.py) tests="$tests tests/test_solvers/test_semi_async_value_iteration.py";;
  *periodic_value_iteration.py) tests="$tests tests/test_solvers/test_periodic_value_iteration.py tests/test_utils/test_checkpointing.py";;
  *relative_value_iteration.py) tests="$tests tests/test_solvers/test_relative_value_iteration.py";;
  *policy_iteration.py) tests="$tests tests/test_solvers/test_policy_iteration.py";;
  *solvers/value_iteration.py|*core/solver.py) tests="$tests tests/test_solvers/test_value_iteration.py tests/test_solvers/test_relative_value_iteration.py tests/test_solvers/test_policy_iteration.py tests/test_utils/test_checkpointing.py";;
  *batch_processing.py|*spaces.py|*logging.py) tests="$tests tests/test_utils tests/test_solvers/test_value_iteration.py tests/test_problems/test_forest.py";;
  *core/problem.py) tests="$tests tests/test_problems tests/test_solvers/test_value_iteration.py";;
  *checkpointing.py) tests="$tests tests/test_utils/test_checkpointing.py tests/test_solvers/test_value_iteration.py";;
  *forest.py) tests="$tests tests/test_problems/test_forest.py tests/test_solvers/test_value_iteration.py";;
  *de_moor*) tests="$tests tests/test_problems/test_perishable_inventory/test_de_moor_single_product.py tests/test_solvers/test_value_iteration.py";;
  *hendrix*) tests="$tests tests/test_problems/test_perishable_inventory/test_hendrix_two_product.py tests/test_solvers/test_relative_value_iteration.py";;
  *mirjalili*) tests="$tests tests/test_problems/test_perishable_inventory/test_mirjalili_platelet.py";;
esac; done
[ -n "$FULL" ] && tests="tests"
tests=$(echo $tests | tr ' ' '\n' | sort -u | tr '\n' ' ')
(cd $SW && JAX_PLATFORMS=cpu PYTHONPATH=$SW/src timeout 3000 /venv/bin/python -m pytest -q -p no:cacheprovider --timeout=900 --no-cov --deselect "tests/test_solvers/test_periodic_value_iteration.py::test_matches_reference_policy[mirjalili/m3/exp1]" $tests > /tmp/tests_$ID.log 2>&1); TRC=$?
TSUM=$(tail -1 /tmp/tests_$ID.log)
git -C /repo worktree remove --force $SW
python3 - "$ID" "$PID" "$RC0" "$RC1" "$TRC" "$TSUM" "$tests" <<PY
import json, sys, os
ID, PID, rc0, rc1, trc, tsum, tests = sys.argv[1:8]
p = "/verif/seeded/%s/meta.json" % ID
meta = json.load(open(p)) if os.path.exists(p) else {}
meta.update({"id": ID, "breaks_property": PID, "origin": "written by a sub-agent that saw only the property text and its own scratch worktree (nothing from /verif)",
        "needs_to_manifest": open("/verif/seeded/%s/NOTE.md" % ID).read()[:1800] if os.path.exists("/verif/seeded/%s/NOTE.md" % ID) else "",
        "confirmed_by_me": {"demo_exit_without_change": int(rc0), "demo_exit_with_change": int(rc1), "existing_tests_with_change": {"selection": tests, "pytest_exit": int(trc), "summary": tsum}}})
json.dump(meta, open(p, "w"), indent=1); print(ID, "demo", rc0, rc1, "tests", trc, tsum[:90])
PY
