"""Engine side of the library-model conformance check: evaluate each expression of the case list through the pyvc interpreter (python3-vt)
with concrete inputs, i.e. through the library MODELS the proofs rely on, and write the results as nested lists."""
import json, sys, os, ast, z3
sys.path.insert(0, os.path.dirname(os.path.dirname(os.path.abspath(__file__))))
from pyvc.session import new_interp
from pyvc.values import *
from pyvc.interp import Module
cases = json.load(open(sys.argv[1])); out = {}
def num(x):
    if isinstance(x, bool): return int(x)
    if isinstance(x, (int, float)): return x
    if is_z3(x):
        x = z3.simplify(x)
        if z3.is_true(x): return 1
        if z3.is_false(x): return 0
        if z3.is_int_value(x): return x.as_long()
        if z3.is_rational_value(x): return float(x.as_fraction())
        if z3.is_algebraic_value(x): return float(x.approx(20).as_fraction())
        raise ValueError("not a concrete value: " + str(x)[:80])
    raise ValueError("not a number: " + repr(x)[:80])
def conv(v):
    if isinstance(v, SArr):
        sh = [concrete_int(d) for d in v.shape]
        if any(d is None for d in sh): raise ValueError("symbolic shape")
        def rec(prefix, dims):
            if not dims: return num(v.get(tuple(prefix)))
            return [rec(prefix + [i], dims[1:]) for i in range(dims[0])]
        return rec([], sh)
    if isinstance(v, (tuple, list)): return [conv(x) for x in v]
    return num(v)
def lift(x):
    if isinstance(x, list):
        if x and isinstance(x[0], list): return SArr((len(x), len(x[0])), (lambda rows: (lambda idx: select2(rows, idx)))(x))
        return arr_from_list(x)
    return x
def select2(rows, idx):
    i, j = concrete_int(idx[0]), concrete_int(idx[1])
    if i is not None and j is not None: return rows[i][j]
    return select_list([select_list(r, idx[1]) for r in rows], idx[0])
for c in cases:
    try:
        I = new_interp(); I.contracts = {}
        mod = Module("conformance", "<conformance>")
        env = {"jnp": I.models["jax.numpy"], "np": I.models["numpy"], "jax": I.models["jax"]}
        env.update({k: lift(v) for k, v in c["inputs"].items()})
        mod.globals = env
        v = I.ev(ast.parse(c["expr"], mode="eval").body, env, mod)
        out[c["expr"]] = {"value": conv(v)}
    except Exception as ex:
        out[c["expr"]] = {"error": f"{type(ex).__name__}: {str(ex)[:200]}"}
json.dump(out, open(sys.argv[2], "w"))
