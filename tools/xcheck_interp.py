"""CPython cross-check, engine side: run the same real source through the pyvc interpreter in CONCRETE mode (python3-vt) and compare
with the results the real JAX produced (json written by replay/xcheck.py).  Validates the library models used on these paths."""
import json, sys, os, z3
sys.path.insert(0, os.path.dirname(os.path.dirname(os.path.abspath(__file__))))
from pyvc.session import new_interp
from pyvc.values import *
exp = json.load(open(sys.argv[1])); out = {}
def num(x):
    if isinstance(x, SArr) and x.ndim == 0: x = x.get(())
    if is_z3(x):
        x = z3.simplify(x)
        if z3.is_int_value(x): return x.as_long()
        if z3.is_rational_value(x): return float(x.as_fraction())
        if z3.is_algebraic_value(x): return float(x.approx(20).as_fraction())
        raise ValueError(str(x))
    return x
for key, e in exp.items():
    S, bs = map(int, key.split(","))
    try:
        I = new_interp(); I.contracts = {}; I.env_device_count = 1
        fo = I.load_module("mdpax.problems.forest").globals["Forest"]
        vi = I.load_module("mdpax.solvers.value_iteration").globals["ValueIteration"]
        p = I.instantiate(fo, [], dict(S=S, r1=4.5, r2=2.5, p=0.25))
        s = I.instantiate(vi, [p], dict(gamma=0.9, epsilon=0.01, verbose=0, max_batch_size=bs))
        V = arr_from_list([float(i * i % 7) - 2.5 for i in range(S)])
        new = I.call(I.getattr(s, "_update_values"), [s.attrs["batched_states"], I.getattr(p, "action_space"), I.getattr(p, "random_event_space"), s.attrs["gamma"], V], {})
        s.attrs["values"] = V; pol = I.call(I.getattr(s, "_extract_policy"), [], {})
        n = concrete_int(new.shape[0]); bp = s.attrs["batch_processor"].attrs
        out[key] = {"new": [num(new.get((i,))) for i in range(n)], "policy": [[num(pol.get((i, 0)))] for i in range(S)],
                    "shape": [num(bp["n_devices"]), num(bp["n_batches"]), num(bp["batch_size"])], "n_pad": num(bp["n_pad"]), "thr": num(s.attrs["conv_threshold"])}
    except Exception as ex:
        out[key] = {"error": f"{type(ex).__name__}: {ex}"}
json.dump(out, open(sys.argv[2], "w"))
