#!/bin/sh
# run every claimed property's check (default: quick) against /repo itself, three at a time; prints the last line of each
TIER=${1:-quick}
cd "$(dirname "$0")/.."
ids=$(python3 -c "import json; print(' '.join(c['property_id'] for c in json.load(open('MANIFEST.json'))['checks']))")
echo $ids | tr ' ' '\n' | xargs -P ${PAR:-3} -I{} sh -c 'out=$(bin/check {} --tier '"$TIER"' 2>&1); rc=$?; echo "{} rc=$rc $(echo "$out" | tail -1 | cut -c1-150)"'
