#!/bin/sh
# tools/try_full.sh <patch.diff> <Cxx> [more Cxx...]: the complete quick check (deductive part, inline cross-check, harness) against a scratch copy of /repo/src with the patch applied
P=$1; shift
D=$(mktemp -d /tmp/tryf_XXXX); git -C /repo archive HEAD src | tar -x -C $D; patch -p1 -s -d $D -i $P || { echo patch failed; rm -rf $D; exit 2; }
echo "$@" | tr ' ' '\n' | xargs -P 4 -I{} sh -c 'out=$(MDPAX_SRC='$D'/src VERIF_OUT_DIR='$D'/out_{} /verif/bin/check {} 2>&1); rc=$?; echo "== {} rc=$rc"; echo "$out" | grep -v "^KNOWN-FINDING" | tail -4 | cut -c1-500; for f in $(echo "$out" | grep -o "replay=[^ ]*" | cut -d= -f2 | head -3); do python3 -c "
import json,sys; r=json.load(open(\"$f\")); print(\"   \", r.get(\"obligation\") or r.get(\"check\"), \"|\", r.get(\"verdict\"), \"|\", str(r.get(\"concrete_input\") or r.get(\"input\"))[:200], \"|\", str(r.get(\"solver_detail\") or r.get(\"what\"))[:200])"; done'
rm -rf $D
