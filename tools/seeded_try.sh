#!/bin/sh
# tools/seeded_try.sh <worktree> <Cxx> [more Cxx ...]: run the checks against a scratch tree (triage; outputs go to a temp dir)
WT=$1; shift
for p in "$@"; do
  out=$(MDPAX_SRC=$WT/src VERIF_OUT_DIR=/tmp/seeded_out_$$ /verif/bin/check $p 2>&1); rc=$?
  echo "== $p rc=$rc"; echo "$out" | tail -4 | cut -c1-260
  for f in $(echo "$out" | grep -o 'replay=[^ ]*' | cut -d= -f2 | head -3); do python3 -c "
import json,sys; r=json.load(open('$f')); print('   ', r.get('obligation'), '|', r.get('verdict'), '|', str(r.get('concrete_input'))[:160], '|', str(r.get('observed'))[:120])"; done
done
rm -rf /tmp/seeded_out_$$
