#!/bin/sh
# tools/try_patch.sh <patch.diff> <Cxx> [more Cxx...]: deductive part only (no harness) against a scratch copy of /repo/src with the patch applied
P=$1; shift
D=$(mktemp -d /tmp/tryp_XXXX); git -C /repo archive HEAD src | tar -x -C $D; patch -p1 -s -d $D -i $P || { echo patch failed; rm -rf $D; exit 2; }
for p in "$@"; do
  out=$(MDPAX_SRC=$D/src VERIF_NO_HARNESS=1 VERIF_NO_INLINE=1 VERIF_OUT_DIR=$D/out /verif/bin/check $p 2>&1); rc=$?
  echo "== $p rc=$rc"; echo "$out" | tail -6 | cut -c1-700
  for f in $(echo "$out" | grep -o 'replay=[^ ]*' | cut -d= -f2 | head -4); do python3 -c "
import json,sys; r=json.load(open('$f')); print('   ', r.get('obligation'), '|', r.get('verdict'), '|', str(r.get('concrete_input'))[:160], '|', str(r.get('observed'))[:120])"; done
done
rm -rf $D
