#!/usr/bin/env python3
"""Self-test of the engine + contracts: apply each source mutation of contracts/mutations.json to a scratch copy of /repo/src,
run the named property's check against it (MDPAX_SRC), and require that it FAILS with the predicted obligation
(or still verifies for the semantically neutral edits).  usage: mutation_table.py [ids...]   exit 0 iff every row behaves as predicted."""
import json, os, shutil, subprocess, sys, tempfile, re, glob
from concurrent.futures import ThreadPoolExecutor
ROOT = os.path.dirname(os.path.dirname(os.path.abspath(__file__)))
muts = json.load(open(os.path.join(ROOT, "contracts", os.environ.get("MUT_TABLE", "mutations.json"))))
sel = set(sys.argv[1:])
if sel: muts = [m for m in muts if m["id"] in sel]
def run(m):
    d = tempfile.mkdtemp(prefix="mut_")
    try:
        shutil.copytree("/repo/src", d + "/src")
        if m.get("patch"):           # a seeded change kept as a diff (seeded/<id>/patch.diff)
            pr0 = subprocess.run(["patch", "-p1", "-s", "-d", d, "-i", os.path.join(ROOT, m["patch"])], capture_output=True, text=True)
            if pr0.returncode != 0: return m, "PATCH-FAILED", pr0.stdout[-120:], False
        else:
            p = f"{d}/src/mdpax/{m['file']}"; s = open(p).read()
            if m["old"] not in s: return m, "PATTERN-NOT-FOUND", "", False
            open(p, "w").write(s.replace(m["old"], m["new"], 1))
        env = dict(os.environ, MDPAX_SRC=d + "/src", VERIF_NO_HARNESS="1", VERIF_OUT_DIR=d, VERIF_NO_INLINE="1")
        if m.get("harness"): env.pop("VERIF_NO_HARNESS")          # rows whose expected outcome involves the bounded fallback
        pr = subprocess.run([os.path.join(ROOT, "bin", "check"), m["property"], "--tier", "quick"], capture_output=True, text=True, env=env, cwd=ROOT)
        out = pr.stdout
        obl = []
        for l in out.splitlines():
            mm = re.search(r"VIOLATION property=\S+ replay=(\S+)", l)
            if mm:
                try: obl.append(json.load(open(mm.group(1) if os.path.isabs(mm.group(1)) else os.path.join(ROOT, mm.group(1))))["obligation"])
                except Exception: pass
        if m["expect"] == "none": good = pr.returncode == 0
        elif m["expect"] == "fallback": good = pr.returncode == 0 and "BOUNDED-FALLBACK" in out and "VIOLATION" not in out
        else: good = pr.returncode == 1 and any(m["expect"] in o for o in obl)
        return m, ("rc=%d" % pr.returncode), (obl[0] if obl else out.strip().splitlines()[-1][:160] if out.strip() else ""), good
    finally:
        shutil.rmtree(d, ignore_errors=True)
with ThreadPoolExecutor(max_workers=6) as ex: rows = list(ex.map(run, muts))
ok = True
for m, rc, what, good in rows:
    ok &= good
    print(f"{m['id']:5} {m['property']:4} {'fallback' if good and m['expect'] == 'fallback' else 'caught ' if good and m['expect'] != 'none' else ('neutral' if good else 'MISSED ')} {rc:6} | {m['note'][:50]:50} | {what[-110:]}")
print("MUTATION TABLE OK" if ok else "MUTATION TABLE HAS MISSES"); sys.exit(0 if ok else 1)
