#!/bin/bash
# tools/seeded_check.sh <Cxx> <id> [more Cxx...]  (phase B: the property's check against /repo itself with the change applied, undone straight afterwards)
set -u
PID=$1; ID=$2; shift 2; EXTRA="$@"
DEST=/verif/seeded/$ID
[ -z "$(git -C /repo status --porcelain)" ] || { echo "/repo is not clean"; exit 2; }
git -C /repo apply $DEST/patch.diff || { echo "patch did not apply"; exit 2; }
OUT=$(cd /verif && VERIF_OUT_DIR=/tmp/seeded_chk_$ID bin/check $PID 2>&1); CRC=$?
OTHERS=""
for q in $EXTRA; do o=$(cd /verif && VERIF_OUT_DIR=/tmp/seeded_chk_$ID bin/check $q 2>&1 | tail -1 | cut -c1-120); OTHERS="$OTHERS$q: $o\n"; done
git -C /repo checkout -- .
OBL=$(for f in $(echo "$OUT" | grep -o 'replay=[^ ]*' | cut -d= -f2 | head -6); do python3 -c "import json; r=json.load(open('$f')); print(r.get('obligation'), '|', r.get('verdict'))"; done)
rm -rf /tmp/seeded_chk_$ID
python3 - "$ID" "$PID" "$CRC" <<PY
import json, sys, os
ID, PID, crc = sys.argv[1:4]
out = """$OUT"""; obl = """$OBL"""; others = """$OTHERS"""
p = "/verif/seeded/%s/meta.json" % ID
meta = json.load(open(p)) if os.path.exists(p) else {"id": ID, "breaks_property": PID}
meta["check_against_repo_with_patch_applied"] = {"command": "git -C /repo apply seeded/%s/patch.diff; bin/check %s; git -C /repo checkout -- ." % (ID, PID), "exit": int(crc),
       "output_tail": [l[:300] for l in out.strip().splitlines()[-6:]], "failed_obligations": [l for l in obl.splitlines() if l.strip()], "other_checks": others.strip().split("\\n")}
meta["caught"] = int(crc) == 1
json.dump(meta, open(p, "w"), indent=1); print(ID, "caught" if meta["caught"] else "MISSED", "exit", crc); print("\n".join(meta["check_against_repo_with_patch_applied"]["failed_obligations"][:4]))
PY
