#!/usr/bin/env python3
"""Regenerate MANIFEST.json from props.py (run with python3-vt; validates against the schema)."""
import json, os, sys
ROOT = os.path.dirname(os.path.dirname(os.path.abspath(__file__))); sys.path.insert(0, ROOT)
import props
ALL = [json.loads(l)["id"] for l in open(os.path.join(ROOT, "properties.jsonl"))]
checks = []
for pid in ALL:
    P = props.PROPS.get(pid)
    if not P or P.get("not_applicable"): continue
    checks.append({"property_id": pid, "quick_cmd": f"bin/check {pid} --tier quick", "thorough_cmd": f"bin/check {pid} --tier thorough",
                   "evidence_file": f"evidence/{pid}.json", "replay_cmd_template": f"bin/check {pid} --replay {{path}}", "engine": "pyvc",
                   "level_claimed": {"category": P["level"], "text": P.get("level_text", ""), "design_ref": P.get("design_ref", f"DESIGN.md section 6 {pid}")},
                   "level_note": P.get("level_note", "; ".join(P.get("assumptions", []))), "technique": P.get("technique", "contract-based deductive verification: sidecar contracts on the real source, VCs generated from the AST by pyvc, discharged by z3/cvc5; Lean 4 lemmas over the contracts")})
na = [{"property_id": pid, "reason": (props.PROPS.get(pid) or {}).get("not_applicable", props.NOT_APPLICABLE.get(pid, "check not built yet in this commit"))} for pid in ALL if pid not in {c["property_id"] for c in checks}]
man = {"version": 1, "setup_cmd": "make -C /verif setup",
       "hooks": {"guard": "MDPAX_VERIF", "enable": "no source hooks are needed: the engine reads /repo/src with ast.parse and the run-time harness drives the editable install (/venv/bin/python); MDPAX_VERIF=1 is set for harness runs but nothing in /repo tests it",
                 "baseline_off_cmd": "cd /repo && /venv/bin/python -m pytest -ra -q -p no:cacheprovider --timeout=900", "source_commits": props.HOOK_COMMITS, "add_only": True},
       "engines": [{"name": "pyvc", "path": "pyvc/", "serves_properties": [c["property_id"] for c in checks], "kind_free_text": "AST-level symbolic executor / VC generator for the Python+JAX subset used by mdpax; z3 5.1 and cvc5 back ends"},
                   {"name": "lean-lemmas", "path": "lean/Mdpax/", "serves_properties": [p for p in ALL if (props.PROPS.get(p) or {}).get("lean")], "kind_free_text": "Lean 4.33 + Mathlib lemma library over the contracts (compiled by lean/build.py, axiom-audited)"},
                   {"name": "runtime-harness", "path": "replay/", "serves_properties": [p for p in ALL if (props.PROPS.get(p) or {}).get("bounded")], "kind_free_text": "bounded run-time contract checks and counter-model replay on the real code (never counted as proved)"}],
       "checks": checks, "not_applicable": na,
       "notes": "exit codes: 0 held, 1 violation (VIOLATION line + replay file), 2 undecided, 3 engine error. Known findings: known_findings.json. Unguarded repairs of genuine defects in /repo (see DESIGN.md 10.3): " + "; ".join(k["record"] for k in json.load(open(os.path.join(ROOT, "known_findings.json"))) if str(k.get("status", "")).startswith("fixed"))}
json.dump(man, open(os.path.join(ROOT, "MANIFEST.json"), "w"), indent=1)
import jsonschema; jsonschema.validate(man, json.load(open("/root/.vp/MANIFEST.schema.json"))); print("MANIFEST ok:", [c["property_id"] for c in checks], "n/a:", [n["property_id"] for n in na])
