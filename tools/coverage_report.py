#!/usr/bin/env python3
"""Function coverage of /repo/src/mdpax by the deductive units: 'contract' = target of a unit of some claimed property (own obligations),
'executed' = real body symbolically executed inside another function's verification (inlined), otherwise not reached.
Reads the evidence files of the last runs (run tools/run_all.sh first)."""
import ast, os, json, glob, sys
ROOT = os.path.dirname(os.path.dirname(os.path.abspath(__file__))); sys.path.insert(0, ROOT)
import props
SRC = "/repo/src/mdpax"
funcs = {}
for dp, _, fs in os.walk(SRC):
    for f in fs:
        if not f.endswith(".py"): continue
        mod = "mdpax." + os.path.relpath(os.path.join(dp, f), SRC)[:-3].replace("/", ".")
        t = ast.parse(open(os.path.join(dp, f)).read())
        for n in t.body:
            if isinstance(n, ast.FunctionDef): funcs[f"{mod}.{n.name}"] = mod
            if isinstance(n, ast.ClassDef):
                for m in n.body:
                    if isinstance(m, ast.FunctionDef): funcs[f"{mod}.{n.name}.{m.name}"] = mod
targets = {u["target"] for P in props.PROPS.values() for u in P.get("units", []) if u.get("target")}
executed = set()
for f in glob.glob(os.path.join(ROOT, "evidence", "*.json")):
    executed |= set(json.load(open(f))["coverage"].get("repo_functions_symbolically_executed", []))
# a unit's target may be an inherited method: credit the defining class too
by_mod = {}
for q, mod in sorted(funcs.items()):
    short = q.split(".")[-1]
    st = "contract" if q in targets or any(t.endswith("." + ".".join(q.split(".")[-2:])) for t in targets) else ("executed" if q in executed else "not reached")
    by_mod.setdefault(mod, {"contract": [], "executed": [], "not reached": []})[st].append(short)
tot = {"contract": 0, "executed": 0, "not reached": 0}
print("| module | functions | own contract (unit target) | body executed inside other units | not reached by the deductive part |"); print("|---|---|---|---|---|")
for mod, d in by_mod.items():
    n = sum(len(v) for v in d.values())
    if n == 0: continue
    for k in tot: tot[k] += len(d[k])
    print(f"| `{mod.replace('mdpax.', '')}` | {n} | {len(d['contract'])} | {len(d['executed'])} | {len(d['not reached'])}: {', '.join(sorted(d['not reached']))[:400]} |")
print(f"| **total** | {sum(tot.values())} | {tot['contract']} | {tot['executed']} | {tot['not reached']} |")
