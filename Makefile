.PHONY: setup clean
setup:
	python3-vt lean/build.py
	python3-vt -c "import z3, sys; print('z3', z3.get_version_string())"
clean:
	rm -rf lean/build replays/*.json
