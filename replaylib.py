"""Replay files: written for every refuted obligation / failing bounded case; concretised and run against the real code."""
import os, json, hashlib, subprocess, fnmatch

ROOT = os.path.dirname(os.path.abspath(__file__))
def OUT(src): return os.environ.get("VERIF_OUT_DIR") or (ROOT if src == "/repo/src" else None)
REPO_PY = "/venv/bin/python"


def _out(src):
    import check
    return check.OUT
def _git_sha(src):
    try:
        top = subprocess.run(["git", "-C", src, "rev-parse", "HEAD"], capture_output=True, text=True).stdout.strip()
        dirty = subprocess.run(["git", "-C", src, "status", "--porcelain"], capture_output=True, text=True).stdout.strip()
        return top + ("+dirty" if dirty else "")
    except Exception:
        return "unknown"


def write_replay(pid, r, src):
    short = r["name"].split(".")[-1]
    h = hashlib.sha256((r["name"] + r["path"] + json.dumps(r.get("model"), sort_keys=True, default=str)).encode()).hexdigest()[:8]
    path = os.path.join(_out(src), "replays", f"{pid}-{short}-{h}.json")
    json.dump({"property": pid, "kind": "refuted-obligation", "obligation": r["name"], "path": r["path"], "unit": r.get("unit"), "source_tree": src, "source_sha": _git_sha(src),
               "solver": r["backend"], "solver_detail": r.get("detail"), "model": r.get("model"), "meta": r.get("meta"), "smt2": r.get("smt2"),
               "verdict": "refuted-by-solver", "concrete_input": None, "observed": None, "expected": None}, open(path, "w"), indent=1)
    return os.path.relpath(path, ROOT) if path.startswith(ROOT) else path


def write_harness_replay(pid, fl, src):
    h = hashlib.sha256(json.dumps(fl, sort_keys=True, default=str).encode()).hexdigest()[:8]
    path = os.path.join(_out(src), "replays", f"{pid}-{fl.get('harness', 'bounded')}-{h}.json")
    json.dump({"property": pid, "kind": "runtime-contract-failure", "obligation": "bounded:" + str(fl.get("check", fl.get("harness"))), "source_tree": src, "source_sha": _git_sha(src),
               "concrete_input": fl.get("input"), "observed": fl.get("observed"), "expected": fl.get("expected"), "what": fl.get("what"),
               "rerun": fl.get("rerun"), "verdict": "confirmed-on-real-code" if fl.get("input") is not None else "no-failing-input-found"}, open(path, "w"), indent=1, default=str)
    return os.path.relpath(path, ROOT) if path.startswith(ROOT) else path


def _replayer(pid, obligation):
    import props
    for pat, script in props.PROPS[pid].get("replayers", []):
        if fnmatch.fnmatch(obligation, pat): return script
    return None


def try_replay(pid, relpath, src, hreps=None):
    """concretise the counter-model and run it on the real code; falls back to a failing case of the property's run-time harness"""
    path = relpath if os.path.isabs(relpath) else os.path.join(ROOT, relpath); rec = json.load(open(path))
    script = _replayer(pid, rec["obligation"])
    if script:
        env = dict(os.environ, JAX_PLATFORMS="cpu", PYTHONPATH=os.path.join(ROOT, "replay") + (":" + src if src != "/repo/src" else ""))
        p = subprocess.run([REPO_PY, os.path.join(ROOT, "replay", script), path], capture_output=True, text=True, env=env, timeout=900)
        try: rec = json.load(open(path))
        except Exception: pass
        if rec.get("verdict") != "confirmed-on-real-code":
            rec.setdefault("replayer_output", (p.stdout + p.stderr)[-1500:])
    if rec.get("verdict") != "confirmed-on-real-code" and hreps:
        # the bounded harness of this property explores the same input class on the real code: adopt a failing case if it found one
        for hr in hreps:
            for fl in hr.get("failures", []):
                if fl.get("input") is not None and not fl.get("known_finding"):
                    rec.update(concrete_input=fl["input"], observed=fl.get("observed"), expected=fl.get("expected"), verdict="confirmed-on-real-code",
                               confirmed_by=f"run-time contract harness {hr['name']}: {fl.get('what')}")
                    break
            if rec.get("verdict") == "confirmed-on-real-code": break
    if rec.get("verdict") != "confirmed-on-real-code":
        rec["verdict"] = "no-failing-input-found"
    json.dump(rec, open(path, "w"), indent=1, default=str)
    return "confirmed" if rec["verdict"] == "confirmed-on-real-code" else "none"


def replay_file(pid, path, src):
    v = try_replay(pid, os.path.relpath(os.path.abspath(path), ROOT), src)
    rec = json.load(open(path))
    print(json.dumps({k: rec.get(k) for k in ("obligation", "verdict", "concrete_input", "observed", "expected")}, indent=1, default=str))
    return 1 if v == "confirmed" else 0
