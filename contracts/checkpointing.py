"""Contracts for utils/checkpointing.py (C12 set-up, C10 restore paths) over the abstract Orbax/OmegaConf/Hydra models."""
import z3
from pyvc.contract import contract, Ctx
from pyvc.values import *

CK = "mdpax.utils.checkpointing.CheckpointMixin"
def mk_solver_obj(I, full_config):
    vimod = I.load_module("mdpax.solvers.value_iteration").globals
    pcfg = Obj("ProblemCfg", {"_target_": "some.Problem"}, label="problem_config") if full_config else None
    prob = Obj("ProblemStub", {"name": "stub", **({"config": pcfg} if full_config else {})}, label="problem")
    cfg = Obj("SolverCfg", {"_target_": "mdpax.solvers.value_iteration.ValueIteration", "problem": pcfg}, label="config")
    return Obj(vimod["ValueIteration"], {"problem": prob, "config": cfg}, label="solver")
def setup_sc(full):
    def setup(I):
        s = mk_solver_obj(I, full)
        f, m = z3.Ints("checkpoint_frequency max_checkpoints"); asyn = z3.Bool("enable_async")
        I.ghost["effects"] = []
        d = I.PathV("ckdir")
        return Ctx(self=s, _args=[d, f, m, asyn], f=f, m=m, asyn=asyn, I=I, full=full)
    return setup
def effects(c, kind): return [e for e in c.I.ghost.get("effects", []) if e[0] == kind]
def post_disabled(c, q):
    # f == 0  =>  nothing created, no manager
    none = not c.I.ghost.get("effects") and c.self.attrs.get("checkpoint_manager") is None
    return z3.Implies(c.f == 0, z3.BoolVal(none))
def post_enabled(c, q):
    mk = effects(c, "mkdir"); new = effects(c, "cm.new"); sv = effects(c, "omegaconf.save")
    ok = len(mk) == 1 and len(new) == 1 and (len(sv) == 1) == c.full
    if not ok: return z3.Implies(c.f > 0, z3.BoolVal(False))
    opts = new[0][1][1]
    # the configuration goes to <checkpoint_dir>/config.yaml (the name restore() looks for), the manager and mkdir use the given directory
    names_ok = (not c.full or sv[0][1][0] == "ckdir/config.yaml") and mk[0][1][0] == "ckdir" and "ckdir" in new[0][1][0]
    if not names_ok: return z3.Implies(c.f > 0, z3.BoolVal(False))
    return z3.Implies(c.f > 0, z3.And(toz3(opts["max_to_keep"]) == c.m, z3.BoolVal(opts["create"] is True), toz3(opts["enable_async_checkpointing"]) == c.asyn,
                                      toz3(c.self.attrs["checkpoint_frequency"]) == c.f))
contract(f"{CK}._setup_checkpointing", scenarios=[("full_config.", setup_sc(True)), ("no_config.", setup_sc(False))],
    raises=[("ValueError", lambda c, q: z3.Or(c.f < 0, c.m < 0))],
    ensures={"accepted_domain": lambda c, q: z3.And(c.f >= 0, c.m >= 0), "disabled_creates_nothing": post_disabled, "enabled_creates_manager_and_config": post_enabled})

# ---------------- restore(): error paths, overrides, complete assignment of the restored state (C10)
import itertools as _it
def setup_restore(mask):
    """mask: which of (step, new_checkpoint_dir, checkpoint_frequency, max_checkpoints, enable_async_checkpointing) are passed; values symbolic"""
    def setup(I):
        vimod = I.load_module("mdpax.solvers.value_iteration").globals; cls = vimod["ValueIteration"]
        I.ghost["effects"] = []
        saved = {"checkpoint_dir": "orig", "checkpoint_frequency": z3.Int("f_saved"), "max_checkpoints": z3.Int("m_saved"),
                 "enable_async_checkpointing": z3.Bool("async_saved"), "gamma": z3.Real("gamma_saved")}
        saved_cfg = Obj("DictConfig", dict(saved), label="loaded_config")
        I.ghost["saved_config"] = saved_cfg
        fresh = Obj(cls, {"values": ("fresh", "values"), "policy": None, "iteration": 0}, label="fresh_solver")
        seen = []
        def inst(cfg):
            """assumed contract of hydra.utils.instantiate(config): a solver constructed from that configuration - in particular its OWN checkpointing
            attributes come from the configuration's fields (directory recorded in config.yaml, frequency after overrides)"""
            seen.append(dict(cfg.attrs)); I.ghost.setdefault("effects", []).append(("instantiate", (dict(cfg.attrs),), list(I.pc)))
            f_ = cfg.attrs["checkpoint_frequency"]; d_ = cfg.attrs["checkpoint_dir"]
            fresh.attrs.update({"checkpoint_frequency": f_, "max_checkpoints": cfg.attrs["max_checkpoints"], "enable_async_checkpointing": cfg.attrs["enable_async_checkpointing"]})
            if I.truth(toz3(f_) > 0):
                own = I.call(I.models["orbax.checkpoint"]["CheckpointManager"], [d_ if not isinstance(d_, str) else I.PathV(d_)], {"options": None})
                fresh.attrs.update({"checkpoint_manager": own, "checkpoint_dir": d_})
            else: fresh.attrs["checkpoint_manager"] = None
            return fresh
        I.ghost["instantiate"] = inst
        step, f_new, m_new = z3.Ints("step_arg f_new m_new"); a_new = z3.Bool("async_new")
        I.assume(z3.And(step >= 1, f_new >= 0, m_new >= 0))            # every value the documented domain allows, in particular 0 (= checkpointing disabled)
        given = dict(zip(("step", "new_checkpoint_dir", "checkpoint_frequency", "max_checkpoints", "enable_async_checkpointing"), mask))
        vals = {"step": step, "new_checkpoint_dir": I.PathV("new_dir"), "checkpoint_frequency": f_new, "max_checkpoints": m_new, "enable_async_checkpointing": a_new}
        kw = {k: vals[k] for k, g in given.items() if g}
        return Ctx(self=cls, _args=[I.PathV("ckdir")], _kwargs=kw, I=I, fresh=fresh, saved=saved, cls=cls, given=given, vals=vals, seen=seen)
    return setup
def post_overrides(c, q):
    """the configuration handed to instantiate equals the loaded one except exactly for the overrides that were passed (any passed value, 0 and False included)"""
    if len(c.seen) != 1: return z3.BoolVal(False)
    cfg = c.seen[0]; conj = []
    for k, arg in (("checkpoint_frequency", "checkpoint_frequency"), ("max_checkpoints", "max_checkpoints"), ("enable_async_checkpointing", "enable_async_checkpointing")):
        want = c.vals[arg] if c.given[arg] else c.saved[k]
        conj.append(toz3(cfg[k]) == toz3(want))
    d = cfg["checkpoint_dir"]
    conj.append(z3.BoolVal((getattr(d, "s", d) == "new_dir") if c.given["new_checkpoint_dir"] else (d == "orig")))
    conj.append(toz3(cfg["gamma"]) == toz3(c.saved["gamma"]))
    return z3.And(*conj)
def post_step(c, q):
    rest = eff(c, "cm.restore")
    if len(rest) != 1: return z3.BoolVal(False)
    # the state is read through a manager opened on the directory GIVEN to restore() - not the directory recorded in config.yaml
    # (a copied / moved checkpoint directory), not new_checkpoint_dir
    ok = z3.BoolVal(rest[0][1][0] == "CM[ckdir]")
    if c.given["step"]: ok = z3.And(ok, toz3(rest[0][1][1]) == c.vals["step"])
    return ok
def eff(c, kind): return [e for e in c.I.ghost.get("effects", []) if e[0] == kind]
def post_restored(c, q):
    s = c.result
    ok = isinstance(s, Obj) and s is c.fresh and isinstance(s.attrs["values"], tuple) and s.attrs["values"][0] == "restored" and s.attrs["values"][3] == ("values",) \
         and isinstance(s.attrs["iteration"], tuple) and s.attrs["iteration"][3] == ("info", "iteration")
    return z3.BoolVal(bool(ok))
contract(f"{CK}.restore", scenarios=[("".join("sdfma"[i] if b else "-" for i, b in enumerate(m)) + ".", setup_restore(m)) for m in _it.product([False, True], repeat=5)],
    raises=[("FileNotFoundError", lambda c, q: z3.BoolVal(len(eff(c, "instantiate")) == 0 and len(eff(c, "cm.new")) == 0)),      # before any other effect
            ("ValueError", lambda c, q: z3.BoolVal(len(eff(c, "cm.restore")) == 0))],
    ensures={"every_state_field_assigned_from_checkpoint": post_restored,
             "config_loaded_then_instantiated_once": lambda c, q: z3.BoolVal(len(eff(c, "omegaconf.load")) == 1 and len(eff(c, "instantiate")) == 1),
             "template_policy_none_stays_none": lambda c, q: z3.BoolVal(c.result.attrs["policy"] is None),
             "overrides_applied_field_by_field_and_to_nothing_else": post_overrides,
             "state_read_from_original_directory_at_the_chosen_step": post_step})

# ---------------- has_full_config (both directions) and load_checkpoint (C10)
def setup_hfc(I):
    vimod = I.load_module("mdpax.solvers.value_iteration").globals
    # four independent yes/no facts about the object graph: problem.config present / has _target_, solver config present / has _target_
    flags = {k: z3.Bool(k) for k in ("problem_has_config", "problem_target_set", "solver_has_config", "solver_target_set")}
    return Ctx(self=None, _args=[], flags=flags, vimod=vimod, I=I)
def hfc_scenarios():
    out = []
    import itertools
    # problem.config: -1 attribute ABSENT (a hand-written Problem), 0 None, 1 config without _target_, 2 config with _target_
    # solver config:   0 None, 1 without _target_, 2 with _target_ ;  its embedded `problem` entry: 0 None, 2 a (possibly stale) problem config with a _target_
    for bits in itertools.product([-1, 0, 1, 2], [0, 1, 2], [0, 2]):
        if bits[1] == 0 and bits[2] != 0: continue
        def setup(I, bits=bits):
            vimod = I.load_module("mdpax.solvers.value_iteration").globals
            def cfg(b, lab, **extra): return None if b == 0 else Obj("Cfg", dict({"_target_": None if b == 1 else "some.Target"}, **extra), label=lab)
            prob = Obj("ProblemStub", {"name": "stub"}, label="problem")
            if bits[0] >= 0: prob.attrs["config"] = cfg(bits[0], "problem_config")
            embedded = prob.attrs.get("config") if bits[0] == 2 and bits[2] == 2 else cfg(bits[2], "embedded_problem_config_of_another_problem")
            s = Obj(vimod["ValueIteration"], {"problem": prob, "config": cfg(bits[1], "config", problem=embedded)}, label="solver")
            # reconstructible from configuration <=> the PROBLEM INSTANCE carries a configuration with a target and the solver configuration has a target
            return Ctx(self=s, _args=[], want=(bits[0] == 2 and bits[1] == 2))
        out.append((f"p{'x' if bits[0] < 0 else bits[0]}s{bits[1]}e{bits[2]}.", setup))
    return out
def ret_hfc(c):
    s = c["self"]; pc = s.attrs["problem"].attrs.get("config") if isinstance(s.attrs.get("problem"), Obj) else None; sc = s.attrs.get("config")
    return bool(isinstance(pc, Obj) and pc.attrs.get("_target_") is not None and isinstance(sc, Obj) and sc.attrs.get("_target_") is not None)
contract(f"{CK}.has_full_config", scenarios=hfc_scenarios(), returns=ret_hfc,
    ensures={"true_iff_both_configs_have_targets": lambda c, q: z3.BoolVal(bool(c.result) == c.want)})

LOAD_CLASSES = {
    "vi": ("mdpax.solvers.value_iteration", "ValueIteration", {}),
    "pi": ("mdpax.solvers.policy_iteration", "PolicyIteration", {}),
    "rvi": ("mdpax.solvers.relative_value_iteration", "RelativeValueIteration", {"gain": ("info", "gain")}),
    "pvi": ("mdpax.solvers.periodic_value_iteration", "PeriodicValueIteration", {"value_history": ("info", "value_history"), "history_index": ("info", "history_index"), "period": ("info", "period")}),
    "sa": ("mdpax.solvers.semi_async_value_iteration", "SemiAsyncValueIteration", {"batch_order": ("info", "batch_order")}),
}
def setup_load(kind):
    def setup(I):
        modname, clsname, extra = LOAD_CLASSES[kind]
        cls = I.load_module(modname).globals[clsname]
        I.ghost["effects"] = []
        attrs = {"values": ("own", "values"), "policy": ("own", "policy"), "iteration": z3.Int("own_iteration"), "checkpoint_dir": I.PathV("own_dir")}
        attrs.update({k: ("own", k) for k in extra})
        s = Obj(cls, attrs, label="hand_built_solver")
        given = z3.Bool("step_given"); step = z3.Int("step_arg"); I.assume(step >= 1)
        use_step = I.truth(given)
        return Ctx(self=s, _args=[I.PathV("other_dir")], _kwargs=({"step": step} if use_step else {}), I=I, use_step=use_step, step=step, extra=extra)
    return setup
def post_load(c, q):
    s = c.self
    want = dict({"values": ("values",), "policy": ("policy",), "iteration": ("info", "iteration")}, **c.extra)
    ok = all(isinstance(s.attrs[k], tuple) and s.attrs[k][0] == "restored" and s.attrs[k][3] == path for k, path in want.items())      # every field from ITS OWN leaf of the restored tree
    news = eff(c, "cm.new"); rest = eff(c, "cm.restore")
    ok = ok and len(news) == 1 and "other_dir" in news[0][1][0] and len(rest) == 1 and "other_dir" in rest[0][1][0]
    if c.use_step: return z3.And(z3.BoolVal(bool(ok)), toz3(rest[0][1][1]) == c.step)
    return z3.BoolVal(bool(ok))
contract(f"{CK}.load_checkpoint", scenarios=[(f"{k}.", setup_load(k)) for k in LOAD_CLASSES],
    raises=[("ValueError", lambda c, q: z3.BoolVal(len(eff(c, "cm.restore")) == 0 and not isinstance(c.self.attrs["values"], tuple) or c.self.attrs["values"][0] == "own"))],
    ensures={"every_state_field_assigned_from_the_given_directory_at_the_chosen_step": post_load,
             "own_checkpoint_dir_kept": lambda c, q: z3.BoolVal(c.self.attrs["checkpoint_dir"].s == "own_dir"),
             "no_save_no_mkdir": lambda c, q: z3.BoolVal(not eff(c, "cm.save") and not eff(c, "mkdir") and not eff(c, "omegaconf.save"))})

# ---------------- ValueIteration._setup_additional_components: the configuration's checkpoint fields reach _setup_checkpointing unpermuted (C12 / C20)
def setup_addc(I):
    vimod = I.load_module("mdpax.solvers.value_iteration").globals
    f, m = z3.Ints("checkpoint_frequency max_checkpoints"); asyn = z3.Bool("enable_async")
    cfg = Obj("cfg", {"checkpoint_dir": I.PathV("cfg_dir"), "checkpoint_frequency": f, "max_checkpoints": m, "enable_async_checkpointing": asyn}, label="config")
    s = Obj(vimod["ValueIteration"], {"config": cfg}, label="solver"); got = []
    contract(f"{CK}._setup_checkpointing", returns=lambda c: None, effects=lambda I_, c: got.append({k: c[k] for k in ("checkpoint_dir", "checkpoint_frequency", "max_checkpoints", "enable_async_checkpointing")}), ensures={}, setup=None)
    return Ctx(self=s, _args=[], f=f, m=m, asyn=asyn, got=got)
def post_addc(c, q):
    if len(c.got) != 1: return z3.BoolVal(False)
    g = c.got[0]
    return z3.And(z3.BoolVal(getattr(g["checkpoint_dir"], "s", None) == "cfg_dir"), toz3(g["checkpoint_frequency"]) == c.f, toz3(g["max_checkpoints"]) == c.m, toz3(g["enable_async_checkpointing"]) == c.asyn)
contract("mdpax.solvers.value_iteration.ValueIteration._setup_additional_components", setup=setup_addc,
    ensures={"config_fields_passed_to_their_own_parameters": post_addc})
