"""Contract for the semi-asynchronous per-device sweep (C06): scan with a changing carry, scatter, padding mask."""
import z3
from pyvc.contract import contract, Ctx, ScanSpec, REGISTRY, LoopSpec
from pyvc.values import *
from pyvc import reduce as R
from pyvc.models import arrays as A
from contracts.spec_mdp import *
from contracts.value_iteration import mk_solver, ret_batch, req_kernel
import contracts.value_iteration as CV

SA = "mdpax.solvers.semi_async_value_iteration.SemiAsyncValueIteration"
V0 = z3.Function("V0", I_, R_); NEWF = z3.Function("NEW", I_, R_); PERM = z3.Function("perm", I_, I_); POS = z3.Function("pos", I_, I_)
# the semi-async class overrides the kernels with identical bodies: same contracts
SACLS = ("SemiAsyncValueIteration", "mdpax.solvers.semi_async_value_iteration")
for m, st in (("_get_value_next_state", CV.setup_gvns), ("_calculate_updated_state_action_value", CV.setup_sav), ("_calculate_updated_value", CV.setup_uv), ("_calculate_updated_value_state_batch", CV.setup_batch)):
    src = REGISTRY[f"{CV.VI}.{m}"]
    # the overriding bodies are verified against the SAME postconditions as the parent's (own units, see props.py)
    contract(f"{SA}.{m}", requires=src.requires, returns=src.returns, ensures=dict(src.ensures), setup=(lambda I, st=st: st(I, SACLS)))


def sa_config(I, shuffle):
    """full SemiAsyncValueIterationConfig object (every dataclass field with its default from the class body), shuffle flag fixed, seed symbolic"""
    cfgcls = I.load_module("mdpax.solvers.semi_async_value_iteration").globals["SemiAsyncValueIterationConfig"]
    o = Obj(cfgcls, {}, label="config")
    for n, (k, d) in I.all_fields(cfgcls).items():
        if d is not None:
            try: o.attrs[n] = I.ev(d, dict(k.module.globals), k.module)
            except Exception: pass
    o.attrs.update({"shuffle_states": shuffle, "random_seed": z3.Int("random_seed")})
    return o
def setup_scan(I):
    s, Pb, dims, gamma = mk_solver(I, "SemiAsyncValueIteration", "mdpax.solvers.semi_async_value_iteration")
    D, B, bs, pad = dims
    dev0 = z3.Int("dev0"); I.assume(z3.And(dev0 >= 0))
    s.attrs["batch_order"] = None
    I.ghost["scatters"] = []
    flat = lambda b, j: dev0 + toz3(b) * bs + toz3(j)
    states = vec_array((B, bs, SD), lambda l: z3.If(flat(l[0], l[1]) < N, ST(PERM(flat(l[0], l[1]))), ZVEC))
    mask = SArr((B, bs), lambda idx: flat(idx[0], idx[1]) >= N)
    vals = SArr((N,), lambda idx: V0(toz3(idx[0])))
    carry = (Pb.action_space, Pb.event_space, gamma, vals)
    # permutation (assumed contract of jax.random.permutation) and WF-index, as on-demand instances
    perm_at = lambda k: z3.Implies(z3.And(k >= 0, k < N), z3.And(PERM(k) >= 0, PERM(k) < N, POS(PERM(k)) == k))
    pos_at = lambda i: z3.Implies(z3.And(i >= 0, i < N), z3.And(POS(i) >= 0, POS(i) < N, PERM(POS(i)) == i, IDX(ST(i)) == i))
    return Ctx(self=s, _args=[carry, (states, mask)], dims=dims, dev0=dev0, gamma=gamma, carry=carry, flat=flat, perm_at=perm_at, pos_at=pos_at, I=I)
def spec_carry(c, b):
    D, B, bs, pad = c.dims
    return SArr((N,), lambda idx, b=b: z3.If(z3.And(c.dev0 <= POS(toz3(idx[0])), POS(toz3(idx[0])) < c.dev0 + toz3(b) * bs), NEWF(POS(toz3(idx[0]))), V0(toz3(idx[0]))))
_arb = [0]
def carry_at(I, c, b):
    D, B, bs, pad = c.dims; _arb[0] += 1
    ARB = z3.Function(f"arb!{_arb[0]}", I_, R_)
    sc = spec_carry(c, b)
    vals = SArr((N,), lambda idx: z3.If(c.dev0 + toz3(b) * bs <= N, toz3(sc.get(idx)), ARB(toz3(idx[0]))))
    return (c.carry[0], c.carry[1], c.carry[2], vals), []
def check_carry(c, carry, b, q):
    D, B, bs, pad = c.dims
    i = z3.Int("i!c"); q.hyps += [i >= 0, i < N]
    goals = {"other_components_unchanged": z3.BoolVal(all(x is y for x, y in zip(carry[:3], c.carry[:3])))}
    if not z3.is_true(z3.simplify(toz3(b) == 0)):
        prev = b - 1; base = c.dev0 + prev * bs
        q.hyps.append(c.pos_at(i))
        # definition of NEW at the slot holding state i: NEW(pos i) = B(C_prev)(state i) when pos i lies in batch `prev`
        q.hyps.append(z3.Implies(z3.And(base <= POS(i), POS(i) < base + bs), NEWF(POS(i)) == Bell(spec_carry(c, prev), c.gamma, ST(i))))
        for sc in c.I.ghost.get("scatters", []):
            w = sc["J"](i); kw = base + w
            q.hyps += [sc["won"](i), sc["hits"](i, POS(i) - base), c.perm_at(kw), c.pos_at(PERM(kw))]
    q.hyps.append(c.dev0 + toz3(b) * bs <= N)          # the invariant is conditional: all batches so far were fully real
    goals["carry_is_gauss_seidel_state"] = toz3(carry[3].get((i,))) == toz3(spec_carry(c, b).get((i,)))
    return goals
ScanSpec(f"{SA}._calculate_updated_value_scan_state_batches", 0, carry_at, check_carry)
def post_rows(c, q):
    D, B, bs, pad = c.dims
    b, j = z3.Ints("b!o j!o"); q.hyps += [b >= 0, b < B, j >= 0, j < bs, c.flat(b, j) < N, c.perm_at(c.flat(b, j))]
    return toz3(c.result.get((b, j))) == Bell(spec_carry(c, b), c.gamma, ST(PERM(c.flat(b, j))))
contract(f"{SA}._calculate_updated_value_scan_state_batches", setup=setup_scan,
    ensures={"real_rows_use_gauss_seidel_carry": post_rows})

# ---------------- shuffling: _shuffle_states and _reorder_values
from contracts.value_iteration import prepared
from contracts.batch_processing import bp_inv
def setup_shuffle(I):
    s, Pb, dims, gamma = mk_solver(I, "SemiAsyncValueIteration", "mdpax.solvers.semi_async_value_iteration")
    key = z3.Const("key0", KEY)
    return Ctx(self=s, _args=[key], key=key, dims=dims, I=I)
def post_shuffle(c, q):
    idxs, states, mask = c.result; D, B, bs, pad = c.dims; PERMF = c.I.rand["PERMF"]
    d, b, j, k = z3.Ints("d!s b!s j!s k!s"); q.hyps += [d >= 0, d < D, b >= 0, b < B, j >= 0, j < bs, k >= 0, k < N]
    flat = (d * B + b) * bs + j
    return z3.And(toz3(idxs.shape[0]) == N, toz3(idxs.get((k,))) == PERMF(c.key, k),
                  states.vec((d, b, j)) == z3.If(flat < N, ST(PERMF(c.key, flat)), ZVEC),
                  toz3(mask.get((d, b, j))) == (flat >= N))
contract(f"{SA}._shuffle_states", setup=setup_shuffle, ensures={"permuted_layout_and_mask": post_shuffle})
def setup_reorder(I):
    s, Pb, dims, gamma = mk_solver(I, "SemiAsyncValueIteration", "mdpax.solvers.semi_async_value_iteration")
    key = z3.Const("key0", KEY); W = z3.Function("SHUFFLED_VALUES", I_, R_)
    idxs = SArr((N,), lambda idx: I.rand["PERMF"](key, toz3(idx[0])), tag=("perm", key))
    vals = SArr((N,), lambda idx: W(toz3(idx[0])))
    return Ctx(self=s, _args=[idxs, vals], key=key, W=W, I=I)
contract(f"{SA}._reorder_values", setup=setup_reorder,
    ensures={"value_of_state_i_comes_from_its_slot": lambda c, q: q.forall(0, N, lambda i: toz3(c.result.get((i,))) == c.W(c.I.rand["POSF"](c.key, i)))})

# ---------------- top level: _update_values in both modes (fixed order / shuffled), key threading, natural-order result
from contracts.batch_processing import prepare_returns
NEWS = z3.Function("NEW_sweep", I_, R_)          # ghost: value written at flat slot k in this sweep
def sweep_fns(c):
    """(perm, pos) of the current sweep as python functions on z3 ints"""
    if c["shuffle"]:
        sub = c.I.rand["K2"](c.key0); return (lambda k: c.I.rand["PERMF"](sub, k)), (lambda i: c.I.rand["POSF"](sub, i))
    return (lambda k: k), (lambda i: i)
def spec_carry_dev(c, V, dev0, b, pos):
    D, B, bs, pad = c.dims
    return SArr((N,), lambda idx: z3.If(z3.And(dev0 <= pos(toz3(idx[0])), pos(toz3(idx[0])) < dev0 + toz3(b) * bs), NEWS(pos(toz3(idx[0]))), toz3(V.get(idx))))
def device_returns(c):
    """contract of the per-device function as seen by _update_values (requires: layout of this device's slice)"""
    I = c["I_"]; ctx = I.ghost["sweep_ctx"]; D, B, bs, pad = ctx.dims
    perm, pos = sweep_fns(ctx)
    d = I.ghost["pmap_index"]; dev0 = toz3(d) * B * bs
    actions, events, gamma, V = c["carry"]; states, mask = c["batched_input"]
    return SArr((B, bs), lambda idx: Bell(spec_carry_dev(ctx, V, dev0, idx[0], pos), gamma, states.vec((idx[0], idx[1]))))
def device_requires(c, q):
    I = c["I_"]; ctx = I.ghost["sweep_ctx"]; D, B, bs, pad = ctx.dims
    perm, pos = sweep_fns(ctx)
    d = toz3(I.ghost["pmap_index"]); states, mask = c["batched_input"]
    b, j = z3.Ints("b!dr j!dr"); q.hyps += [b >= 0, b < B, j >= 0, j < bs]
    flat = (d * B + b) * bs + j
    return z3.And(states.vec((b, j)) == z3.If(flat < N, ST(perm(flat)), ZVEC), toz3(mask.get((b, j))) == (flat >= N))
def setup_update(shuffle):
    def setup(I):
        s, Pb, dims, gamma = mk_solver(I, "SemiAsyncValueIteration", "mdpax.solvers.semi_async_value_iteration")
        I.call(I.getattr(s, "_setup_jax_functions"), [], {})
        key0 = z3.Const("key_before", KEY)
        s.attrs.update({"key": key0, "batch_order": None, "config": sa_config(I, shuffle)})
        V = SArr((N,), lambda idx: V0(toz3(idx[0])))
        c = Ctx(self=s, _args=[prepared(Pb, dims), Pb.action_space, Pb.event_space, gamma, V], dims=dims, gamma=gamma, shuffle=shuffle, key0=key0, I=I, V=V)
        I.ghost["sweep_ctx"] = c; REG_I[0] = I
        # the per-device function enters through its contract
        dc = contract(f"{SA}._calculate_updated_value_scan_state_batches", requires=lambda cc, q: device_requires(Ctx(cc, I_=I), q), returns=lambda cc: device_returns(Ctx(cc, I_=I)), ensures={}, setup=None)
        return c
    return setup
def post_update(c, q):
    D, B, bs, pad = c.dims; perm, pos = sweep_fns(c)
    i = z3.Int("i!uv"); q.hyps += [i >= 0, i < N]
    k = pos(i)
    # permutation facts (assumed contract) at the points used; digits of the slot of state i
    q.hyps += [z3.And(k >= 0, k < N), perm(k) == i]
    from pyvc.models import arrays as A
    d, b, j = A.unravel(k, (D, B, bs))
    want = Bell(spec_carry_dev(c, c.V, d * B * bs, b, pos), c.gamma, ST(i))
    return z3.And(toz3(c.result.shape[0]) == N, toz3(c.result.get((i,))) == want)
def post_key(c, q):
    k1 = c.I.rand["K1"](c.key0)
    return (c.self.attrs["key"] == k1) if c.shuffle else z3.BoolVal(c.self.attrs["key"] is c.key0)

def ret_shuffle(c):
    s = c["self"]; key = c["key"]; bp = s.attrs["batch_processor"]
    D, B, bs, pad = (bp.attrs[k] for k in ("n_devices", "n_batches", "batch_size", "n_pad"))
    from pyvc.models import libs as _L
    PERMF = _L.RAND["PERMF"]
    idxs = SArr((N,), lambda idx: PERMF(key, toz3(idx[0])), tag=("perm", key))
    flat = lambda l: (toz3(l[0]) * B + toz3(l[1])) * bs + toz3(l[2])
    states = vec_array((D, B, bs, SD), lambda l: z3.If(flat(l) < N, ST(PERMF(key, flat(l))), ZVEC))
    mask = SArr((D, B, bs), lambda idx: flat(idx) >= N)
    return (idxs, states, mask)
def ret_reorder(c):
    from pyvc.models import libs as _L
    idxs, vals = c["shuffled_state_idxs"], c["values"]
    key = idxs.tag[1]
    return SArr((N,), lambda idx: vals.get((_L.RAND["POSF"](key, toz3(idx[0])),)))
REG_I = [None]
REGISTRY[f"{SA}._shuffle_states"].returns = ret_shuffle
REGISTRY[f"{SA}._reorder_values"].returns = ret_reorder

# ---------------- _update_values as a contract usable by callers; _iteration_step; solve (C06 top level, C08 for the semi-async solver)
from contracts.vi_solve import span_of, maxdiff_of, Greedy, policy_of
from pyvc.interp import FormatSpec
def ctx_of_self(I, s, V):
    bp = s.attrs["batch_processor"]; dims = tuple(bp.attrs[k] for k in ("n_devices", "n_batches", "batch_size", "n_pad"))
    return Ctx(dims=dims, shuffle=s.attrs["config"].attrs["shuffle_states"], key0=s.attrs["key"], I=I, V=V, gamma=s.attrs["gamma"])
def gs_result(cx):
    """natural-order result of one sweep from cx.V: state i gets the backup from the carry of its device before its batch"""
    D, B, bs, pad = cx.dims; perm, pos = sweep_fns(cx)
    def at(idx):
        i = toz3(idx[0]); k = pos(i); d, b, j = A.unravel(k, (D, B, bs))
        return Bell(spec_carry_dev(cx, cx.V, d * B * bs, b, pos), cx.gamma, ST(i))
    return SArr((N,), at)
def ret_update(c):
    I = REG_I[0]; return gs_result(ctx_of_self(I, c["self"], c["values"]))
def eff_update(I, c):
    s = c["self"]
    if s.attrs["config"].attrs["shuffle_states"]:
        I.note_write(s, "key"); s.attrs["key"] = I.rand["K1"](s.attrs["key"])
def req_update(c, q):
    s = c["self"]; P = s.attrs["problem"].attrs
    return z3.And(CV.same_vecs(c["actions"], P["action_space"], q), CV.same_vecs(c["random_events"], P["random_event_space"], q),
                  z3.BoolVal(c["batched_states"] is s.attrs["batched_states"]), toz3(c["values"].shape[0]) == N)
contract(f"{SA}._update_values", scenarios=[("fixed.", setup_update(False)), ("shuffled.", setup_update(True))], returns=ret_update, effects=eff_update, requires=None, modifies={"key"},
         ensures={"natural_order_gauss_seidel": post_update, "key_advanced_once_iff_shuffling": post_key,
                  "CANARY_synchronous": lambda c, q: q.forall(0, N, lambda i: toz3(c.result.get((i,))) == Bell(c.V, c.gamma, ST(i)))})

def setup_sa_step(shuffle, test):
    def setup(I):
        s, Pb, dims, gamma = mk_solver(I, "SemiAsyncValueIteration", "mdpax.solvers.semi_async_value_iteration")
        I.call(I.getattr(s, "_setup_jax_functions"), [], {})
        key0 = z3.Const("key_before", KEY); V = SArr((N,), lambda idx: V0(toz3(idx[0])))
        s.attrs.update({"key": key0, "batch_order": None, "config": sa_config(I, shuffle), "values": V, "batched_states": prepared(Pb, dims),
                        "_convergence_test_fn": I.getattr(s, "_get_span" if test == "span" else "_get_max_diff")})
        REG_I[0] = I
        REGISTRY[f"{SA}._update_values"].requires = req_update
        return Ctx(self=s, _args=[], dims=dims, gamma=gamma, shuffle=shuffle, key0=key0, I=I, V=V, test=test)
    return setup
def post_sa_step_values(c, q):
    i = z3.Int("i!st"); q.hyps += [i >= 0, i < N]
    return z3.And(toz3(c.result[0].shape[0]) == N, toz3(c.result[0].get((i,))) == toz3(gs_result(c).get((i,))))
def post_sa_step_measure(c, q):
    new = gs_result(c); f = lambda i: toz3(new.get((i,))) - V0(i)
    return toz3(c.result[1]) == (span_of if c.test == "span" else maxdiff_of)(f, N)
contract(f"{SA}._iteration_step", scenarios=[(f"{'shuffled' if sh else 'fixed'}.{t}.", setup_sa_step(sh, t)) for sh in (False, True) for t in ("span", "max_diff")], modifies={"key"},
         ensures={"new_values_are_the_gauss_seidel_sweep": post_sa_step_values, "measure": post_sa_step_measure, "key_advanced_once_iff_shuffling": post_key})

# ---- solve: ghost trajectory SVAL(k+1) := sweep(SVAL(k), key after k sweeps) -- a definition; what is proved is the accounting and the stop rule
SVALF = z3.Function("SVAL", I_, I_, R_); SMEAS = z3.Function("SMEAS", I_, R_); KEYAT = z3.Function("KEY_AT", I_, KEY)
class STraj:
    def __init__(self, test): self.test = test; self.points = []
    def opaque(self, k): return SArr((N,), lambda idx, k=k: SVALF(toz3(k), toz3(idx[0])), tag=("straj", k))
    def meas_def(self, k):
        f = lambda i: SVALF(toz3(k) + 1, i) - SVALF(toz3(k), i)
        return SMEAS(toz3(k) + 1) == (span_of if self.test == "span" else maxdiff_of)(f, N)
def setup_sa_solve(shuffle, test):
    def setup(I):
        s, Pb, dims, gamma = mk_solver(I, "SemiAsyncValueIteration", "mdpax.solvers.semi_async_value_iteration")
        I.call(I.getattr(s, "_setup_jax_functions"), [], {})
        n0, maxit, f, dec = z3.Ints("n0 max_iterations checkpoint_frequency decimals"); thr = z3.Real("conv_threshold")
        I.assume(z3.And(n0 >= 0, maxit >= 1, f >= 0, dec >= 0, gamma > 0, gamma <= 1))
        tr = STraj(test)
        s.attrs.update({"iteration": n0, "values": tr.opaque(n0), "key": KEYAT(n0), "batch_order": None, "batched_states": prepared(Pb, dims), "policy": None,
                        "config": sa_config(I, shuffle), "conv_threshold": thr, "_convergence_desc": test, "convergence_format": FormatSpec(dec),
                        "checkpoint_frequency": f, "checkpoint_manager": Obj("CheckpointManager", {}, label="CM"),
                        "_convergence_test_fn": I.getattr(s, "_get_span" if test == "span" else "_get_max_diff")})
        I.ghost["saves"] = []; REG_I[0] = I
        # _iteration_step through its contract, in trajectory vocabulary: the sweep result from SVAL(k) is SVAL(k+1) by definition,
        # the measure is test(new - old) by _iteration_step.post.measure, the key advances once iff shuffling (post.key_advanced_once_iff_shuffling)
        def ret_step(c):
            v = c["self"].attrs["values"]
            if not (isinstance(v, SArr) and v.tag and v.tag[0] == "straj"): raise Unsupported("semi-async solve: values are not a trajectory point")
            k = v.tag[1]; return (tr.opaque(toz3(k) + 1), SMEAS(toz3(k) + 1))
        def eff_step(I_, c):
            s_ = c["self"]
            if shuffle: I_.note_write(s_, "key"); s_.attrs["key"] = I_.rand["K1"](s_.attrs["key"])
        contract(f"{SA}._iteration_step", returns=ret_step, effects=eff_step, ensures={}, setup=None)
        return Ctx(self=s, _args=[maxit], n0=n0, maxit=maxit, thr=thr, gamma=gamma, traj=tr, f=f, shuffle=shuffle, I=I)
    return setup
def havoc_sa(I, env, c, k):
    s = c.self; it = c.n0 + k; tr = c.traj
    s.attrs["iteration"] = it; s.attrs["values"] = tr.opaque(it); s.attrs["key"] = KEYAT(it)
    env["conv"] = SMEAS(it); env["new_values"] = tr.opaque(it)
    j = z3.Int("%jinv")
    hy = [z3.ForAll([j], z3.Implies(z3.And(j > c.n0, j <= it), SMEAS(j) >= c.thr))]
    if c.shuffle: hy.append(KEYAT(it + 1) == I.rand["K1"](KEYAT(it)))          # definition of the key sequence: one split per sweep
    else: hy.append(KEYAT(it + 1) == KEYAT(it))
    return hy
def check_sa(c, env, k, q):
    s = c.self; it = c.n0 + k; tr = c.traj
    goals = {"iteration": toz3(s.attrs["iteration"]) == it,
             "values": q.forall(0, N, lambda x: toz3(s.attrs["values"].get((x,))) == SVALF(it, x)),
             "key_is_seed_key_after_that_many_splits": s.attrs["key"] == KEYAT(it),
             "no_earlier_stop": q.forall(c.n0 + 1, it + 1, lambda j: SMEAS(j) >= c.thr, name="j")}
    if not z3.is_true(z3.simplify(toz3(k) == 0)): goals["conv_is_measure"] = toz3(env["conv"]) == SMEAS(it)
    return goals
LoopSpec(f"{SA}.solve", 0, havoc_sa, check_sa, modifies={"self.iteration", "self.values", "self.key", "conv", "new_values"})
contract(f"{SA}.solve", scenarios=[(f"{'shuffled' if sh else 'fixed'}.{t}.", setup_sa_solve(sh, t)) for sh in (False, True) for t in ("span", "max_diff")],
    ensures={"values_are_that_many_sweeps": lambda c, q: q.forall(0, N, lambda x: toz3(c.self.attrs["values"].get((x,))) == SVALF(toz3(c.self.attrs["iteration"]), x)),
             "stop_rule": lambda c, q: z3.And(toz3(c.self.attrs["iteration"]) - c.n0 <= c.maxit, toz3(c.self.attrs["iteration"]) - c.n0 >= 1,
                            q.forall(c.n0 + 1, toz3(c.self.attrs["iteration"]), lambda j: SMEAS(j) >= c.thr, name="j"),
                            z3.Or(SMEAS(toz3(c.self.attrs["iteration"])) < c.thr, toz3(c.self.attrs["iteration"]) == c.n0 + c.maxit)),
             "policy_greedy": lambda c, q: q.forall(0, N, lambda x: c.self.attrs["policy"].vec((x,)) == AC(Greedy(c.self.attrs["values"], c.gamma, ST(x)))) if isinstance(c.self.attrs["policy"], SArr) else z3.BoolVal(False)})

# ---- _setup_config: key = PRNGKey(random_seed) (reproducibility: the whole key sequence is a function of the seed)
def setup_sa_cfg(route):
    def setup(I):
        from contracts.spec_mdp import ProblemStub
        mod = I.load_module("mdpax.solvers.semi_async_value_iteration").globals
        seed = z3.Int("random_seed"); g, e = z3.Real("gamma"), z3.Real("epsilon"); mbs = z3.Int("mbs")
        I.assume(z3.And(g >= 0, g <= 1, e > 0, mbs >= 1))
        P = ProblemStub(I); s = Obj(mod["SemiAsyncValueIteration"], {}, label="solver")
        if route == "config_object":
            cfg = Obj(mod["SemiAsyncValueIterationConfig"], dict(_target_="t", problem=None, gamma=g, epsilon=e, max_batch_size=mbs, jax_double_precision=True, verbose=0, checkpoint_dir=None,
                      checkpoint_frequency=0, max_checkpoints=1, enable_async_checkpointing=True, convergence_test="span", shuffle_states=True, random_seed=seed), label="config")
            return Ctx(self=s, _args=[P.obj, cfg], seed=seed, I=I)
        # keyword route (also what Hydra's instantiate does when a saved configuration is reloaded)
        return Ctx(self=s, _args=[P.obj, None], _kwargs=dict(gamma=g, epsilon=e, max_batch_size=mbs, verbose=0, shuffle_states=True, random_seed=seed), seed=seed, I=I)
    return setup
contract(f"{SA}._setup_config", scenarios=[("config_object.", setup_sa_cfg("config_object")), ("kwargs.", setup_sa_cfg("kwargs"))],
    ensures={"key_is_PRNGKey_of_seed": lambda c, q: c.self.attrs["key"] == c.I.rand["KEY0"](c.seed),
             "seed_is_in_the_config": lambda c, q: toz3(c.self.attrs["config"].attrs["random_seed"]) == c.seed})
from pyvc.contract import LoopSpec


# ---------------- _initialize_solver_state_elements (override of the base initialisation: same postcondition + no batch order yet)
from contracts.value_iteration import prepared
def setup_sa_init(I):
    s, Pb, dims, gamma = mk_solver(I, *SACLS)
    I.call(I.getattr(s, "_setup_jax_functions"), [], {})
    s.attrs["batched_states"] = prepared(Pb, dims)
    return Ctx(self=s, _args=[])
contract(f"{SA}._initialize_solver_state_elements", setup=setup_sa_init, modifies={"values", "policy", "iteration", "batch_order", "inverse_order"},
    ensures={"iteration_zero_values_initial_policy_none": lambda c, q: z3.And(toz3(c.self.attrs["iteration"]) == 0, z3.BoolVal(c.self.attrs["policy"] is None),
                 q.forall(0, N, lambda x: toz3(c.self.attrs["values"].get((x,))) == INITV(ST(x)))),
             "no_batch_order_before_the_first_sweep": lambda c, q: z3.BoolVal(c.self.attrs["batch_order"] is None and c.self.attrs["inverse_order"] is None)})
