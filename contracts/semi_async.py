"""Contract for the semi-asynchronous per-device sweep (C06): scan with a changing carry, scatter, padding mask."""
import z3
from pyvc.contract import contract, Ctx, ScanSpec, REGISTRY
from pyvc.values import *
from pyvc import reduce as R
from pyvc.models import arrays as A
from contracts.spec_mdp import *
from contracts.value_iteration import mk_solver, ret_batch, req_kernel
import contracts.value_iteration as CV

SA = "mdpax.solvers.semi_async_value_iteration.SemiAsyncValueIteration"
V0 = z3.Function("V0", I_, R_); NEWF = z3.Function("NEW", I_, R_); PERM = z3.Function("perm", I_, I_); POS = z3.Function("pos", I_, I_)
# the semi-async class overrides the kernels with identical bodies: same contracts
for m in ("_get_value_next_state", "_calculate_updated_state_action_value", "_calculate_updated_value", "_calculate_updated_value_state_batch"):
    src = REGISTRY[f"{CV.VI}.{m}"]
    contract(f"{SA}.{m}", requires=src.requires, returns=src.returns, ensures={}, setup=None)

def setup_scan(I):
    s, Pb, dims, gamma = mk_solver(I, "SemiAsyncValueIteration", "mdpax.solvers.semi_async_value_iteration")
    D, B, bs, pad = dims
    dev0 = z3.Int("dev0"); I.assume(z3.And(dev0 >= 0))
    s.attrs["batch_order"] = None
    I.ghost["scatters"] = []
    flat = lambda b, j: dev0 + toz3(b) * bs + toz3(j)
    states = vec_array((B, bs, SD), lambda l: z3.If(flat(l[0], l[1]) < N, ST(PERM(flat(l[0], l[1]))), ZVEC))
    mask = SArr((B, bs), lambda idx: flat(idx[0], idx[1]) >= N)
    vals = SArr((N,), lambda idx: V0(toz3(idx[0])))
    carry = (Pb.action_space, Pb.event_space, gamma, vals)
    # permutation (assumed contract of jax.random.permutation) and WF-index, as on-demand instances
    perm_at = lambda k: z3.Implies(z3.And(k >= 0, k < N), z3.And(PERM(k) >= 0, PERM(k) < N, POS(PERM(k)) == k))
    pos_at = lambda i: z3.Implies(z3.And(i >= 0, i < N), z3.And(POS(i) >= 0, POS(i) < N, PERM(POS(i)) == i, IDX(ST(i)) == i))
    return Ctx(self=s, _args=[carry, (states, mask)], dims=dims, dev0=dev0, gamma=gamma, carry=carry, flat=flat, perm_at=perm_at, pos_at=pos_at, I=I)
def spec_carry(c, b):
    D, B, bs, pad = c.dims
    return SArr((N,), lambda idx, b=b: z3.If(z3.And(c.dev0 <= POS(toz3(idx[0])), POS(toz3(idx[0])) < c.dev0 + toz3(b) * bs), NEWF(POS(toz3(idx[0]))), V0(toz3(idx[0]))))
_arb = [0]
def carry_at(I, c, b):
    D, B, bs, pad = c.dims; _arb[0] += 1
    ARB = z3.Function(f"arb!{_arb[0]}", I_, R_)
    sc = spec_carry(c, b)
    vals = SArr((N,), lambda idx: z3.If(c.dev0 + toz3(b) * bs <= N, toz3(sc.get(idx)), ARB(toz3(idx[0]))))
    return (c.carry[0], c.carry[1], c.carry[2], vals), []
def check_carry(c, carry, b, q):
    D, B, bs, pad = c.dims
    i = z3.Int("i!c"); q.hyps += [i >= 0, i < N]
    goals = {"other_components_unchanged": z3.BoolVal(all(x is y for x, y in zip(carry[:3], c.carry[:3])))}
    if not z3.is_true(z3.simplify(toz3(b) == 0)):
        prev = b - 1; base = c.dev0 + prev * bs
        q.hyps.append(c.pos_at(i))
        # definition of NEW at the slot holding state i: NEW(pos i) = B(C_prev)(state i) when pos i lies in batch `prev`
        q.hyps.append(z3.Implies(z3.And(base <= POS(i), POS(i) < base + bs), NEWF(POS(i)) == Bell(spec_carry(c, prev), c.gamma, ST(i))))
        for sc in c.I.ghost.get("scatters", []):
            w = sc["J"](i); kw = base + w
            q.hyps += [sc["won"](i), sc["hits"](i, POS(i) - base), c.perm_at(kw), c.pos_at(PERM(kw))]
    q.hyps.append(c.dev0 + toz3(b) * bs <= N)          # the invariant is conditional: all batches so far were fully real
    goals["carry_is_gauss_seidel_state"] = toz3(carry[3].get((i,))) == toz3(spec_carry(c, b).get((i,)))
    return goals
ScanSpec(f"{SA}._calculate_updated_value_scan_state_batches", 0, carry_at, check_carry)
def post_rows(c, q):
    D, B, bs, pad = c.dims
    b, j = z3.Ints("b!o j!o"); q.hyps += [b >= 0, b < B, j >= 0, j < bs, c.flat(b, j) < N, c.perm_at(c.flat(b, j))]
    return toz3(c.result.get((b, j))) == Bell(spec_carry(c, b), c.gamma, ST(PERM(c.flat(b, j))))
contract(f"{SA}._calculate_updated_value_scan_state_batches", setup=setup_scan,
    ensures={"real_rows_use_gauss_seidel_carry": post_rows})

# ---------------- shuffling: _shuffle_states and _reorder_values
from contracts.value_iteration import prepared
from contracts.batch_processing import bp_inv
def setup_shuffle(I):
    s, Pb, dims, gamma = mk_solver(I, "SemiAsyncValueIteration", "mdpax.solvers.semi_async_value_iteration")
    key = z3.Const("key0", KEY)
    return Ctx(self=s, _args=[key], key=key, dims=dims, I=I)
def post_shuffle(c, q):
    idxs, states, mask = c.result; D, B, bs, pad = c.dims; PERMF = c.I.rand["PERMF"]
    d, b, j, k = z3.Ints("d!s b!s j!s k!s"); q.hyps += [d >= 0, d < D, b >= 0, b < B, j >= 0, j < bs, k >= 0, k < N]
    flat = (d * B + b) * bs + j
    return z3.And(toz3(idxs.shape[0]) == N, toz3(idxs.get((k,))) == PERMF(c.key, k),
                  states.vec((d, b, j)) == z3.If(flat < N, ST(PERMF(c.key, flat)), ZVEC),
                  toz3(mask.get((d, b, j))) == (flat >= N))
contract(f"{SA}._shuffle_states", setup=setup_shuffle, ensures={"permuted_layout_and_mask": post_shuffle})
def setup_reorder(I):
    s, Pb, dims, gamma = mk_solver(I, "SemiAsyncValueIteration", "mdpax.solvers.semi_async_value_iteration")
    key = z3.Const("key0", KEY); W = z3.Function("SHUFFLED_VALUES", I_, R_)
    idxs = SArr((N,), lambda idx: I.rand["PERMF"](key, toz3(idx[0])), tag=("perm", key))
    vals = SArr((N,), lambda idx: W(toz3(idx[0])))
    return Ctx(self=s, _args=[idxs, vals], key=key, W=W, I=I)
contract(f"{SA}._reorder_values", setup=setup_reorder,
    ensures={"value_of_state_i_comes_from_its_slot": lambda c, q: q.forall(0, N, lambda i: toz3(c.result.get((i,))) == c.W(c.I.rand["POSF"](c.key, i)))})

# ---------------- top level: _update_values in both modes (fixed order / shuffled), key threading, natural-order result
from contracts.batch_processing import prepare_returns
NEWS = z3.Function("NEW_sweep", I_, R_)          # ghost: value written at flat slot k in this sweep
def sweep_fns(c):
    """(perm, pos) of the current sweep as python functions on z3 ints"""
    if c["shuffle"]:
        sub = c.I.rand["K2"](c.key0); return (lambda k: c.I.rand["PERMF"](sub, k)), (lambda i: c.I.rand["POSF"](sub, i))
    return (lambda k: k), (lambda i: i)
def spec_carry_dev(c, V, dev0, b, pos):
    D, B, bs, pad = c.dims
    return SArr((N,), lambda idx: z3.If(z3.And(dev0 <= pos(toz3(idx[0])), pos(toz3(idx[0])) < dev0 + toz3(b) * bs), NEWS(pos(toz3(idx[0]))), toz3(V.get(idx))))
def device_returns(c):
    """contract of the per-device function as seen by _update_values (requires: layout of this device's slice)"""
    I = c["I_"]; ctx = I.ghost["sweep_ctx"]; D, B, bs, pad = ctx.dims
    perm, pos = sweep_fns(ctx)
    d = I.ghost["pmap_index"]; dev0 = toz3(d) * B * bs
    actions, events, gamma, V = c["carry"]; states, mask = c["batched_input"]
    return SArr((B, bs), lambda idx: Bell(spec_carry_dev(ctx, V, dev0, idx[0], pos), gamma, states.vec((idx[0], idx[1]))))
def device_requires(c, q):
    I = c["I_"]; ctx = I.ghost["sweep_ctx"]; D, B, bs, pad = ctx.dims
    perm, pos = sweep_fns(ctx)
    d = toz3(I.ghost["pmap_index"]); states, mask = c["batched_input"]
    b, j = z3.Ints("b!dr j!dr"); q.hyps += [b >= 0, b < B, j >= 0, j < bs]
    flat = (d * B + b) * bs + j
    return z3.And(states.vec((b, j)) == z3.If(flat < N, ST(perm(flat)), ZVEC), toz3(mask.get((b, j))) == (flat >= N))
def setup_update(shuffle):
    def setup(I):
        s, Pb, dims, gamma = mk_solver(I, "SemiAsyncValueIteration", "mdpax.solvers.semi_async_value_iteration")
        I.call(I.getattr(s, "_setup_jax_functions"), [], {})
        key0 = z3.Const("key_before", KEY)
        s.attrs.update({"key": key0, "batch_order": None, "config": Obj("cfg", {"shuffle_states": shuffle}, label="config")})
        V = SArr((N,), lambda idx: V0(toz3(idx[0])))
        c = Ctx(self=s, _args=[prepared(Pb, dims), Pb.action_space, Pb.event_space, gamma, V], dims=dims, gamma=gamma, shuffle=shuffle, key0=key0, I=I, V=V)
        I.ghost["sweep_ctx"] = c; REG_I[0] = I
        # the per-device function enters through its contract
        dc = contract(f"{SA}._calculate_updated_value_scan_state_batches", requires=lambda cc, q: device_requires(Ctx(cc, I_=I), q), returns=lambda cc: device_returns(Ctx(cc, I_=I)), ensures={}, setup=None)
        return c
    return setup
def post_update(c, q):
    D, B, bs, pad = c.dims; perm, pos = sweep_fns(c)
    i = z3.Int("i!uv"); q.hyps += [i >= 0, i < N]
    k = pos(i)
    # permutation facts (assumed contract) at the points used; digits of the slot of state i
    q.hyps += [z3.And(k >= 0, k < N), perm(k) == i]
    from pyvc.models import arrays as A
    d, b, j = A.unravel(k, (D, B, bs))
    want = Bell(spec_carry_dev(c, c.V, d * B * bs, b, pos), c.gamma, ST(i))
    return z3.And(toz3(c.result.shape[0]) == N, toz3(c.result.get((i,))) == want)
def post_key(c, q):
    k1 = c.I.rand["K1"](c.key0)
    return (c.self.attrs["key"] == k1) if c.shuffle else z3.BoolVal(c.self.attrs["key"] is c.key0)

def ret_shuffle(c):
    s = c["self"]; key = c["key"]; bp = s.attrs["batch_processor"]
    D, B, bs, pad = (bp.attrs[k] for k in ("n_devices", "n_batches", "batch_size", "n_pad"))
    I = REG_I[0]; PERMF = I.rand["PERMF"]
    idxs = SArr((N,), lambda idx: PERMF(key, toz3(idx[0])), tag=("perm", key))
    flat = lambda l: (toz3(l[0]) * B + toz3(l[1])) * bs + toz3(l[2])
    states = vec_array((D, B, bs, SD), lambda l: z3.If(flat(l) < N, ST(PERMF(key, flat(l))), ZVEC))
    mask = SArr((D, B, bs), lambda idx: flat(idx) >= N)
    return (idxs, states, mask)
def ret_reorder(c):
    idxs, vals = c["shuffled_state_idxs"], c["values"]; I = REG_I[0]
    key = idxs.tag[1]
    return SArr((N,), lambda idx: vals.get((I.rand["POSF"](key, toz3(idx[0])),)))
REG_I = [None]
REGISTRY[f"{SA}._shuffle_states"].returns = ret_shuffle
REGISTRY[f"{SA}._reorder_values"].returns = ret_reorder
