"""Contract for Problem.build_transition_and_reward_matrices (C17)."""
import z3
from pyvc.contract import contract, Ctx, LoopSpec
from pyvc.values import *
from pyvc import reduce as R
from pyvc.models import arrays as A
from contracts.spec_mdp import *

PB = "mdpax.core.problem.Problem.build_transition_and_reward_matrices"
def pterm(s, a, e): return PR(ST(s), AC(a), EV(e))
def nidx(s, a, e): return IDX(TRn(ST(s), AC(a), EV(e)))
def hit(s, a, e, t): return z3.If(nidx(s, a, e) == t, pterm(s, a, e), 0)
def PS(e, a, s, t): return R.mk("sum", e, lambda e1: hit(s, a, e1, t))
def setup(I):
    cls = I.load_module("mdpax.core.problem").globals["Problem"]
    stub = ProblemStub(I)
    o = Obj(cls, dict(stub.obj.attrs), label="problem")
    tol = z3.Real("tol"); I.assume(z3.And(tol >= 0, tol < 1))
    return Ctx(self=o, _args=[tol], tol=tol)
def havoc_e(I, env, c, k):
    env["P"] = SArr((NA, N, N), lambda idx, k=k: PS(k, toz3(idx[0]), toz3(idx[1]), toz3(idx[2])))
    return []
def check_e(c, env, k, q):
    a, s, t = z3.Ints("a!m s!m t!m"); q.hyps += [a >= 0, a < NA, s >= 0, s < N, t >= 0, t < N]
    if not z3.is_true(z3.simplify(toz3(k) == 0)):
        q.hyps.append(PS(k, a, s, t) == PS(k - 1, a, s, t) + hit(s, a, k - 1, t))          # one unrolling of the sum
    return {"P_is_partial_sum": toz3(env["P"].get((a, s, t))) == PS(k, a, s, t)}
def havoc_a(I, env, c, k):
    e = env["e"]
    env["P"] = SArr((NA, N, N), lambda idx, k=k, e=e: PS(e, toz3(idx[0]), toz3(idx[1]), toz3(idx[2])) +
                    z3.If(toz3(idx[0]) < toz3(k), hit(toz3(idx[1]), toz3(idx[0]), toz3(e), toz3(idx[2])), 0))
    return []
def check_a(c, env, k, q):
    e = env["e"]
    a, s, t = z3.Ints("a!m s!m t!m"); q.hyps += [a >= 0, a < NA, s >= 0, s < N, t >= 0, t < N]
    return {"P_partial_plus_done_actions": toz3(env["P"].get((a, s, t))) == PS(e, a, s, t) + z3.If(a < toz3(k), hit(s, a, toz3(e), t), 0)}
LoopSpec(PB, 0, havoc_e, check_e)
LoopSpec(PB, 1, havoc_a, check_a)
def rowsum(a, s): return R.mk("sum", N, lambda t: PS(NE, a, s, t))
def post_R(c, q):
    Pm, Rm = c.result
    s, a = z3.Ints("s!r a!r"); q.hyps += [s >= 0, s < N, a >= 0, a < NA]
    return toz3(Rm.get((s, a))) == R.mk("sum", NE, lambda e: pterm(s, a, e) * TRr(ST(s), AC(a), EV(e)))
def post_P(c, q):
    Pm, Rm = c.result
    a, s, t = z3.Ints("a!p s!p t!p"); q.hyps += [a >= 0, a < NA, s >= 0, s < N, t >= 0, t < N]
    rs = rowsum(a, s)
    return z3.And(toz3(Pm.get((a, s, t))) * z3.If(rs > 0, rs, 1) == PS(NE, a, s, t))
def absdev(a, s): return (lambda d: z3.If(d >= 0, d, -d))(rowsum(a, s) - 1)
def maxdev(): return R.mk("max", NA, lambda a: R.mk("max", N, lambda s: absdev(a, s)))
def when_error(c, q):
    """ValueError exactly when some row's event mass deviates from one by more than the tolerance, and the message names a pair attaining the largest deviation"""
    vals = c.I.fstrings[-1] if getattr(c.I, "fstrings", None) else []
    if len(vals) < 2: return z3.BoolVal(False)
    st, ac = toz3(vals[0]), toz3(vals[1])
    return z3.And(maxdev() > c.tol, st >= 0, st < N, ac >= 0, ac < NA)
def when_error_pair(c, q):
    """the (state, action) interpolated into the message attain the largest deviation: |rowsum(action, state) - 1| >= |rowsum(a, s) - 1| for every pair"""
    vals = c.I.fstrings[-1] if getattr(c.I, "fstrings", None) else []
    if len(vals) < 2: return z3.BoolVal(False)
    st, ac = toz3(vals[0]), toz3(vals[1])
    a, s_ = z3.Ints("a!ep s!ep"); q.hyps += [a >= 0, a < NA, s_ >= 0, s_ < N]
    # row-major digits (Lean ravel2_inj / ravel2_lt): the flat index of (a, s) in an (A, S) array is a*S + s, and div/mod recover the digits
    j = z3.Int("j!ep"); k = ac * N + st
    q.hyps += [j == a * N + s_, j / N == a, j % N == s_, k / N == ac, k % N == st, j >= 0, j < NA * N]
    # ghost lemma call: the defining property of the argmax node (its body at the argmax >= its body at j), instantiated at the flat index j of (a, s)
    am = [t for t in R.collect_deep(list(A.SIDE)).values() if R.entry_of(t).kind == "argmax"]
    q.hyps += R.instance_axioms(am, [j] + am, depth=0) + R.qf_facts(am)
    q.hyps += [z3.Implies(t == k, z3.And(t / N == ac, t % N == st)) for t in am]
    return absdev(ac, st) >= absdev(a, s_)
def post_accept(c, q):
    a, s = z3.Ints("a!acc s!acc"); q.hyps += [a >= 0, a < NA, s >= 0, s < N]
    return z3.And(maxdev() <= c.tol, absdev(a, s) <= maxdev())
def post_rows_one(c, q):
    """every returned row sums to one (tolerance < 1 makes every accepted row mass positive)"""
    Pm, Rm = c.result; a, s = z3.Ints("a!ro s!ro"); q.hyps += [a >= 0, a < NA, s >= 0, s < N]
    rs = rowsum(a, s)
    q.hyps += [absdev(a, s) <= maxdev(), maxdev() <= c.tol]              # post.accepted_only_within_tolerance (proved separately) instantiated at this row
    q.hyps.append(R.mk("sum", N, lambda t: PS(NE, a, s, t) / rs) == rs / rs)   # sum of c*f = c*sum f for the constant 1/rs (linearity, engine rule 3)
    return R.mk("sum", N, lambda t: toz3(Pm.get((a, s, t)))) == 1
contract(PB, setup=lambda I: (lambda c: (c.__setitem__("I", I), c)[1])(setup(I)), raises=[("ValueError", when_error, "only_when_some_row_deviates_by_more_than_the_tolerance"), ("ValueError", when_error_pair, "message_names_a_pair_attaining_the_largest_deviation")],
    # "the message names a pair attaining the largest deviation" (when_error_pair): jnp.argmax over the flattened (A,S) array is linked to the pair by
    # ghost lemma calls - the argmax node's defining property instantiated at the flat index of an arbitrary pair, row-major digits from Lean ravel2_*
    ensures={"R_expected_reward": post_R, "P_times_rowsum_is_event_mass": post_P, "accepted_only_within_tolerance": post_accept, "returned_rows_sum_to_one": post_rows_one,
             "shapes": lambda c, q: z3.And(*[toz3(x) == y for x, y in zip(c.result[0].shape, (NA, N, N))], *[toz3(x) == y for x, y in zip(c.result[1].shape, (N, NA))])})
