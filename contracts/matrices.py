"""Contract for Problem.build_transition_and_reward_matrices (C17)."""
import z3
from pyvc.contract import contract, Ctx, LoopSpec
from pyvc.values import *
from pyvc import reduce as R
from pyvc.models import arrays as A
from contracts.spec_mdp import *

PB = "mdpax.core.problem.Problem.build_transition_and_reward_matrices"
def pterm(s, a, e): return PR(ST(s), AC(a), EV(e))
def nidx(s, a, e): return IDX(TRn(ST(s), AC(a), EV(e)))
def hit(s, a, e, t): return z3.If(nidx(s, a, e) == t, pterm(s, a, e), 0)
def PS(e, a, s, t): return R.mk("sum", e, lambda e1: hit(s, a, e1, t))
def setup(I):
    cls = I.load_module("mdpax.core.problem").globals["Problem"]
    stub = ProblemStub(I)
    o = Obj(cls, dict(stub.obj.attrs), label="problem")
    tol = z3.Real("tol"); I.assume(z3.And(tol >= 0, tol < 1))
    return Ctx(self=o, _args=[tol], tol=tol)
def havoc_e(I, env, c, k):
    env["P"] = SArr((NA, N, N), lambda idx, k=k: PS(k, toz3(idx[0]), toz3(idx[1]), toz3(idx[2])))
    return []
def check_e(c, env, k, q):
    a, s, t = z3.Ints("a!m s!m t!m"); q.hyps += [a >= 0, a < NA, s >= 0, s < N, t >= 0, t < N]
    if not z3.is_true(z3.simplify(toz3(k) == 0)):
        q.hyps.append(PS(k, a, s, t) == PS(k - 1, a, s, t) + hit(s, a, k - 1, t))          # one unrolling of the sum
    return {"P_is_partial_sum": toz3(env["P"].get((a, s, t))) == PS(k, a, s, t)}
def havoc_a(I, env, c, k):
    e = env["e"]
    env["P"] = SArr((NA, N, N), lambda idx, k=k, e=e: PS(e, toz3(idx[0]), toz3(idx[1]), toz3(idx[2])) +
                    z3.If(toz3(idx[0]) < toz3(k), hit(toz3(idx[1]), toz3(idx[0]), toz3(e), toz3(idx[2])), 0))
    return []
def check_a(c, env, k, q):
    e = env["e"]
    a, s, t = z3.Ints("a!m s!m t!m"); q.hyps += [a >= 0, a < NA, s >= 0, s < N, t >= 0, t < N]
    return {"P_partial_plus_done_actions": toz3(env["P"].get((a, s, t))) == PS(e, a, s, t) + z3.If(a < toz3(k), hit(s, a, toz3(e), t), 0)}
LoopSpec(PB, 0, havoc_e, check_e)
LoopSpec(PB, 1, havoc_a, check_a)
def rowsum(a, s): return R.mk("sum", N, lambda t: PS(NE, a, s, t))
def post_R(c, q):
    Pm, Rm = c.result
    s, a = z3.Ints("s!r a!r"); q.hyps += [s >= 0, s < N, a >= 0, a < NA]
    return toz3(Rm.get((s, a))) == R.mk("sum", NE, lambda e: pterm(s, a, e) * TRr(ST(s), AC(a), EV(e)))
def post_P(c, q):
    Pm, Rm = c.result
    a, s, t = z3.Ints("a!p s!p t!p"); q.hyps += [a >= 0, a < NA, s >= 0, s < N, t >= 0, t < N]
    rs = rowsum(a, s)
    return z3.And(toz3(Pm.get((a, s, t))) * z3.If(rs > 0, rs, 1) == PS(NE, a, s, t))
contract(PB, setup=setup, raises=[("ValueError", None)],
    ensures={"R_expected_reward": post_R, "P_times_rowsum_is_event_mass": post_P,
             "shapes": lambda c, q: z3.And(*[toz3(x) == y for x, y in zip(c.result[0].shape, (NA, N, N))], *[toz3(x) == y for x, y in zip(c.result[1].shape, (N, NA))])})
