"""Contracts for utils/logging.py and the config validators (C20)."""
import z3
from pyvc.contract import contract, Ctx
from pyvc.values import *
from pyvc.interp import FormatSpec, EnumSym

def setup_fmt(I):
    eps = z3.Real("epsilon")
    return Ctx(self=None, _args=[eps], eps=eps)
contract("mdpax.utils.logging.get_convergence_format", setup=setup_fmt,
    requires=lambda c, q: c["epsilon"] > 0,
    raises=[],
    ensures={"is_spec": lambda c, q: z3.BoolVal(isinstance(c.result, FormatSpec)),
             "decimals_nonneg": lambda c, q: toz3(c.result.decimals) >= 0 if isinstance(c.result, FormatSpec) else z3.BoolVal(False),
             "decimals_capped": lambda c, q: toz3(c.result.decimals) <= 10 if isinstance(c.result, FormatSpec) else z3.BoolVal(False)})

VIC = "mdpax.solvers.value_iteration.ValueIterationConfig"
def setup_vic(I):
    cls = I.load_module("mdpax.solvers.value_iteration").globals["ValueIterationConfig"]
    g, e = z3.Real("gamma"), z3.Real("epsilon"); mb, cf, mc, vb = z3.Ints("max_batch_size checkpoint_frequency max_checkpoints verbose")
    ct = EnumSym("convergence_test", ["span", "max_diff"])
    o = Obj(cls, dict(_target_="t", problem=None, gamma=g, epsilon=e, max_batch_size=mb, jax_double_precision=True, verbose=vb, checkpoint_dir=None,
                      checkpoint_frequency=cf, max_checkpoints=mc, enable_async_checkpointing=True, convergence_test=ct), label="cfg")
    dom = z3.And(g >= 0, g <= 1, e > 0, mb > 0, cf >= 0, mc >= 0, vb >= 0, vb <= 4, z3.Or(ct.eq("span"), ct.eq("max_diff")))
    return Ctx(self=o, _args=[], dom=dom)
contract(f"{VIC}.__post_init__", setup=setup_vic,
    raises=[("ValueError", lambda c, q: z3.Not(c.dom))],
    ensures={"accepted_implies_domain": lambda c, q: c.dom})

SC = "mdpax.core.solver.Solver._setup_config"
def setup_cfg(route, double=True, stale=False):
    def setup(I):
        from contracts.spec_mdp import ProblemStub
        vimod = I.load_module("mdpax.solvers.value_iteration").globals
        cfgcls = vimod["ValueIterationConfig"]; cls = vimod["ValueIteration"]
        pcfg_cls = I.load_module("mdpax.problems.forest").globals["ForestConfig"]
        pcfg = Obj(pcfg_cls, dict(_target_="mdpax.problems.forest.Forest", S=z3.Int("S"), r1=4.0, r2=2.0, p=z3.Real("p")), label="problem_config")
        g, e = z3.Real("gamma"), z3.Real("epsilon")
        I.assume(z3.And(g >= 0, g <= 1, e > 0))
        # stale: the configuration object handed in already names ANOTHER problem (e.g. it was used for an earlier solver): the instance's own configuration must replace it
        other = Obj(pcfg_cls, dict(_target_="mdpax.problems.forest.Forest", S=z3.Int("S_other"), r1=4.0, r2=2.0, p=z3.Real("p_other")), label="other_problem_config")
        cfg = Obj(cfgcls, dict(_target_="t", problem=pcfg if route == "config_only" else (other if stale else None), gamma=g, epsilon=e, max_batch_size=z3.Int("mbs"), jax_double_precision=double,
                               verbose=2, checkpoint_dir=None, checkpoint_frequency=0, max_checkpoints=1, enable_async_checkpointing=True, convergence_test="span"), label="config")
        s = Obj(cls, {}, label="solver")
        P = ProblemStub(I); P.obj.attrs["config"] = pcfg
        calls = []
        def inst(c):          # assumed contract of hydra.utils.instantiate: builds _target_(**fields) -- here: the problem described by c
            calls.append(c); return P.obj
        I.ghost["instantiate"] = inst
        if route == "config_only": args = [None, cfg]
        else: args = [P.obj, cfg]
        I.ghost["jax_enable_x64"] = "as-before"          # the process-global flag before this constructor (possibly switched on by an earlier solver)
        return Ctx(self=s, _args=args, cfg=cfg, pcfg=pcfg, route=route, P=P, calls=calls, I=I, double=double)
    return setup
contract(SC, scenarios=[("instance.", setup_cfg("instance")), ("config_only.", setup_cfg("config_only")), ("instance_single_precision.", setup_cfg("instance", double=False)),
                        ("instance_with_config_naming_another_problem.", setup_cfg("instance", stale=True))],
    ensures={"problem_set": lambda c, q: z3.BoolVal(c.self.attrs.get("problem") is c.P.obj),
             "problem_config_captured": lambda c, q: z3.BoolVal(c.self.attrs["config"].attrs["problem"] is c.pcfg),
             "instantiated_from_embedded_config_iff_no_instance": lambda c, q: z3.BoolVal((c.calls == [c.pcfg]) if c.route == "config_only" else (c.calls == [])),
             "core_attributes": lambda c, q: z3.And(toz3(c.self.attrs["gamma"]) == toz3(c.cfg.attrs["gamma"]), toz3(c.self.attrs["epsilon"]) == toz3(c.cfg.attrs["epsilon"]),
                                                    toz3(c.self.attrs["max_batch_size"]) == toz3(c.cfg.attrs["max_batch_size"])),
             # 64-bit mode is process-global: it is switched on when double precision is requested and NEVER switched off (another solver may rely on it)
             "x64_enabled_when_requested_never_disabled": lambda c, q: z3.BoolVal((c.I.ghost.get("jax_enable_x64") is True) if c.double else (c.I.ghost.get("jax_enable_x64") == "as-before")),
             "verbosity_stored": lambda c, q: z3.BoolVal(c.self.attrs.get("verbose") == 2)})

# ---- _setup_convergence_testing (C08 threshold, C20 gamma boundary, format)
from pyvc.contract import REGISTRY
fmt = REGISTRY["mdpax.utils.logging.get_convergence_format"]
def _fmt_returns(c):
    d = z3.Int("decimals!ret")        # callers are told exactly what is proved about the body: SOME spec with 0 <= decimals <= 10
    return FormatSpec(z3.If(d < 0, 0, z3.If(d > 10, 10, d)))
fmt.returns = _fmt_returns
VISC = "mdpax.solvers.value_iteration.ValueIteration._setup_convergence_testing"
def setup_sct(test, dom):
    def setup(I):
        vimod = I.load_module("mdpax.solvers.value_iteration").globals
        g, e = z3.Real("gamma"), z3.Real("epsilon")
        # "full": exactly what the validator accepts (C20);  "pos": the discounted/undiscounted range the stopping rule is documented for (C08)
        I.assume(z3.And(g >= 0 if dom == "full" else g > 0, g <= 1, e > 0))
        cfg = Obj(vimod["ValueIterationConfig"], dict(convergence_test=test), label="config")
        s = Obj(vimod["ValueIteration"], {"config": cfg, "gamma": g, "epsilon": e}, label="solver")
        return Ctx(self=s, _args=[], g=g, e=e)
    return setup
contract(VISC, scenarios=[(f"{d}.{t}.", setup_sct(t, d)) for d in ("pos", "full") for t in ("span", "max_diff")],
    modifies={"_convergence_test_fn", "_convergence_desc", "conv_threshold", "convergence_format"},
    ensures={"threshold": lambda c, q: toz3(c.self.attrs["conv_threshold"]) == z3.If(c.g != 1, c.e * (1 - c.g) / c.g, c.e),
             "threshold_positive": lambda c, q: toz3(c.self.attrs["conv_threshold"]) > 0,
             "test_fn_matches_config": lambda c, q: z3.BoolVal(c.self.attrs["_convergence_test_fn"].qualname.endswith("_get_span" if c.self.attrs["config"].attrs["convergence_test"] == "span" else "_get_max_diff")),
             "format_set": lambda c, q: z3.BoolVal(isinstance(c.self.attrs.get("convergence_format"), FormatSpec)),
             "CANARY_threshold_is_eps": lambda c, q: toz3(c.self.attrs["conv_threshold"]) == c.e})

# ---- Solver.set_verbosity: integer 0..4 or one of the five level names (any case); anything else is rejected
SV = "mdpax.core.solver.Solver.set_verbosity"
def setup_sv(kind):
    def setup(I):
        vimod = I.load_module("mdpax.solvers.value_iteration").globals
        s = Obj(vimod["ValueIteration"], {}, label="solver")
        lvl = z3.Int("level") if kind == "int" else kind
        return Ctx(self=s, _args=[lvl], lvl=lvl, kind=kind)
    return setup
NAMES = {"ERROR": 0, "WARNING": 1, "INFO": 2, "DEBUG": 3, "TRACE": 4}
contract(SV, scenarios=[("int.", setup_sv("int"))] + [(f"str_{n}.", setup_sv(n)) for n in ("error", "Warning", "INFO", "debug", "TRACE", "loud")],
    raises=[("ValueError", lambda c, q: (z3.Or(c.lvl < 0, c.lvl > 4) if c.kind == "int" else z3.BoolVal(c.kind.upper() not in NAMES)))],
    ensures={"verbose_stored_as_0_to_4": lambda c, q: (z3.And(c.lvl >= 0, c.lvl <= 4, toz3(c.self.attrs["verbose"]) == c.lvl) if c.kind == "int" else z3.BoolVal(c.self.attrs["verbose"] == NAMES.get(c.kind.upper())))})
