"""Mirjalili: the random-event space is exactly the documented event set, each event once (C13 / C14 / C16).

documented set: (demand d, received-by-age r_0..r_{m-1}) with 0 <= d <= max_demand, 0 <= r_i <= max_order_quantity, sum r_i <= max_order_quantity.
The real constructor filters itertools.product rows with a boolean mask and pairs the survivors with the demands by np.repeat / reshape / hstack.
Assumed library contract (pyvc FILTER rule): boolean-mask row selection keeps exactly the rows whose mask is True, in their original order."""
import z3
from pyvc.contract import contract, Ctx
from pyvc.values import *
from pyvc.models import arrays as A

MJ = "mdpax.problems.perishable_inventory.mirjalili_platelet.MirjaliliPlateletPerishable"
def setup_m(m):
    def setup(I):
        cls = I.load_module("mdpax.problems.perishable_inventory.mirjalili_platelet").globals["MirjaliliPlateletPerishable"]
        Q, D = z3.Ints("max_order_quantity max_demand"); I.assume(z3.And(Q >= 1, D >= 0))
        return Ctx(self=Obj(cls, {"max_order_quantity": Q, "max_demand": D, "max_useful_life": m}, label="problem"), _args=[], Q=Q, D=D, m=m, I=I)
    return setup
def parts(c, k):
    """row k of the event space in terms of the ghost records: (u0, u1) = digits of k in (n, D+1); the received part is row SEL(u0) of the product, whose entries are the
    base-(Q+1) digits of SEL(u0)"""
    F = A.FILTERS[-1]; n = F["n"]; B = c.Q + 1
    u = A.unravel(k, (n, c.D + 1)); src = F["SEL"](toz3(u[0]))
    digs = A.unravel(src, tuple(B for _ in range(c.m))) if c.m > 1 else (src,)
    return F, n, u, src, digs
def post_rows(c, q):
    E = c.result; k = z3.Int("k!e"); q.hyps += [k >= 0, k < toz3(E.shape[0])]
    F, n, u, src, digs = parts(c, k)
    q.hyps.append(F["sel"](u[0]))                                   # FILTER contract: a kept row satisfies the mask
    row = [toz3(E.get((k, j))) for j in range(c.m + 1)]
    return z3.And(toz3(E.shape[1]) == c.m + 1, toz3(E.shape[0]) == n * (c.D + 1), row[0] >= 0, row[0] <= c.D, *[z3.And(x >= 0, x <= c.Q) for x in row[1:]], sum(row[2:], row[1]) <= c.Q)
def ravel_inj(B, xs, ys):
    """Lean Mdpax.Engine.ravel2_inj applied level by level: digit vectors below B with equal row-major value are equal (instantiated hypothesis)"""
    hyps = []; hx, hy = xs[0], ys[0]
    for x, y in zip(xs[1:], ys[1:]):
        hyps.append(z3.Implies(z3.And(hx * B + x == hy * B + y, x >= 0, x < B, y >= 0, y < B, hx >= 0, hy >= 0, B > 0), z3.And(hx == hy, x == y)))
        hx, hy = hx * B + x, hy * B + y
    return hyps
def post_distinct(c, q):
    E = c.result; k1, k2 = z3.Ints("k1!e k2!e"); q.hyps += [k1 >= 0, k1 < toz3(E.shape[0]), k2 >= 0, k2 < toz3(E.shape[0]), k1 < k2]
    F, n, u, s1, d1 = parts(c, k1); _, _, w, s2, d2 = parts(c, k2); B = c.Q + 1
    q.hyps += [F["sel"](u[0]), F["sel"](w[0]), F["mono"](u[0], w[0]), F["mono"](w[0], u[0])]
    if c.m > 1: q.hyps += [z3.Implies(z3.And(*[toz3(a) == toz3(b) for a, b in zip(d1, d2)]), s1 == s2)]      # equal digits, equal row-major value (congruence)
    return z3.Or(*[toz3(E.get((k1, j))) != toz3(E.get((k2, j))) for j in range(c.m + 1)])
def post_complete(c, q):
    E = c.result; d = z3.Int("d!e"); r = [z3.Int(f"r{i}!e") for i in range(c.m)]; B = c.Q + 1
    q.hyps += [d >= 0, d <= c.D, *[z3.And(x >= 0, x <= c.Q) for x in r], sum(r[1:], r[0]) <= c.Q]
    F = A.FILTERS[-1]; n = F["n"]
    i = A.ravel(r, tuple(B for _ in r)) if c.m > 1 else r[0]                   # row of the product holding r
    digs = A.unravel(i, tuple(B for _ in r)) if c.m > 1 else (i,)
    k = F["INV"](toz3(i)) * (c.D + 1) + d                                       # witness: where the event is listed
    u = A.unravel(k, (n, c.D + 1))
    T = F["T"]
    q.hyps += [F["onto"](i)]
    hd = A.unravel(F["SEL"](toz3(u[0])), tuple(B for _ in r)) if c.m > 1 else ()
    if c.m > 1: q.hyps += ravel_inj(B, [toz3(x) for x in digs], r) + ravel_inj(B, [toz3(x) for x in hd], r)
    # Lean Mdpax.Engine.ravel2_lt: a < m, i < n  =>  a*n + i < m*n   (row-major value below the product of the extents), level by level; then for the witness
    acc, bound = r[0], B
    for x in r[1:]:
        q.hyps.append(z3.Implies(z3.And(acc >= 0, acc < bound, x >= 0, x < B), z3.And(acc * B + x < bound * B, acc * B + x >= 0))); acc, bound = acc * B + x, bound * B
    q.hyps.append(toz3(T) == bound)                                             # proved as its own clause: candidate_rows_are_the_full_product
    q.hyps.append(z3.Implies(z3.And(F["INV"](toz3(i)) >= 0, F["INV"](toz3(i)) < n, d >= 0, d < c.D + 1), z3.And(k >= 0, k < n * (c.D + 1))))
    q.hyps += ravel_inj(c.D + 1, [toz3(u[0]), toz3(u[1])], [F["INV"](toz3(i)), d])
    return z3.And(k >= 0, k < toz3(E.shape[0]), toz3(E.get((k, 0))) == d, *[toz3(E.get((k, 1 + j))) == r[j] for j in range(c.m)])
def post_T(c, q):
    """the candidate rows filtered by the mask are ALL (Q+1)^m combinations of per-age quantities 0..Q"""
    F = A.FILTERS[-1]; bound = 1
    for _ in range(c.m): bound = bound * (c.Q + 1)
    return toz3(F["T"]) == bound
contract(f"{MJ}._construct_random_event_space", scenarios=[(f"m{m}.", setup_m(m)) for m in (1, 2, 3)],
    ensures={"candidate_rows_are_the_full_product": post_T, "every_row_is_a_documented_event": post_rows, "no_event_is_listed_twice": post_distinct, "every_documented_event_is_listed": post_complete})
