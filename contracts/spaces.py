"""Contracts for mdpax/utils/spaces.py (C19)."""
import z3
from pyvc.contract import contract, Ctx
from pyvc.values import *
from pyvc.models import arrays as A

T = "mdpax.utils.spaces.create_range_space"
def setup_dim(d):
    def setup(I):
        mins = [z3.Int(f"min{k}") for k in range(d)]; maxs = [z3.Int(f"max{k}") for k in range(d)]
        for a, b in zip(mins, maxs): I.assume(a <= b)
        return Ctx(self=None, _args=[arr_from_list(mins), arr_from_list(maxs)], mins=mins, maxs=maxs, d=d, I=I)
    return setup
def dims(c): return [b - a + 1 for a, b in zip(c.mins, c.maxs)]
def post_rows(c, q):
    space, index_fn = c.result
    return z3.And(space.ndim == 2, toz3(space.shape[0]) == A.prod(dims(c)), toz3(space.shape[1]) == c.d)
def post_enumerates(c, q):
    space, index_fn = c.result
    i = z3.Int("row!s"); q.hyps += [i >= 0, i < A.prod(dims(c))]
    digits = A.unravel(i, tuple(dims(c)))
    return z3.And(*[toz3(space.get((i, k))) == c.mins[k] + digits[k] for k in range(c.d)])
def post_index_inverts(c, q):
    space, index_fn = c.result
    i = z3.Int("row!s"); q.hyps += [i >= 0, i < A.prod(dims(c))]
    row = A.arr_subscript(space, (i,))
    return toz3(c.I.call(index_fn, [row], {})) == i
def post_clip_total(c, q):
    space, index_fn = c.result
    v = [z3.Int(f"v{k}") for k in range(c.d)]
    near = [z3.If(x < lo, lo, z3.If(x > hi, hi, x)) for x, lo, hi in zip(v, c.mins, c.maxs)]
    iv = toz3(c.I.call(index_fn, [arr_from_list(v)], {})); inear = toz3(c.I.call(index_fn, [arr_from_list(near)], {}))
    return z3.And(iv >= 0, iv < A.prod(dims(c)), iv == inear)
contract(T, scenarios=[(f"d{d}.", setup_dim(d)) for d in (1, 2, 3, 4)],
         ensures={"rows": post_rows, "enumerates": post_enumerates, "index_inverts": post_index_inverts, "clip_total": post_clip_total})
