"""Specification vocabulary: abstract Problem (WF contract) and Bellman spec functions."""
import z3
from pyvc.values import *
from pyvc import reduce as R
from pyvc.models import arrays as A

I_, R_ = z3.IntSort(), z3.RealSort()
TRn = z3.Function("next", VEC, VEC, VEC, VEC)
TRr = z3.Function("reward", VEC, VEC, VEC, R_)
PR = z3.Function("prob", VEC, VEC, VEC, R_)
IDX = z3.Function("idx", VEC, I_)
INITV = z3.Function("initial_value", VEC, R_)
ST = z3.Function("S", I_, VEC); AC = z3.Function("A", I_, VEC); EV = z3.Function("Ev", I_, VEC)
N, NA, NE, SD, AD, ED = z3.Ints("N nA nE state_dim action_dim event_dim")
OOB = z3.Function("oob_read", I_, R_)        # value of an out-of-range read (unconstrained)

def rowvec(term, dim):
    """1-D vector value backed by an opaque Vec term"""
    return SArr((dim,), lambda idx, term=term: COMP(term, toz3(idx[0])), vec=lambda lidx, term=term: term)

class ProblemStub:
    """abstract Problem satisfying WF-shape; everything else uninterpreted"""
    def __init__(self, I):
        self.I = I
        for s in (N, NA, NE, SD, AD, ED): I.assume(s >= 1)
        B = Builtin
        self.state_space = vec_array((N, SD), lambda l: ST(toz3(l[0])), name="state_space")
        self.action_space = vec_array((NA, AD), lambda l: AC(toz3(l[0])), name="action_space")
        self.event_space = vec_array((NE, ED), lambda l: EV(toz3(l[0])), name="random_event_space")
        self.obj = Obj("ProblemStub", {
            "state_space": self.state_space, "action_space": self.action_space, "random_event_space": self.event_space,
            "n_states": N, "n_actions": NA, "n_random_events": NE, "name": "stub",
            "transition": B(lambda s, a, e: (rowvec(TRn(as_vec(s), as_vec(a), as_vec(e)), SD), TRr(as_vec(s), as_vec(a), as_vec(e))), "transition"),
            "random_event_probability": B(lambda s, a, e: PR(as_vec(s), as_vec(a), as_vec(e)), "prob"),
            "state_to_index": B(lambda s: IDX(as_vec(s)), "idx"),
            "initial_value": B(lambda s: INITV(as_vec(s)), "initial_value"),
        }, label="problem")

def read(V, i):
    """V[i] for a 1-D lazy array"""
    return V.get((i,))

def Q(V, gamma, svec, avec):
    return R.mk("sum", NE, lambda e: (TRr(svec, avec, EV(e)) + toz3(gamma) * toz3(read(V, IDX(TRn(svec, avec, EV(e)))))) * PR(svec, avec, EV(e)))
def Bell(V, gamma, svec):
    return R.mk("max", NA, lambda a: Q(V, gamma, svec, AC(a)))
def Greedy(V, gamma, svec):
    return R.mk("argmax", NA, lambda a: Q(V, gamma, svec, AC(a)))
