"""C03 as a relational (2-safety) obligation proved by self-composition: the same kernel executed on two solvers that share the abstract
problem, discount factor and value vector but have DIFFERENT batch processors (devices D/D', batches B/B', batch size bs/bs', padding)
returns pointwise equal arrays of length N.  The real bodies of both executions are symbolically executed."""
import z3
from pyvc.contract import contract, Ctx
from pyvc.values import *
from pyvc.models import arrays as A
from contracts.spec_mdp import *
from contracts.batch_processing import bp_inv
from contracts.value_iteration import VI, values_arr, prepared, VFUN
import contracts.vi_solve, contracts.pi, contracts.rvi
from contracts.pi import PI, policy_arr
SOLV = "mdpax.core.solver.Solver"

def two_solvers(I, cls_name, module):
    P = ProblemStub(I); cls = I.load_module(module).globals[cls_name]
    bpcls = I.load_module("mdpax.utils.batch_processing").globals["BatchProcessor"]
    gamma = z3.Real("gamma"); out = []
    for tag in ("", "'"):
        D, B, bs, pad = z3.Ints(f"D{tag} B{tag} bs{tag} n_pad{tag}")
        bp = Obj(bpcls, dict(n_devices=D, n_batches=B, batch_size=bs, n_states=N, n_pad=pad, state_dim=SD), label="bp" + tag)
        I.assume(bp_inv(bp))
        s = Obj(cls, {"problem": P.obj, "batch_processor": bp, "gamma": gamma}, label="solver" + tag)
        I.call(I.getattr(s, "_setup_jax_functions"), [], {})
        s.attrs["batched_states"] = prepared(P, (D, B, bs, pad)); s.attrs["values"] = values_arr()
        out.append((s, (D, B, bs, pad)))
    return P, gamma, out
def same_arrays(r1, r2, q, vec=False):
    if not (isinstance(r1, SArr) and isinstance(r2, SArr)) or r1.ndim != r2.ndim: return z3.BoolVal(False)
    i = z3.Int("s!rel"); q.hyps += [i >= 0, i < N]
    shape = z3.And(toz3(r1.shape[0]) == N, toz3(r2.shape[0]) == N)
    if vec: return z3.And(shape, r1.vec((i,)) == r2.vec((i,)))
    return z3.And(shape, toz3(r1.get((i,))) == toz3(r2.get((i,))))
def rel(target, cls_name, module, args_of, call_name, vec=False):
    def setup(I):
        P, gamma, ((s1, d1), (s2, d2)) = two_solvers(I, cls_name, module)
        return Ctx(self=s1, _args=args_of(P, gamma, s1), other=s2, other_args=args_of(P, gamma, s2), I=I, gamma=gamma)
    def post(c, q):
        r2 = c.I.call(c.I.getattr(c.other, call_name), c.other_args, {})
        return same_arrays(c.result, r2, q, vec)
    def canary(c, q):      # a wrong relational claim (results shifted by one state) must be refuted
        r2 = c.I.call(c.I.getattr(c.other, call_name), c.other_args, {}); i = z3.Int("s!relc"); q.hyps += [i >= 0, i < N - 1]
        return (c.result.vec((i,)) == r2.vec((i + 1,))) if vec else (toz3(c.result.get((i,))) == toz3(r2.get((i + 1,))))
    contract(target, setup=setup, ensures={"same_result_for_every_batch_size_device_count_and_padding": post, "CANARY_shifted": canary})
rel(f"{VI}._update_values", "ValueIteration", "mdpax.solvers.value_iteration",
    lambda P, g, s: [s.attrs["batched_states"], P.action_space, P.event_space, g, values_arr()], "_update_values")
rel(f"{VI}._extract_policy", "ValueIteration", "mdpax.solvers.value_iteration", lambda P, g, s: [], "_extract_policy", vec=True)
rel(f"{SOLV}._initialize_values", "ValueIteration", "mdpax.solvers.value_iteration", lambda P, g, s: [s.attrs["batched_states"]], "_initialize_values")
rel(f"{PI}._calculate_policy_values", "PolicyIteration", "mdpax.solvers.policy_iteration", lambda P, g, s: [policy_arr(), values_arr()], "_calculate_policy_values")
