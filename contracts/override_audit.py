"""Behavioural-subtyping premise of modular verification: a contract stated on a base-class method is applied wherever `self.method(...)` is called,
so every OVERRIDE of a contracted method must itself be a verification unit (otherwise what runs is not what was proved).
Script-type unit, backend label frame-analysis(AST).  An unverified override is NEEDS-CONTRACT (undecided -> the bounded harness decides), not a violation."""
import ast, os, sys, json, time
ROOT = os.path.dirname(os.path.dirname(os.path.abspath(__file__))); sys.path.insert(0, ROOT)
SRC = os.environ.get("MDPAX_SRC", "/repo/src") + "/mdpax"
import props
verified = set()
for P in props.PROPS.values():
    for u in P.get("units", []):
        if u.get("target") and "." in u["target"]: verified.add(u["target"])
classes = {}          # qualified class name -> (module, ClassDef, [base names])
for dp, _, fs in os.walk(SRC):
    for f in sorted(fs):
        if not f.endswith(".py"): continue
        path = os.path.join(dp, f); mod = "mdpax." + os.path.relpath(path, SRC)[:-3].replace("/", ".")
        if mod.endswith(".__init__"): mod = mod[:-9]
        for n in ast.parse(open(path).read()).body:
            if isinstance(n, ast.ClassDef): classes[n.name] = (mod, n, [ast.unparse(b).split(".")[-1] for b in n.bases])
def bases(c, seen=()):
    out = []
    for b in classes.get(c, (None, None, []))[2]:
        if b in classes and b not in seen: out.append(b); out += bases(b, seen + (c,))
    return out
def methods(c): return {n.name: n for n in classes[c][1].body if isinstance(n, (ast.FunctionDef, ast.AsyncFunctionDef))}
def trivial(fn):
    body = [s for s in fn.body if not (isinstance(s, ast.Expr) and isinstance(s.value, ast.Constant))]
    return all(isinstance(s, ast.Pass) or (isinstance(s, ast.Raise)) for s in body)
results = []; t0 = time.time(); per_mod = {}
for c in classes:
    mod = classes[c][0]
    for m, fn in methods(c).items():
        for b in bases(c):
            bm = methods(b).get(m)
            if bm is None or trivial(bm): continue
            # covered per class by other means: the whole-constructor units run the real _setup_jax_functions of each class; solver_state / _restore_state_from_checkpoint
            # are analysed per class by contracts/frame_static.py and the load_checkpoint units
            if m in ("_setup_jax_functions", "solver_state", "_restore_state_from_checkpoint"): break
            # a base method that is itself a unit is applied through its contract; one that is not may be INLINED into a proof made for the base class - either way
            # an override that is not a unit of its own means that what runs for the subclass is not what was proved
            if f"{mod}.{c}.{m}" not in verified:
                per_mod.setdefault(mod, []).append(f"{c}.{m} overrides {b}.{m}" + (" (which is under contract)" if f"{classes[b][0]}.{b}.{m}" in verified else " (which proofs for the base class execute)") + " and is not a verification unit")
            break
for mod in sorted({v[0] for v in classes.values()}):
    bad = per_mod.get(mod, [])
    results.append({"name": f"{mod}.overrides.every_override_of_a_contracted_method_is_under_contract", "path": "static", "status": "proved" if not bad else "unknown", "backend": "frame-analysis(AST)", "secs": 0.0, "lemmas": 0,
                    "detail": ("NEEDS-CONTRACT: " + "; ".join(bad)) if bad else "", "model": None, "canary": False, "guard": False, "known_finding": None, "smt2": None, "meta": {"needs_contract": True} if bad else {}})
rep = {"target": "override_audit", "unit": "override_audit", "results": results, "error": None, "paths": len(results), "pruned": 0,
       "function": {"name": "override audit over every class of the package", "lines": [0, 0], "sha256": ""}, "wall_s": round(time.time() - t0, 3)}
sys.stdout.write("\n@@REPORT@@" + json.dumps(rep) + "\n")
