"""C20 'accepted parameters yield a working solver': the WHOLE constructor of each solver (all six phases of Solver.__init__, the config
dataclass built from the class body and validated, verbosity mapping, BatchProcessor arithmetic, pmap installation, threshold, format
spec, initial values, checkpointing set-up) is symbolically executed on an abstract problem with symbolic gamma, epsilon, batch size
and device count.  Every path must reach the normal return (no unexpected exception) and establish the solver invariant."""
import z3
from pyvc.contract import contract, Ctx
from pyvc.values import *
from contracts.spec_mdp import *

def mk(module, cls_name, extra_kw, gamma_dom):
    target = f"{module}.{cls_name}.__init__"
    def setup(I):
        stub = ProblemStub(I)
        pcls = I.load_module("mdpax.core.problem").globals["Problem"]
        prob = Obj(pcls, dict(stub.obj.attrs), label="problem")
        cls = I.load_module(module).globals[cls_name]
        g, e = z3.Real("gamma"), z3.Real("epsilon"); mbs = z3.Int("max_batch_size"); Dev = z3.Int("jax_device_count")
        I.env_device_count = Dev
        I.assume(z3.And(gamma_dom(g), e > 0, mbs >= 1, Dev >= 1))
        kw = dict(epsilon=e, max_batch_size=mbs, verbose=0); kw.update(extra_kw(I))
        if cls_name != "RelativeValueIteration": kw["gamma"] = g
        return Ctx(self=Obj(cls, {}, label="solver"), _args=[prob], _kwargs=kw, g=g, e=e, I=I)
    def inv(c, q):
        s = c.self; x = z3.Int("s!ci"); q.hyps += [x >= 0, x < N]
        v = s.attrs.get("values")
        ok = isinstance(v, SArr) and v.ndim == 1
        if not ok: return z3.BoolVal(False)
        return z3.And(toz3(v.shape[0]) == N, toz3(v.get((x,))) == INITV(ST(x)), toz3(s.attrs["iteration"]) == 0, toz3(s.attrs["conv_threshold"]) > 0,
                      z3.BoolVal(s.attrs.get("checkpoint_manager") is None))
    contract(target, setup=setup, ensures={"constructed_values_initial_iteration_zero_threshold_positive": inv})
    return target
POS = lambda g: z3.And(g > 0, g <= 1)          # gamma = 0 is the recorded known finding C20-gamma-zero-overflow (reported by the threshold unit)
TARGETS = [
    mk("mdpax.solvers.value_iteration", "ValueIteration", lambda I: {}, POS),
    mk("mdpax.solvers.relative_value_iteration", "RelativeValueIteration", lambda I: {}, POS),
    mk("mdpax.solvers.periodic_value_iteration", "PeriodicValueIteration", lambda I: {"period": 2}, POS),
    mk("mdpax.solvers.semi_async_value_iteration", "SemiAsyncValueIteration", lambda I: {"random_seed": z3.Int("seed")}, POS),
    mk("mdpax.solvers.policy_iteration", "PolicyIteration", lambda I: (lambda m: (I.assume(m >= 1), {"max_eval_iter": m})[1])(z3.Int("max_eval_iter")), POS),
]
