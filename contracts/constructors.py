"""C20 'accepted parameters yield a working solver': the WHOLE constructor of each solver (all six phases of Solver.__init__, the config
dataclass built from the class body and validated, verbosity mapping, BatchProcessor arithmetic, pmap installation, threshold, format
spec, initial values, checkpointing set-up) is symbolically executed on an abstract problem with symbolic gamma, epsilon, batch size
and device count.  Every path must reach the normal return (no unexpected exception) and establish the solver invariant."""
import z3
from pyvc.contract import contract, Ctx
from pyvc.values import *
from contracts.spec_mdp import *

def mk(module, cls_name, extra_kw, gamma_dom):
    target = f"{module}.{cls_name}.__init__"
    def setup_route(route):
        return lambda I: setup(I, route)
    def setup(I, route="kwargs"):
        stub = ProblemStub(I)
        pcls = I.load_module("mdpax.core.problem").globals["Problem"]
        prob = Obj(pcls, dict(stub.obj.attrs), label="problem")
        cls = I.load_module(module).globals[cls_name]
        g, e = z3.Real("gamma"), z3.Real("epsilon"); mbs = z3.Int("max_batch_size"); Dev = z3.Int("jax_device_count")
        I.env_device_count = Dev
        I.assume(z3.And(gamma_dom(g), e > 0, mbs >= 1, Dev >= 1))
        kw = dict(epsilon=e, max_batch_size=mbs, verbose=0); kw.update(extra_kw(I))
        if cls_name != "RelativeValueIteration": kw["gamma"] = g
        if route == "config_only":
            # second construction route: a configuration object alone (solver configuration embedding the problem configuration); the REAL config
            # dataclass is built and validated by the interpreter, hydra's instantiate (assumed contract) returns the problem the embedded config describes
            pcfg_cls = I.load_module("mdpax.problems.forest").globals["ForestConfig"]
            pcfg = Obj(pcfg_cls, dict(_target_="mdpax.problems.forest.Forest", S=z3.Int("S"), r1=4.0, r2=2.0, p=z3.Real("p")), label="problem_config")
            prob.attrs["config"] = pcfg
            calls = []
            I.ghost["instantiate"] = lambda c_: (calls.append(c_), prob)[1]
            cfg = I.call(I.getattr(Obj(cls, {}, label="probe"), "Config"), [], dict(kw, problem=pcfg))
            return Ctx(self=Obj(cls, {}, label="solver"), _args=[], _kwargs={"config": cfg}, g=g, e=e, I=I, calls=calls, pcfg=pcfg, route=route, prob=prob, kw=kw)
        return Ctx(self=Obj(cls, {}, label="solver"), _args=[prob], _kwargs=kw, g=g, e=e, I=I, route=route, prob=prob, kw=kw)
    def inv(c, q):
        s = c.self; x = z3.Int("s!ci"); q.hyps += [x >= 0, x < N]
        v = s.attrs.get("values")
        ok = isinstance(v, SArr) and v.ndim == 1
        if not ok: return z3.BoolVal(False)
        return z3.And(toz3(v.shape[0]) == N, toz3(v.get((x,))) == INITV(ST(x)), toz3(s.attrs["iteration"]) == 0, toz3(s.attrs["conv_threshold"]) > 0,
                      z3.BoolVal(s.attrs.get("checkpoint_manager") is None))
    def same_parameters(c, q):
        """whatever the route, the solver's core attributes are the given parameters and its problem is the given / described problem (so both routes build the same solver)"""
        s_ = c.self; a = s_.attrs
        ok = [z3.BoolVal(a.get("problem") is c.prob), toz3(a["epsilon"]) == c.e, toz3(a["max_batch_size"]) == toz3(c.kw["max_batch_size"])]
        if "gamma" in c.kw: ok.append(toz3(a["gamma"].get(()) if isinstance(a["gamma"], SArr) else a["gamma"]) == c.g)
        for k_, v_ in c.kw.items():
            if k_ in ("epsilon", "max_batch_size", "gamma", "verbose"): continue
            got = a["config"].attrs.get(k_)
            ok.append(toz3(got) == toz3(v_) if (is_z3(v_) or isinstance(v_, (int, float))) and not isinstance(v_, bool) else z3.BoolVal(got == v_))
        if c.route == "config_only": ok.append(z3.BoolVal(c.calls == [c.pcfg]))
        # attributes derived from the parameters at construction time
        if "random_seed" in c.kw: ok.append(a["key"] == c.I.rand["KEY0"](toz3(c.kw["random_seed"])))
        if "period" in c.kw: ok.append(toz3(a["period"]) == toz3(c.kw["period"]))
        if "max_eval_iter" in c.kw: ok.append(toz3(a["config"].attrs["max_eval_iter"]) == toz3(c.kw["max_eval_iter"]))
        return z3.And(*ok)
    contract(target, scenarios=[("", setup_route("kwargs")), ("config_only.", setup_route("config_only"))],
             ensures={"constructed_values_initial_iteration_zero_threshold_positive": inv, "core_attributes_are_the_given_parameters_on_this_route": same_parameters})
    return target
POS = lambda g: z3.And(g > 0, g <= 1)          # gamma = 0 is the recorded known finding C20-gamma-zero-overflow (reported by the threshold unit)
TARGETS = [
    mk("mdpax.solvers.value_iteration", "ValueIteration", lambda I: {}, POS),
    mk("mdpax.solvers.relative_value_iteration", "RelativeValueIteration", lambda I: {}, POS),
    mk("mdpax.solvers.periodic_value_iteration", "PeriodicValueIteration", lambda I: {"period": 2}, POS),
    mk("mdpax.solvers.semi_async_value_iteration", "SemiAsyncValueIteration", lambda I: {"random_seed": z3.Int("seed")}, POS),
    mk("mdpax.solvers.policy_iteration", "PolicyIteration", lambda I: (lambda m: (I.assume(m >= 1), {"max_eval_iter": m})[1])(z3.Int("max_eval_iter")), POS),
]
