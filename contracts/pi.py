"""Contracts for policy iteration kernels (C05)."""
import z3
from pyvc.contract import contract, Ctx, LoopSpec
from pyvc.values import *
from pyvc import reduce as R
from contracts.spec_mdp import *
from contracts.value_iteration import mk_solver, prepared, VFUN, values_arr
from contracts.vi_solve import span_of, policy_of

PI = "mdpax.solvers.policy_iteration.PolicyIteration"
POL = z3.Function("POL", I_, VEC)
def policy_arr(): return vec_array((N, AD), lambda l: POL(toz3(l[0])), name="policy")
def mk_pi(I):
    s, Pb, dims, gamma = mk_solver(I, "PolicyIteration", "mdpax.solvers.policy_iteration")
    return s, Pb, dims, gamma
def setup_pvb(I):
    s, Pb, dims, gamma = mk_pi(I); D, B, bs, pad = dims
    BV = z3.Function("batchrow", I_, VEC); batch = vec_array((bs, SD), lambda l: BV(toz3(l[0])))
    carry = (Pb.action_space, Pb.event_space, gamma, values_arr(), policy_arr())
    return Ctx(self=s, _args=[carry, batch], BV=BV, bs=bs, gamma=gamma, V=values_arr())
contract(f"{PI}._calculate_policy_value_state_batch", setup=setup_pvb,
    ensures={"rows_use_own_policy_action": lambda c, q: q.forall(0, c.bs, lambda j:
                 toz3(c.result[1].get((j,))) == Q(c.V, c.gamma, c.BV(j), POL(IDX(c.BV(j)))))})

def setup_istep(I):
    s, Pb, dims, gamma = mk_pi(I)
    W = z3.Function("EVALUATED", I_, R_); ev = SArr((N,), lambda idx: W(toz3(idx[0])))
    s.attrs.update({"policy": policy_arr(), "values": values_arr()})
    s.attrs["_evaluate_policy"] = Builtin(lambda pol: ev, "evaluate")          # verified separately
    s.attrs["_extract_policy"] = Builtin(lambda: policy_of(s.attrs["values"], gamma), "extract")   # contract result of _extract_policy
    return Ctx(self=s, _args=[], gamma=gamma, ev=ev)
def post_changed(c, q):
    newp, n_changed = c.result
    spec = R.mk("count", N, lambda s: R.mk("any", AD, lambda k: COMP(AC(Greedy(c.ev, c.gamma, ST(s))), k) != COMP(POL(s), k)))
    return toz3(n_changed) == spec
contract(f"{PI}._iteration_step", setup=setup_istep,
    ensures={"values_assigned": lambda c, q: q.forall(0, N, lambda x: toz3(c.self.attrs["values"].get((x,))) == toz3(c.ev.get((x,)))),
             "new_policy_greedy": lambda c, q: q.forall(0, N, lambda x: c.result[0].vec((x,)) == AC(Greedy(c.ev, c.gamma, ST(x)))),
             "n_changed_counts_any_component": post_changed,
             "zero_iff_all_components_equal": lambda c, q: (toz3(c.result[1]) == 0) ==
                    R.mk("all", N, lambda s: R.mk("all", AD, lambda k: COMP(AC(Greedy(c.ev, c.gamma, ST(s))), k) == COMP(POL(s), k)))})

# ---------------- _calculate_policy_values (whole array) and _evaluate_policy (loop)
from pyvc.interp import FormatSpec
from contracts.vi_solve import maxdiff_of
def Bpi(V, gamma, pol):                       # policy backup as an array: s -> Q(V)(s, pol[s])
    return SArr((N,), lambda idx: Q(V, gamma, ST(toz3(idx[0])), pol.vec((idx[0],))))
def ret_pvb(c):
    actions, events, gamma, values, policy = c["carry"]; sb = c["state_batch"]
    return (c["carry"], SArr((sb.shape[0],), lambda idx: Q(values, gamma, sb.vec((idx[0],)), policy.vec((IDX(sb.vec((idx[0],))),))))) 
from pyvc.contract import REGISTRY
REGISTRY[f"{PI}._calculate_policy_value_state_batch"].returns = ret_pvb
def setup_pv(I):
    s, Pb, dims, gamma = mk_pi(I)
    I.call(I.getattr(s, "_setup_jax_functions"), [], {})
    s.attrs["batched_states"] = prepared(Pb, dims)
    return Ctx(self=s, _args=[policy_arr(), values_arr()], gamma=gamma, V=values_arr())
def post_pv(c, q):
    x = z3.Int("s!pv"); q.hyps += [x >= 0, x < N, IDX(ST(x)) == x]          # WF-index instance
    return z3.And(c.result.ndim == 1, toz3(c.result.shape[0]) == N, toz3(c.result.get((x,))) == Q(c.V, c.gamma, ST(x), POL(x)))
contract(f"{PI}._calculate_policy_values", setup=setup_pv,
    returns=lambda c: Bpi(c["values"], c["self"].attrs["gamma"], c["policy"]),
    ensures={"policy_backup_of_every_state": post_pv})

EVF = z3.Function("EVAL", I_, I_, R_)         # k-th evaluation iterate
class ETraj:
    def __init__(self, gamma, pol, test): self.gamma, self.pol, self.test = gamma, pol, test; self.points = []
    def opaque(self, k): return SArr((N,), lambda idx, k=k: EVF(toz3(k), toz3(idx[0])))
    def step_from(self, p): return Bpi(self.opaque(p), self.gamma, self.pol)
    def val(self, k):
        for p in self.points:
            if z3.is_true(z3.simplify(toz3(k) == toz3(p) + 1)): return self.step_from(p)
        return self.opaque(k)
    def residual_measure(self, p):
        new, old = self.step_from(p), self.opaque(p)
        f = lambda i: toz3(new.get((i,))) - toz3(old.get((i,)))
        return span_of(f, N) if self.test == "span" else maxdiff_of(f, N)
def setup_eval(test, reset):
    def setup(I):
        s, Pb, dims, gamma = mk_pi(I)
        cfg = Obj("cfg", {"max_eval_iter": z3.Int("max_eval_iter"), "reset_values_for_each_policy_eval": reset}, label="config")
        I.assume(cfg.attrs["max_eval_iter"] >= 1)
        pol = policy_arr(); tr = ETraj(gamma, pol, test)
        start = tr.opaque(0)
        thr = z3.Real("conv_threshold"); dec = z3.Int("decimals"); I.assume(dec >= 0)
        s.attrs.update({"config": cfg, "values": start if not reset else SArr((N,), lambda idx: z3.Real("junk")), "initial_values": start if reset else None,
                        "conv_threshold": thr, "verbose": 0, "_convergence_desc": test, "convergence_format": FormatSpec(dec),
                        "_convergence_test_fn": I.getattr(s, "_get_span" if test == "span" else "_get_max_diff")})
        return Ctx(self=s, _args=[pol], gamma=gamma, traj=tr, thr=thr, maxe=cfg.attrs["max_eval_iter"], last_k=[None])
    return setup
def havoc_e(I, env, c, k):
    env["values"] = c.traj.opaque(k); c.traj.points.append(k); c.last_k[0] = k
    return []
def check_e(c, env, k, q):
    return {"values_is_kth_iterate": q.forall(0, N, lambda x: toz3(env["values"].get((x,))) == toz3(c.traj.val(k).get((x,))))}
LoopSpec(f"{PI}._evaluate_policy", 0, havoc_e, check_e, modifies={"values", "new_values", "conv"})
def post_eval(c, q):
    """returned array is the iterate EVAL(K): K = the trip at which the loop broke (pre-update iterate) or max_eval_iter"""
    K = c.last_k[0]
    return q.forall(0, N, lambda x: toz3(c.result.get((x,))) == EVF(toz3(K), x))
def post_eval_residual(c, q):
    """if the loop left by `break`, the returned iterate v satisfies measure(Bπ v − v) < threshold (what Lean eval_bound needs)"""
    K = c.last_k[0]
    return z3.Or(toz3(K) == c.maxe, c.traj.residual_measure(K) < c.thr)
contract(f"{PI}._evaluate_policy",
    scenarios=[(f"{t}.{'reset' if r else 'carry'}.", setup_eval(t, r)) for t in ("span", "max_diff") for r in (False, True)],
    ensures={"returns_an_iterate_from_the_documented_start": post_eval, "break_means_small_residual": post_eval_residual})

# ---------------- initial policy, solver-state initialisation, solve loop (C05 / C08 / C01 for policy iteration)
from pyvc.interp import EXC
from contracts.vi_solve import Greedy
INITP = z3.Function("initial_policy", VEC, VEC)
def with_initial_policy(Pb, has):
    Pb.obj.attrs["__has_initial_policy"] = has
    if has: Pb.obj.attrs["initial_policy"] = Builtin(lambda s: rowvec(INITP(as_vec(s)), AD), "initial_policy")
    else:
        def raising(s): raise PyRaise(EXC["NotImplementedError"], "No custom initial policy defined")
        Pb.obj.attrs["initial_policy"] = Builtin(raising, "initial_policy")
def immediate_greedy(svec):
    return R.mk("argmax", NA, lambda a: R.mk("sum", NE, lambda e: TRr(svec, AC(a), EV(e)) * PR(svec, AC(a), EV(e))))
def setup_initpol(has):
    def setup(I):
        s, Pb, dims, gamma = mk_pi(I); with_initial_policy(Pb, has)
        I.call(I.getattr(s, "_setup_jax_functions"), [], {})
        s.attrs.update({"batched_states": prepared(Pb, dims), "values": SArr((N,), lambda idx: 0, tag=("zeros",))})
        return Ctx(self=s, _args=[], has=has, gamma=gamma)
    return setup
def post_initpol(c, q):
    r = c.result
    if not isinstance(r, SArr) or r.vec is None: return z3.BoolVal(False)
    x = z3.Int("s!ip"); q.hyps += [x >= 0, x < N]
    want = INITP(ST(x)) if c.has else AC(immediate_greedy(ST(x)))
    return z3.And(toz3(r.shape[0]) == N, toz3(r.shape[1]) == AD, r.vec((x,)) == want)
def ret_initpol(c):
    has = c["self"].attrs["problem"].attrs["__has_initial_policy"]
    return vec_array((N, AD), lambda l: INITP(ST(toz3(l[0]))) if has else AC(immediate_greedy(ST(toz3(l[0])))), name="initial_policy")
def pre_initpol(c, q):
    """without a problem-supplied policy the first policy is extracted from the CURRENT values: they must be zero for it to be the immediate-reward maximiser
    (the proof's scenario has zero values; as a `requires` the call sites have to establish it)"""
    s_ = c["self"]
    if s_.attrs["problem"].attrs.get("__has_initial_policy"): return z3.BoolVal(True)
    v = s_.attrs.get("values")
    if not isinstance(v, SArr): return z3.BoolVal(False)
    x = z3.Int("s!pre"); q.hyps += [x >= 0, x < N]
    return toz3(v.get((x,))) == 0
contract(f"{PI}._initialize_policy", scenarios=[("problem_policy.", setup_initpol(True)), ("default.", setup_initpol(False))], returns=ret_initpol, requires=pre_initpol,
    ensures={"first_policy": post_initpol})
def setup_init_pi(has, reset):
    def setup(I):
        s, Pb, dims, gamma = mk_pi(I); with_initial_policy(Pb, has)
        I.call(I.getattr(s, "_setup_jax_functions"), [], {})
        s.attrs.update({"batched_states": prepared(Pb, dims), "config": Obj("cfg", {"reset_values_for_each_policy_eval": reset}, label="config")})
        return Ctx(self=s, _args=[], has=has, reset=reset, gamma=gamma)
    return setup
def post_init_pi(c, q):
    s = c.self; x = z3.Int("s!ii"); q.hyps += [x >= 0, x < N]
    pol = s.attrs["policy"]; want = INITP(ST(x)) if c.has else AC(immediate_greedy(ST(x)))
    ok = z3.And(toz3(s.attrs["iteration"]) == 0, toz3(s.attrs["values"].get((x,))) == INITV(ST(x)), pol.vec((x,)) == want)
    if c.reset:          # the values every later evaluation restarts from are the problem's initial estimates, fixed at construction
        iv = s.attrs.get("initial_values")
        ok = z3.And(ok, toz3(iv.get((x,))) == INITV(ST(x))) if isinstance(iv, SArr) else z3.BoolVal(False)
    return ok
contract(f"{PI}._initialize_solver_state_elements", scenarios=[(f"{'problem_policy' if h else 'default'}.{'reset' if r else 'carry'}.", setup_init_pi(h, r)) for h in (True, False) for r in (False, True)],
    ensures={"policy_evaluated_first_values_initial_iteration_zero": post_init_pi})

# ---- solve: ghost trajectories of policies and evaluated values; _iteration_step enters through its contract
PPOL = z3.Function("PPOL", I_, I_, VEC)          # policy row of state s after k iterations
PVAL = z3.Function("PVAL", I_, I_, R_)           # values after k iterations (result of the k-th evaluation)
PCH = z3.Function("PCHANGED", I_, I_)            # n_changed of iteration k
EVCONV = z3.Function("EVAL_CONVERGED", I_, z3.BoolSort())   # ghost: the k-th policy evaluation left its loop by `break`
def ppol(k): return vec_array((N, AD), lambda l, k=k: PPOL(toz3(k), toz3(l[0])), name="policy")
def pval(k): return SArr((N,), lambda idx, k=k: PVAL(toz3(k), toz3(idx[0])))
def newp_of(c, k1): return lambda s: AC(Greedy(pval(toz3(k1)), c.gamma, ST(s)))
def def_ppol(c, k1, x):
    """definition instance: the policy after iteration k1 >= n0+1 is the greedy policy of the values evaluated in that iteration (_iteration_step.post.new_policy_greedy)"""
    return PPOL(toz3(k1), x) == newp_of(c, k1)(x)
def def_pch(c, k1):
    """definition: n_changed of iteration k1 counts the states whose action vector differs in any component (_iteration_step.post.n_changed_counts_any_component)"""
    newp = newp_of(c, k1)
    return PCH(toz3(k1)) == R.mk("count", N, lambda s: R.mk("any", AD, lambda j: COMP(newp(s), j) != COMP(PPOL(toz3(k1) - 1, s), j)))
def pi_defs(c, k): return [def_pch(c, toz3(k) + 1)]
def setup_pi_solve(I):
    s, Pb, dims, gamma = mk_pi(I)
    I.call(I.getattr(s, "_setup_jax_functions"), [], {})
    n0, maxit, f = z3.Ints("n0 max_iterations checkpoint_frequency")
    I.assume(z3.And(n0 >= 0, maxit >= 1, f >= 0, gamma > 0, gamma <= 1))
    s.attrs.update({"iteration": n0, "values": pval(n0), "policy": ppol(n0), "batched_states": prepared(Pb, dims), "checkpoint_frequency": f,
                    "checkpoint_manager": Obj("CheckpointManager", {}, label="CM")})
    I.ghost["saves"] = []
    c = Ctx(self=s, _args=[maxit], n0=n0, maxit=maxit, gamma=gamma, f=f, I=I, cur=[n0])
    def ret_step(cc):
        k = c.cur[0]                      # iteration counter before this step (ghost)
        return (vec_array((N, AD), lambda l: AC(Greedy(pval(toz3(k) + 1), gamma, ST(toz3(l[0])))), name="new_policy"), PCH(toz3(k) + 1))
    def eff_step(I_, cc):
        k = c.cur[0]; s_ = cc["self"]; I_.note_write(s_, "values"); s_.attrs["values"] = pval(toz3(k) + 1)
    contract(f"{PI}._iteration_step", returns=ret_step, effects=eff_step, ensures={}, setup=None)
    return c
def havoc_pi(I, env, c, k):
    s = c.self; it = c.n0 + k; c.cur[0] = it
    s.attrs["iteration"] = it; s.attrs["values"] = pval(it); s.attrs["policy"] = ppol(it)
    env["n_changed"] = PCH(it); env["new_policy"] = ppol(it)
    j = z3.Int("%jinv")
    return [z3.ForAll([j], z3.Implies(z3.And(j > c.n0, j <= it), PCH(j) != 0))] + pi_defs(c, it)
def check_pi(c, env, k, q):
    s = c.self; it = c.n0 + k
    goals = {"iteration": toz3(s.attrs["iteration"]) == it,
             "values": q.forall(0, N, lambda x: toz3(s.attrs["values"].get((x,))) == PVAL(it, x)),
             "policy": (lambda x: (q.hyps.extend([x >= 0, x < N] + ([def_ppol(c, it, x)] if not z3.is_true(z3.simplify(toz3(k) == 0)) else [])), s.attrs["policy"].vec((x,)) == PPOL(it, x))[1])(z3.Int("s!lp")),
             "no_earlier_stop": q.forall(c.n0 + 1, it + 1, lambda j: PCH(j) != 0, name="j")}
    if not z3.is_true(z3.simplify(toz3(k) == 0)): goals["n_changed_is_count"] = toz3(env["n_changed"]) == PCH(it)
    return goals
LoopSpec(f"{PI}.solve", 0, havoc_pi, check_pi, modifies={"self.iteration", "self.values", "self.policy", "n_changed", "new_policy"})
def post_pi_stop(c, q):
    it = toz3(c.self.attrs["iteration"])
    return z3.And(it - c.n0 <= c.maxit, it - c.n0 >= 1, q.forall(c.n0 + 1, it, lambda j: PCH(j) != 0, name="j"), z3.Or(PCH(it) == 0, it == c.n0 + c.maxit))
def post_pi_greedy(c, q):
    """the returned policy is greedy with respect to the returned values (always: the policy stored is the improvement of the evaluated values)"""
    s = c.self; it = toz3(s.attrs["iteration"]); x = z3.Int("s!pg"); q.hyps += [x >= 0, x < N]
    q.hyps.append(def_ppol(c, it, x))             # it >= n0 + 1 on every exit path (max_iterations >= 1)
    return s.attrs["policy"].vec((x,)) == AC(Greedy(s.attrs["values"], c.gamma, ST(x)))
def post_pi_stable(c, q):
    """stopping before the limit means no state's action vector changed in any component: new policy == previous policy, componentwise"""
    s = c.self; it = toz3(s.attrs["iteration"]); x, j = z3.Int("s!ps"), z3.Int("j!ps"); q.hyps += [x >= 0, x < N, j >= 0, j < AD]
    q.hyps += [def_pch(c, it)]
    cnt = R.mk("count", N, lambda s_: R.mk("any", AD, lambda jj: COMP(AC(Greedy(pval(it), c.gamma, ST(s_))), jj) != COMP(PPOL(it - 1, s_), jj)))
    allsame = R.mk("all", N, lambda s_: R.mk("all", AD, lambda jj: COMP(AC(Greedy(pval(it), c.gamma, ST(s_))), jj) == COMP(PPOL(it - 1, s_), jj)))
    return z3.Implies(z3.And(PCH(it) == 0, it > c.n0), allsame)
def post_pi_evalconv(c, q):
    """needed by the a-priori bound (Lean pi_bound / eval_bound): on the 'policy converged' path the last evaluation met its stopping test"""
    it = toz3(c.self.attrs["iteration"])
    return z3.Implies(PCH(it) == 0, EVCONV(it))
contract(f"{PI}.solve", setup=setup_pi_solve,
    ensures={"stop_rule_policy_stability": post_pi_stop, "returned_policy_greedy_for_returned_values": post_pi_greedy,
             "early_stop_means_no_component_changed": post_pi_stable, "eval_converged_when_policy_declared_stable": post_pi_evalconv})
