"""Contracts for policy iteration kernels (C05)."""
import z3
from pyvc.contract import contract, Ctx, LoopSpec
from pyvc.values import *
from pyvc import reduce as R
from contracts.spec_mdp import *
from contracts.value_iteration import mk_solver, prepared, VFUN, values_arr
from contracts.vi_solve import span_of, policy_of

PI = "mdpax.solvers.policy_iteration.PolicyIteration"
POL = z3.Function("POL", I_, VEC)
def policy_arr(): return vec_array((N, AD), lambda l: POL(toz3(l[0])), name="policy")
def mk_pi(I):
    s, Pb, dims, gamma = mk_solver(I, "PolicyIteration", "mdpax.solvers.policy_iteration")
    return s, Pb, dims, gamma
def setup_pvb(I):
    s, Pb, dims, gamma = mk_pi(I); D, B, bs, pad = dims
    BV = z3.Function("batchrow", I_, VEC); batch = vec_array((bs, SD), lambda l: BV(toz3(l[0])))
    carry = (Pb.action_space, Pb.event_space, gamma, values_arr(), policy_arr())
    return Ctx(self=s, _args=[carry, batch], BV=BV, bs=bs, gamma=gamma, V=values_arr())
contract(f"{PI}._calculate_policy_value_state_batch", setup=setup_pvb,
    ensures={"rows_use_own_policy_action": lambda c, q: q.forall(0, c.bs, lambda j:
                 toz3(c.result[1].get((j,))) == Q(c.V, c.gamma, c.BV(j), POL(IDX(c.BV(j)))))})

def setup_istep(I):
    s, Pb, dims, gamma = mk_pi(I)
    W = z3.Function("EVALUATED", I_, R_); ev = SArr((N,), lambda idx: W(toz3(idx[0])))
    s.attrs.update({"policy": policy_arr(), "values": values_arr()})
    s.attrs["_evaluate_policy"] = Builtin(lambda pol: ev, "evaluate")          # verified separately
    s.attrs["_extract_policy"] = Builtin(lambda: policy_of(s.attrs["values"], gamma), "extract")   # contract result of _extract_policy
    return Ctx(self=s, _args=[], gamma=gamma, ev=ev)
def post_changed(c, q):
    newp, n_changed = c.result
    spec = R.mk("count", N, lambda s: R.mk("any", AD, lambda k: COMP(AC(Greedy(c.ev, c.gamma, ST(s))), k) != COMP(POL(s), k)))
    return toz3(n_changed) == spec
contract(f"{PI}._iteration_step", setup=setup_istep,
    ensures={"values_assigned": lambda c, q: q.forall(0, N, lambda x: toz3(c.self.attrs["values"].get((x,))) == toz3(c.ev.get((x,)))),
             "new_policy_greedy": lambda c, q: q.forall(0, N, lambda x: c.result[0].vec((x,)) == AC(Greedy(c.ev, c.gamma, ST(x)))),
             "n_changed_counts_any_component": post_changed,
             "zero_iff_all_components_equal": lambda c, q: (toz3(c.result[1]) == 0) ==
                    R.mk("all", N, lambda s: R.mk("all", AD, lambda k: COMP(AC(Greedy(c.ev, c.gamma, ST(s))), k) == COMP(POL(s), k)))})

# ---------------- _calculate_policy_values (whole array) and _evaluate_policy (loop)
from pyvc.interp import FormatSpec
from contracts.vi_solve import maxdiff_of
def Bpi(V, gamma, pol):                       # policy backup as an array: s -> Q(V)(s, pol[s])
    return SArr((N,), lambda idx: Q(V, gamma, ST(toz3(idx[0])), pol.vec((idx[0],))))
def ret_pvb(c):
    actions, events, gamma, values, policy = c["carry"]; sb = c["state_batch"]
    return (c["carry"], SArr((sb.shape[0],), lambda idx: Q(values, gamma, sb.vec((idx[0],)), policy.vec((IDX(sb.vec((idx[0],))),))))) 
from pyvc.contract import REGISTRY
REGISTRY[f"{PI}._calculate_policy_value_state_batch"].returns = ret_pvb
def setup_pv(I):
    s, Pb, dims, gamma = mk_pi(I)
    I.call(I.getattr(s, "_setup_jax_functions"), [], {})
    s.attrs["batched_states"] = prepared(Pb, dims)
    return Ctx(self=s, _args=[policy_arr(), values_arr()], gamma=gamma, V=values_arr())
def post_pv(c, q):
    x = z3.Int("s!pv"); q.hyps += [x >= 0, x < N, IDX(ST(x)) == x]          # WF-index instance
    return z3.And(c.result.ndim == 1, toz3(c.result.shape[0]) == N, toz3(c.result.get((x,))) == Q(c.V, c.gamma, ST(x), POL(x)))
contract(f"{PI}._calculate_policy_values", setup=setup_pv,
    returns=lambda c: Bpi(c["values"], c["self"].attrs["gamma"], c["policy"]),
    ensures={"policy_backup_of_every_state": post_pv})

EVF = z3.Function("EVAL", I_, I_, R_)         # k-th evaluation iterate
class ETraj:
    def __init__(self, gamma, pol, test): self.gamma, self.pol, self.test = gamma, pol, test; self.points = []
    def opaque(self, k): return SArr((N,), lambda idx, k=k: EVF(toz3(k), toz3(idx[0])))
    def step_from(self, p): return Bpi(self.opaque(p), self.gamma, self.pol)
    def val(self, k):
        for p in self.points:
            if z3.is_true(z3.simplify(toz3(k) == toz3(p) + 1)): return self.step_from(p)
        return self.opaque(k)
    def residual_measure(self, p):
        new, old = self.step_from(p), self.opaque(p)
        f = lambda i: toz3(new.get((i,))) - toz3(old.get((i,)))
        return span_of(f, N) if self.test == "span" else maxdiff_of(f, N)
def setup_eval(test, reset):
    def setup(I):
        s, Pb, dims, gamma = mk_pi(I)
        cfg = Obj("cfg", {"max_eval_iter": z3.Int("max_eval_iter"), "reset_values_for_each_policy_eval": reset}, label="config")
        I.assume(cfg.attrs["max_eval_iter"] >= 1)
        pol = policy_arr(); tr = ETraj(gamma, pol, test)
        start = tr.opaque(0)
        thr = z3.Real("conv_threshold"); dec = z3.Int("decimals"); I.assume(dec >= 0)
        s.attrs.update({"config": cfg, "values": start if not reset else SArr((N,), lambda idx: z3.Real("junk")), "initial_values": start if reset else None,
                        "conv_threshold": thr, "verbose": 0, "_convergence_desc": test, "convergence_format": FormatSpec(dec),
                        "_convergence_test_fn": I.getattr(s, "_get_span" if test == "span" else "_get_max_diff")})
        return Ctx(self=s, _args=[pol], gamma=gamma, traj=tr, thr=thr, maxe=cfg.attrs["max_eval_iter"], last_k=[None])
    return setup
def havoc_e(I, env, c, k):
    env["values"] = c.traj.opaque(k); c.traj.points.append(k); c.last_k[0] = k
    return []
def check_e(c, env, k, q):
    return {"values_is_kth_iterate": q.forall(0, N, lambda x: toz3(env["values"].get((x,))) == toz3(c.traj.val(k).get((x,))))}
LoopSpec(f"{PI}._evaluate_policy", 0, havoc_e, check_e, modifies={"values", "new_values", "conv"})
def post_eval(c, q):
    """returned array is the iterate EVAL(K): K = the trip at which the loop broke (pre-update iterate) or max_eval_iter"""
    K = c.last_k[0]
    return q.forall(0, N, lambda x: toz3(c.result.get((x,))) == EVF(toz3(K), x))
def post_eval_residual(c, q):
    """if the loop left by `break`, the returned iterate v satisfies measure(Bπ v − v) < threshold (what Lean eval_bound needs)"""
    K = c.last_k[0]
    return z3.Or(toz3(K) == c.maxe, c.traj.residual_measure(K) < c.thr)
contract(f"{PI}._evaluate_policy",
    scenarios=[(f"{t}.{'reset' if r else 'carry'}.", setup_eval(t, r)) for t in ("span", "max_diff") for r in (False, True)],
    ensures={"returns_an_iterate_from_the_documented_start": post_eval, "break_means_small_residual": post_eval_residual})
