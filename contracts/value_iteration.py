"""Contracts for mdpax/solvers/value_iteration.py kernels (C02)."""
import z3
from pyvc.contract import contract, Ctx
from pyvc.values import *
from pyvc.models import arrays as A
from contracts.spec_mdp import *
from contracts.batch_processing import bp_inv

VI = "mdpax.solvers.value_iteration.ValueIteration"
VFUN = z3.Function("V", I_, R_)
def same_vecs(x, ref, q):
    """x is (pointwise) the reference vector array"""
    if x is ref: return z3.BoolVal(True)
    if not isinstance(x, SArr) or x.vec is None or x.ndim != ref.ndim: return z3.BoolVal(False)
    return z3.And(*[toz3(a) == toz3(b) for a, b in zip(x.shape, ref.shape)], q.forall(0, ref.shape[0], lambda i: x.vec((i,)) == ref.vec((i,))))
def P_of(c): return c["self"].attrs["problem"].attrs
def req_kernel(c, q, need_actions=True):
    conj = [same_vecs(c["random_events"], P_of(c)["random_event_space"], q)]
    if need_actions: conj.append(same_vecs(c["actions"], P_of(c)["action_space"], q))
    v = c["values"]; g = c["gamma"]
    conj.append(z3.BoolVal(isinstance(v, SArr) and v.ndim == 1)); conj.append(toz3(v.shape[0]) == N if isinstance(v, SArr) else z3.BoolVal(False))
    conj.append(z3.BoolVal(is_z3(g) and z3.is_real(g) or isinstance(g, (int, float))))
    return z3.And(*conj)

def mk_solver(I, cls_name="ValueIteration", module="mdpax.solvers.value_iteration"):
    P = ProblemStub(I)
    cls = I.load_module(module).globals[cls_name]
    bpcls = I.load_module("mdpax.utils.batch_processing").globals["BatchProcessor"]
    D, B, bs, pad = z3.Ints("D B bs n_pad")
    bp = Obj(bpcls, dict(n_devices=D, n_batches=B, batch_size=bs, n_states=N, n_pad=pad, state_dim=SD), label="bp")
    I.assume(bp_inv(bp))
    gamma = z3.Real("gamma")
    s = Obj(cls, {"problem": P.obj, "batch_processor": bp, "gamma": gamma}, label="solver")
    return s, P, (D, B, bs, pad), gamma
def values_arr(): return SArr((N,), lambda idx: VFUN(toz3(idx[0])), name="values")
def prepared(P, dims):
    D, B, bs, pad = dims
    flat = vec_array((N + pad, SD), lambda l: z3.If(toz3(l[0]) < N, ST(toz3(l[0])), ZVEC))
    return A.reshape(flat, (D, B, bs, SD))

# ---- _get_value_next_state
def setup_gvns(I, cls=("ValueIteration", "mdpax.solvers.value_iteration")):
    s, P, dims, gamma = mk_solver(I, *cls)
    nsv = z3.Const("ns0", VEC)
    return Ctx(self=s, _args=[rowvec(nsv, SD), values_arr()], nsv=nsv)
contract(f"{VI}._get_value_next_state", setup=setup_gvns,
    returns=lambda c: read(c["values"], IDX(as_vec(c["next_state"]))),
    ensures={"lookup": lambda c, q: toz3(c.result) == VFUN(IDX(c.nsv))})

# ---- _calculate_updated_state_action_value
def setup_sav(I, cls=("ValueIteration", "mdpax.solvers.value_iteration")):
    s, P, dims, gamma = mk_solver(I, *cls)
    sv, av = z3.Const("s0", VEC), z3.Const("a0", VEC)
    return Ctx(self=s, _args=[rowvec(sv, SD), rowvec(av, AD), P.event_space, gamma, values_arr()], sv=sv, av=av, gamma=gamma, V=values_arr())
contract(f"{VI}._calculate_updated_state_action_value", setup=setup_sav, requires=lambda c, q: req_kernel(c, q, need_actions=False),
    returns=lambda c: Q(c["values"], c["gamma"], as_vec(c["state"]), as_vec(c["action"])),
    ensures={"is_Q": lambda c, q: toz3(c.result) == Q(c.V, c.gamma, c.sv, c.av)})

# ---- _calculate_updated_value
def setup_uv(I, cls=("ValueIteration", "mdpax.solvers.value_iteration")):
    s, P, dims, gamma = mk_solver(I, *cls)
    sv = z3.Const("s0", VEC)
    return Ctx(self=s, _args=[rowvec(sv, SD), P.action_space, P.event_space, gamma, values_arr()], sv=sv, gamma=gamma, V=values_arr())
contract(f"{VI}._calculate_updated_value", setup=setup_uv, requires=lambda c, q: req_kernel(c, q),
    returns=lambda c: Bell(c["values"], c["gamma"], as_vec(c["state"])),
    ensures={"is_B": lambda c, q: toz3(c.result) == Bell(c.V, c.gamma, c.sv)})

# ---- _calculate_updated_value_state_batch: carry is whatever the CALLER packs: (actions, events, gamma, values)
def setup_batch(I, cls=("ValueIteration", "mdpax.solvers.value_iteration")):
    s, P, dims, gamma = mk_solver(I, *cls)
    D, B, bs, pad = dims
    BV = z3.Function("batchrow", I_, VEC)
    batch = vec_array((bs, SD), lambda l: BV(toz3(l[0])))
    carry = (P.action_space, P.event_space, gamma, values_arr())
    return Ctx(self=s, _args=[carry, batch], carry=carry, BV=BV, bs=bs, gamma=gamma, V=values_arr())
def ret_batch(c):
    actions, events, gamma, values = c["carry"]
    sb = c["state_batch"]
    return (c["carry"], SArr((sb.shape[0],), lambda idx: Bell(values, gamma, sb.vec((idx[0],)))))
contract(f"{VI}._calculate_updated_value_state_batch", setup=setup_batch, returns=ret_batch,
    ensures={"carry_same": lambda c, q: z3.BoolVal(c.result[0] is c.carry or all(x is y for x, y in zip(c.result[0], c.carry))),
             "rows": lambda c, q: q.forall(0, c.bs, lambda j: toz3(c.result[1].get((j,))) == Bell(c.V, c.gamma, c.BV(j)))})

# ---- _calculate_updated_value_scan_state_batches
def setup_scan(I):
    s, P, dims, gamma = mk_solver(I)
    D, B, bs, pad = dims
    BV = z3.Function("devrow", I_, I_, VEC)
    dev = vec_array((B, bs, SD), lambda l: BV(toz3(l[0]), toz3(l[1])))
    carry = (P.action_space, P.event_space, gamma, values_arr())
    return Ctx(self=s, _args=[carry, dev], carry=carry, BV=BV, dims=dims, gamma=gamma, V=values_arr())
def ret_scan(c):
    actions, events, gamma, values = c["carry"]; x = c["padded_batched_states"]
    return SArr(x.shape[:2], lambda idx: Bell(values, gamma, x.vec((idx[0], idx[1]))))
contract(f"{VI}._calculate_updated_value_scan_state_batches", setup=setup_scan, returns=ret_scan,
    ensures={"rows": lambda c, q: q.forall(0, c.dims[1], lambda b: q.forall(0, c.dims[2], lambda j:
                      toz3(c.result.get((b, j))) == Bell(c.V, c.gamma, c.BV(b, j))))})

# ---- _update_values (pmap installed as _setup_jax_functions does)
def setup_update(I):
    s, P, dims, gamma = mk_solver(I)
    I.call(I.getattr(s, "_setup_jax_functions"), [], {})          # real source installs the pmapped functions
    return Ctx(self=s, _args=[prepared(P, dims), P.action_space, P.event_space, gamma, values_arr()], dims=dims, gamma=gamma, V=values_arr())
contract(f"{VI}._update_values", setup=setup_update,
    returns=lambda c: SArr((N,), lambda idx: Bell(c["values"], c["gamma"], ST(toz3(idx[0])))),
    ensures={"length": lambda c, q: z3.And(c.result.ndim == 1, toz3(c.result.shape[0]) == N),
             "elementwise": lambda c, q: q.forall(0, N, lambda s: toz3(c.result.get((s,))) == Bell(c.V, c.gamma, ST(s))),
             "CANARY_gamma_on_reward": lambda c, q: q.forall(0, N, lambda s: toz3(c.result.get((s,))) ==
                    R.mk("max", NA, lambda a: R.mk("sum", NE, lambda e: toz3(c.gamma) * (TRr(ST(s), AC(a), EV(e)) + VFUN(IDX(TRn(ST(s), AC(a), EV(e))))) * PR(ST(s), AC(a), EV(e)))))})
from pyvc import reduce as R
