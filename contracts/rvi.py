"""Contracts for relative value iteration (C04)."""
import z3
from pyvc.contract import contract, Ctx, LoopSpec
from pyvc.values import *
from pyvc import reduce as R
from contracts.spec_mdp import *
from contracts.value_iteration import mk_solver, prepared, VFUN, values_arr
from contracts.vi_solve import span_of

RV = "mdpax.solvers.relative_value_iteration.RelativeValueIteration"
def setup_step(I):
    s, Pb, dims, gamma = mk_solver(I, "RelativeValueIteration", "mdpax.solvers.relative_value_iteration")
    I.call(I.getattr(s, "_setup_jax_functions"), [], {})
    I.assume(gamma == 1)
    g0 = z3.Real("gain0")
    s.attrs.update({"values": values_arr(), "batched_states": prepared(Pb, dims), "gain": g0,
                    "_convergence_test_fn": I.getattr(s, "_get_span")})
    return Ctx(self=s, _args=[], gamma=gamma, g0=g0, V=values_arr())
def newv(c, x): return Bell(c.V, c.gamma, ST(x)) - c.g0
# class invariant of RelativeValueIteration between sweeps: gain == values[N-1]  (established by _initialize_solver_state_elements,
# preserved by _iteration_step + `self.values = new_values` in solve, re-established by _restore_state_from_checkpoint)
def rvi_inv(c, q): return toz3(c["self"].attrs["gain"]) == toz3(c["self"].attrs["values"].get((N - 1,)))
def ret_rstep(c):
    s = c["self"]; V = s.attrs["values"]; g0 = s.attrs["gain"]
    new = SArr((N,), lambda idx: Bell(V, z3.RealVal(1), ST(toz3(idx[0]))) - toz3(g0))
    return (new, span_of(lambda i: toz3(new.get((i,))) - toz3(V.get((i,))), N))
def eff_rstep(I, c):
    s = c["self"]; new, _ = ret_rstep(c); I.note_write(s, "gain"); s.attrs["gain"] = new.get((N - 1,))
contract(f"{RV}._iteration_step", setup=setup_step, requires=rvi_inv, returns=ret_rstep, effects=eff_rstep, modifies={"gain"},
    ensures={"new_values": lambda c, q: q.forall(0, N, lambda x: toz3(c.result[0].get((x,))) == newv(c, x)),
             "length": lambda c, q: toz3(c.result[0].shape[0]) == N,
             "span": lambda c, q: toz3(c.result[1]) == span_of(lambda i: newv(c, i) - VFUN(i), N),
             "gain_is_last": lambda c, q: toz3(c.self.attrs["gain"]) == newv(c, N - 1),
             # the property's reading: the reported gain is the last component of B(V) - V (then Lean rvi_gain_within applies)
             "gain_is_residual": lambda c, q: toz3(c.self.attrs["gain"]) == Bell(c.V, c.gamma, ST(N - 1)) - VFUN(N - 1),
             "CANARY_gain_is_first": lambda c, q: toz3(c.self.attrs["gain"]) == newv(c, 0)})

# ---- initial values (Solver._initialize_values) and RVI initialisation
SOLV = "mdpax.core.solver.Solver"
def setup_init_values(I):
    s, Pb, dims, gamma = mk_solver(I, "RelativeValueIteration", "mdpax.solvers.relative_value_iteration")
    I.call(I.getattr(s, "_setup_jax_functions"), [], {})
    return Ctx(self=s, _args=[prepared(Pb, dims)], dims=dims)
contract(f"{SOLV}._initialize_values", setup=setup_init_values,
    returns=lambda c: SArr((N,), lambda idx: INITV(ST(toz3(idx[0])))),
    ensures={"length": lambda c, q: toz3(c.result.shape[0]) == N,
             "initial_value_of_each_state": lambda c, q: q.forall(0, N, lambda x: toz3(c.result.get((x,))) == INITV(ST(x)))})
def setup_init_elems(I):
    s, Pb, dims, gamma = mk_solver(I, "RelativeValueIteration", "mdpax.solvers.relative_value_iteration")
    I.call(I.getattr(s, "_setup_jax_functions"), [], {})
    s.attrs["batched_states"] = prepared(Pb, dims)
    return Ctx(self=s, _args=[])
contract(f"{RV}._initialize_solver_state_elements", setup=setup_init_elems,
    ensures={"iteration_zero": lambda c, q: toz3(c.self.attrs["iteration"]) == 0,
             "values_initial": lambda c, q: q.forall(0, N, lambda x: toz3(c.self.attrs["values"].get((x,))) == INITV(ST(x))),
             "gain_is_last_value": lambda c, q: toz3(c.self.attrs["gain"]) == INITV(ST(N - 1))})

# ---- RelativeValueIteration.solve: loop invariant with the gain
from pyvc.interp import FormatSpec
from contracts.vi_solve import policy_of, Greedy
RVALF = z3.Function("RVAL", I_, I_, R_)       # relative values after k sweeps
RMEAS = z3.Function("RMEAS", I_, R_)
class RTraj:
    """RVAL(k+1, s) = B(RVAL(k))(s) - RVAL(k, N-1)   (the code's recursion once gain = values[-1] holds)"""
    def __init__(self): self.points = []
    def opaque(self, k): return SArr((N,), lambda idx, k=k: RVALF(toz3(k), toz3(idx[0])))
    def step_from(self, p):
        return SArr((N,), lambda idx, p=p: Bell(self.opaque(p), z3.RealVal(1), ST(toz3(idx[0]))) - RVALF(toz3(p), N - 1))
    def val(self, k):
        for p in self.points:
            if z3.is_true(z3.simplify(toz3(k) == toz3(p) + 1)): return self.step_from(p)
        return self.opaque(k)
    def meas_unfolded(self, p):
        new, old = self.step_from(p), self.opaque(p)
        return span_of(lambda i: toz3(new.get((i,))) - toz3(old.get((i,))), N)
    def meas(self, k):
        for p in self.points:
            if z3.is_true(z3.simplify(toz3(k) == toz3(p) + 1)): return self.meas_unfolded(p)
        return RMEAS(toz3(k))
    def defs(self): return [RMEAS(toz3(p) + 1) == self.meas_unfolded(p) for p in self.points]
def setup_rsolve(I):
    s, Pb, dims, gamma = mk_solver(I, "RelativeValueIteration", "mdpax.solvers.relative_value_iteration")
    I.call(I.getattr(s, "_setup_jax_functions"), [], {})
    n0, maxit, f, dec = z3.Ints("n0 max_iterations checkpoint_frequency decimals"); eps = z3.Real("epsilon")
    I.assume(z3.And(n0 >= 0, maxit >= 1, f >= 0, dec >= 0, gamma == 1, eps > 0))
    tr = RTraj()
    s.attrs.update({"iteration": n0, "values": tr.opaque(n0), "gain": RVALF(n0, N - 1), "batched_states": prepared(Pb, dims), "policy": None,
                    "epsilon": eps, "conv_threshold": eps, "convergence_format": FormatSpec(dec), "checkpoint_frequency": f,
                    "checkpoint_manager": Obj("CheckpointManager", {}, label="CM"), "_convergence_test_fn": I.getattr(s, "_get_span")})
    I.ghost["saves"] = []
    return Ctx(self=s, _args=[maxit], n0=n0, maxit=maxit, thr=eps, gamma=gamma, traj=tr)
def havoc_r(I, env, c, k):
    s = c.self; it = c.n0 + k; tr = c.traj
    s.attrs["iteration"] = it; s.attrs["values"] = tr.opaque(it); s.attrs["gain"] = RVALF(it, N - 1)
    env["conv"] = RMEAS(it); env["new_values"] = tr.opaque(it); tr.points.append(it)
    j = z3.Int("%jinv")
    return [z3.ForAll([j], z3.Implies(z3.And(j > c.n0, j <= it), RMEAS(j) >= c.thr))]
def check_r(c, env, k, q):
    s = c.self; it = c.n0 + k; tr = c.traj
    goals = {"iteration": toz3(s.attrs["iteration"]) == it,
             "values": q.forall(0, N, lambda x: toz3(s.attrs["values"].get((x,))) == toz3(tr.val(it).get((x,)))),
             "gain_is_last_value": toz3(s.attrs["gain"]) == toz3(tr.val(it).get((N - 1,))),
             "no_earlier_stop": q.forall(c.n0 + 1, it + 1, lambda j: RMEAS(j) >= c.thr, name="j")}
    if not z3.is_true(z3.simplify(toz3(k) == 0)): goals["conv_is_measure"] = toz3(env["conv"]) == tr.meas(it)
    return goals
LoopSpec(f"{RV}.solve", 0, havoc_r, check_r, defs=lambda c, env, k: c.traj.defs(), modifies={"self.iteration", "self.values", "self.gain", "conv", "new_values"})
def post_gain_residual(c, q):
    """on the convergence path: reported gain = (B(U) - U)[N-1] with U the previous iterate (Lean rvi_gain_within applies)"""
    s = c.self; it = toz3(s.attrs["iteration"]); tr = c.traj
    if not tr.points: return z3.BoolVal(True)
    p = tr.points[-1]; U = tr.opaque(p)
    return z3.Implies(it == toz3(p) + 1, toz3(s.attrs["gain"]) == Bell(U, z3.RealVal(1), ST(N - 1)) - RVALF(toz3(p), N - 1))
contract(f"{RV}.solve", setup=setup_rsolve,
    ensures={"values_are_RVAL": lambda c, q: q.forall(0, N, lambda x: toz3(c.self.attrs["values"].get((x,))) == toz3(c.traj.val(c.self.attrs["iteration"]).get((x,)))),
             "stop_rule": lambda c, q: (q.hyps.extend(c.traj.defs()) or z3.And(toz3(c.self.attrs["iteration"]) - c.n0 <= c.maxit,
                            q.forall(c.n0 + 1, toz3(c.self.attrs["iteration"]), lambda j: RMEAS(j) >= c.thr, name="j"),
                            z3.Or(c.traj.meas(c.self.attrs["iteration"]) < c.thr, toz3(c.self.attrs["iteration"]) == c.n0 + c.maxit))),
             "gain_is_residual_component": post_gain_residual,
             "policy_greedy": lambda c, q: q.forall(0, N, lambda x: c.self.attrs["policy"].vec((x,)) == AC(Greedy(c.self.attrs["values"], z3.RealVal(1), ST(x)))) if isinstance(c.self.attrs["policy"], SArr) else z3.BoolVal(False)})

# ---- thresholds and base initialisation (C08)
def setup_rthr(I):
    mod = I.load_module("mdpax.solvers.relative_value_iteration").globals
    e = z3.Real("epsilon"); I.assume(e > 0)
    return Ctx(self=Obj(mod["RelativeValueIteration"], {"epsilon": e}, label="solver"), _args=[], e=e)
import contracts.logging_configs
contract(f"{RV}._setup_convergence_testing", setup=setup_rthr,
    ensures={"threshold_is_epsilon": lambda c, q: toz3(c.self.attrs["conv_threshold"]) == c.e,
             "test_is_span": lambda c, q: z3.BoolVal(c.self.attrs["_convergence_test_fn"].qualname.endswith("_get_span"))})
def setup_base_init(I):
    s, Pb, dims, gamma = mk_solver(I)
    I.call(I.getattr(s, "_setup_jax_functions"), [], {})
    s.attrs["batched_states"] = prepared(Pb, dims)
    return Ctx(self=s, _args=[])
contract(f"{SOLV}._initialize_solver_state_elements", setup=setup_base_init, modifies={"values", "policy", "iteration"},
    ensures={"iteration_zero_values_initial_policy_none": lambda c, q: z3.And(toz3(c.self.attrs["iteration"]) == 0, z3.BoolVal(c.self.attrs["policy"] is None),
                 q.forall(0, N, lambda x: toz3(c.self.attrs["values"].get((x,))) == INITV(ST(x))))})
