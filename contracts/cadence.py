"""C12 cadence / C09 save-site obligations for the five solve loops: the REAL body of CheckpointMixin.save() is executed against the
abstract CheckpointManager ADT (assumed Orbax contract: a save is accepted iff its step exceeds the latest step).
`install()` is the worker's prepare hook: it rewires the already registered solve contracts of whichever solver modules were imported."""
import z3
from pyvc import contract as C
from pyvc.values import *

CKPT = "mdpax.utils.checkpointing.CheckpointMixin"
TARGETS = ["mdpax.solvers.value_iteration.ValueIteration.solve", "mdpax.solvers.relative_value_iteration.RelativeValueIteration.solve",
           "mdpax.solvers.periodic_value_iteration.PeriodicValueIteration.solve", "mdpax.solvers.semi_async_value_iteration.SemiAsyncValueIteration.solve",
           "mdpax.solvers.policy_iteration.PolicyIteration.solve"]

def saves(c): return [e for e in c.I.ghost["effects"] if e[0] == "cm.save"]
def wrap_setup(base):
    def s(I):
        c = base(I); sv = c["self"]
        I.ghost["effects"] = []
        cm = I.call(I.models["orbax.checkpoint"]["CheckpointManager"], [I.PathV("ckdir")], {"options": None})
        I.assume(toz3(cm.attrs["__ghost_latest"]) <= c["n0"])                    # solve.pre.fresh_steps: no step newer than the current iteration exists
        sv.attrs["checkpoint_manager"] = cm; sv.attrs["enable_async_checkpointing"] = z3.Bool("enable_async")
        I.ghost["effects"] = []; c["I"] = I; c["mark"] = [0]; c["f"] = sv.attrs["checkpoint_frequency"]; c["snaps"] = {}
        orig = cm.attrs["save"].fn
        def save_and_snapshot(step, args=None):                  # ghost: remember the solver's attributes at the moment of the call
            r = orig(step, args=args); c["snaps"][len(saves(c)) - 1] = dict(sv.attrs); return r
        cm.attrs["save"] = Builtin(save_and_snapshot, "orbax.checkpoint.CheckpointManager.save")
        return c
    return s
def state_ok(c, saved, index=None):
    """the state handed to the manager is the solver's state at the call: EVERY leaf of the pytree is the solver's current attribute of that
    name (same array object / equal scalar), and the label info.iteration is the current iteration (C09 save.site.label / no stale buffer)"""
    kind, a, pc = saved; step, accepted, args = a[1], a[2], a[3]
    st = args[1] if isinstance(args, tuple) else None
    if not isinstance(st, Obj): return z3.BoolVal(False)
    attrs_then = c["snaps"].get(index if index is not None else saves(c).index(saved), c["self"].attrs); conj = []; n_leaves = [0]
    def walk(o):
        for k, v in o.attrs.items():
            if isinstance(v, Obj): walk(v); continue
            n_leaves[0] += 1
            cur = attrs_then.get(k, "__missing__")
            if isinstance(cur, str) and cur == "__missing__": conj.append(z3.BoolVal(False)); continue
            if v is cur or (v is None and cur is None): continue
            if is_z3(v) or is_z3(cur) or isinstance(v, (int, float)) and isinstance(cur, (int, float)):
                try: conj.append(toz3(v) == toz3(cur)); continue
                except Exception: pass
            conj.append(z3.BoolVal(False))
    walk(st)
    if n_leaves[0] < 3: return z3.BoolVal(False)
    return z3.And(*conj) if conj else z3.BoolVal(True)
def wrap_loop(spec):
    old_havoc, old_check = spec.havoc, spec.check
    def havoc(I, env, c, k):
        r = old_havoc(I, env, c, k); c["mark"][0] = len(saves(c)); return r
    def check(c, env, k, q):
        g = old_check(c, env, k, q)
        if not z3.is_true(z3.simplify(toz3(k) == 0)):
            it = c["n0"] + k; new = saves(c)[c["mark"][0]:]; f = toz3(c["f"])
            g["cadence.one_save_iff_multiple_of_f"] = (z3.BoolVal(len(new) == 1) == z3.And(f > 0, it % f == 0)) if len(new) <= 1 else z3.BoolVal(False)
            if new:
                g["cadence.step_is_iteration_and_accepted"] = z3.And(toz3(new[0][1][1]) == it, new[0][1][2])
                g["cadence.saved_state_is_current_state"] = state_ok(c, new[0])
        return g
    C.LoopSpec(spec.target, spec.ordinal, havoc, check, defs=spec.defs, modifies=spec.modifies)
def post_final(c, q):
    sv = saves(c); it = toz3(c["self"].attrs["iteration"]); f = toz3(c["f"])
    if not sv: return f == 0
    last = sv[-1]
    return z3.And(f > 0, toz3(last[1][1]) == it, state_ok(c, last))
def post_final_accepted_or_duplicate(c, q):
    """the final save is accepted, unless the same step was already submitted by the periodic save of this very sweep (duplicate, ignored by the ADT)"""
    sv = saves(c); it = toz3(c["self"].attrs["iteration"])
    if not sv: return z3.BoolVal(True)
    last = sv[-1]; prev_same = [e for e in sv[:-1] if z3.is_true(z3.simplify(toz3(e[1][1]) == toz3(last[1][1])))]
    return z3.Or(last[1][2], z3.BoolVal(bool(prev_same)))
def post_count(c, q):
    """a call submits at most two saves after the loop rule's arbitrary iteration: the periodic one of the last sweep and the final one"""
    return z3.BoolVal(len(saves(c)) - c["mark"][0] <= 2)
def install():
    C.REGISTRY.pop(f"{CKPT}.save", None)                      # execute the real save(): is_checkpointing_enabled, solver_state, manager.save
    for t in TARGETS:
        con = C.REGISTRY.get(t)
        if con is None or not con.scenarios or con.scenarios[0][1] is None: continue
        con.scenarios = [(n, wrap_setup(s)) for n, s in con.scenarios]
        con.ensures = {"cadence.final_iteration_always_submitted_with_current_state": post_final, "cadence.final_save_accepted_or_duplicate": post_final_accepted_or_duplicate,
                       "cadence.at_most_periodic_plus_final": post_count}
        spec = C.LOOPS.get((t, 0))
        if spec is not None: wrap_loop(spec)
