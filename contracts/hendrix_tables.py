"""Hendrix: contents of the substitution-demand table pu and the total-demand-for-A table pz (C13 / C16).

pu[u, y] = sum over x = u .. max_demand-y-1 of Poisson(x + y; mean_b) * Binomial(u; x, substitution probability)   for u < max_demand - y, else 0
pz[z, y] = sum over k = 0 .. z of Poisson(k; mean_a) * pu[z - k, y]
(Poisson and binomial pmf are uninterpreted mathematical functions; scipy's numerics are trusted.)"""
import z3
from pyvc.contract import contract, Ctx, LoopSpec
from pyvc.values import *
from pyvc import reduce as R

HX = "mdpax.problems.perishable_inventory.hendrix_two_product.HendrixTwoProductPerishable"
def base(I, m=1):
    cls = I.load_module("mdpax.problems.perishable_inventory.hendrix_two_product").globals["HendrixTwoProductPerishable"]
    Qa, Qb = z3.Ints("Qa Qb"); ma, mb, ps = z3.Reals("mean_a mean_b p_sub"); I.assume(z3.And(Qa >= 1, Qb >= 1, ma > 0, mb > 0, ps >= 0, ps <= 1))
    o = Obj(cls, {"max_useful_life": m, "max_order_quantity_a": Qa, "max_order_quantity_b": Qb, "demand_poisson_mean_a": ma, "demand_poisson_mean_b": mb,
                  "substitution_probability": ps}, label="problem")
    I.call(I.getattr(o, "_setup_before_space_construction"), [], {})            # real hook: max_stock_a/b, max_demand
    Sb, MD = toz3(o.attrs["max_stock_b"]), toz3(o.attrs["max_demand"])
    return Ctx(self=o, _args=[], Sb=Sb, MD=MD, ma=ma, mb=mb, ps=ps, I=I)
def PUspec(c, u, y):
    POIS, BIN = c.I.dist["POISPMF"], c.I.dist["BINOMPMF"]
    return z3.If(u < c.MD - y, R.mk("sum", c.MD - y - u, lambda i: POIS(c.mb, u + i + y) * BIN(c.ps, u + i, u)), z3.RealVal(0))
# ---------------------------------------------------------------- _calculate_pu: loop 0 over y, loop 1 over u (nested)
def pu_outer(c, k): return lambda idx: z3.If(toz3(idx[1]) < toz3(k), PUspec(c, toz3(idx[0]), toz3(idx[1])), z3.RealVal(0))
def havoc_y(I, env, c, k):
    env["pu"] = SArr((c.MD + 1, c.Sb + 1), pu_outer(c, k)); return []
def check_y(c, env, k, q):
    u, y = z3.Ints("u!t y!t"); q.hyps += [u >= 0, u <= c.MD, y >= 0, y <= c.Sb]
    return {"columns_below_y_are_filled_rest_zero": toz3(env["pu"].get((u, y))) == pu_outer(c, k)((u, y))}
def pu_inner(c, yk, j):      # inside column yk: rows 0 .. j (u = 1 + j is the next one to be written)
    return lambda idx: z3.If(toz3(idx[1]) < yk, PUspec(c, toz3(idx[0]), toz3(idx[1])),
                             z3.If(z3.And(toz3(idx[1]) == yk, toz3(idx[0]) < 1 + toz3(j)), PUspec(c, toz3(idx[0]), toz3(idx[1])), z3.RealVal(0)))
def havoc_u(I, env, c, j):
    env["pu"] = SArr((c.MD + 1, c.Sb + 1), pu_inner(c, toz3(env["y"]), j)); return []
def check_u(c, env, j, q):
    u, y = z3.Ints("u!t y!t"); q.hyps += [u >= 0, u <= c.MD, y >= 0, y <= c.Sb]
    return {"rows_below_u_of_this_column_are_filled": toz3(env["pu"].get((u, y))) == pu_inner(c, toz3(env["y"]), j)((u, y))}
LoopSpec(f"{HX}._calculate_pu", 0, havoc_y, check_y)
LoopSpec(f"{HX}._calculate_pu", 1, havoc_u, check_u)
def post_pu(c, q):
    u, y = z3.Ints("u!p y!p"); q.hyps += [u >= 0, u <= c.MD, y >= 0, y <= c.Sb]; r = c.result
    return z3.And(toz3(r.shape[0]) == c.MD + 1, toz3(r.shape[1]) == c.Sb + 1, toz3(r.get((u, y))) == PUspec(c, u, y))
contract(f"{HX}._calculate_pu", setup=lambda I: base(I), ensures={"poisson_demand_for_B_thinned_by_binomial_substitution": post_pu})
# ---------------------------------------------------------------- _calculate_pz: loop 0 over y, loop 1 over z (nested); self.pu is an arbitrary table
def setup_pz(I):
    c = base(I); PU = z3.Function("pu_table", z3.IntSort(), z3.IntSort(), z3.RealSort())
    c.self.attrs["pu"] = SArr((c.MD + 1, c.Sb + 1), lambda idx: PU(toz3(idx[0]), toz3(idx[1]))); c["PU"] = PU
    return c
def PZspec(c, z, y):
    POIS = c.I.dist["POISPMF"]
    return R.mk("sum", z + 1, lambda k: POIS(c.ma, k) * c.PU(z - k, y))
def pz_outer(c, k): return lambda idx: z3.If(z3.Or(toz3(idx[1]) < toz3(k), toz3(idx[0]) == 0), PZspec(c, toz3(idx[0]), toz3(idx[1])), z3.RealVal(0))
def havoc_zy(I, env, c, k):
    env["pz"] = SArr((c.MD + 1, c.Sb + 1), pz_outer(c, k)); return []
def check_zy(c, env, k, q):
    z, y = z3.Ints("z!t y!t"); q.hyps += [z >= 0, z <= c.MD, y >= 0, y <= c.Sb]
    q.hyps.append(PZspec(c, z3.IntVal(0), y) == c.I.dist["POISPMF"](c.ma, 0) * c.PU(0, y))           # the one-term sum
    return {"row_zero_and_columns_below_y_are_filled": toz3(env["pz"].get((z, y))) == pz_outer(c, k)((z, y))}
def pz_inner(c, yk, j):
    return lambda idx: z3.If(z3.Or(toz3(idx[1]) < yk, toz3(idx[0]) == 0, z3.And(toz3(idx[1]) == yk, toz3(idx[0]) < 1 + toz3(j))), PZspec(c, toz3(idx[0]), toz3(idx[1])), z3.RealVal(0))
def havoc_zz(I, env, c, j):
    env["pz"] = SArr((c.MD + 1, c.Sb + 1), pz_inner(c, toz3(env["y"]), j)); return []
def check_zz(c, env, j, q):
    z, y = z3.Ints("z!t y!t"); q.hyps += [z >= 0, z <= c.MD, y >= 0, y <= c.Sb]
    return {"rows_below_z_of_this_column_are_filled": toz3(env["pz"].get((z, y))) == pz_inner(c, toz3(env["y"]), j)((z, y))}
LoopSpec(f"{HX}._calculate_pz", 0, havoc_zy, check_zy)
LoopSpec(f"{HX}._calculate_pz", 1, havoc_zz, check_zz)
def post_pz(c, q):
    z, y = z3.Ints("z!p y!p"); q.hyps += [z >= 0, z <= c.MD, y >= 0, y <= c.Sb]; r = c.result
    return z3.And(toz3(r.shape[0]) == c.MD + 1, toz3(r.shape[1]) == c.Sb + 1, toz3(r.get((z, y))) == PZspec(c, z, y))
contract(f"{HX}._calculate_pz", setup=setup_pz, ensures={"convolution_of_poisson_demand_for_A_with_substitution_demand": post_pz})

# ---------------------------------------------------------------- what callers are told (checked against the ensures above: contract.returns_satisfies.*)
def _cx(c):
    o = c["self"]; a = o.attrs
    real = lambda v: z3.ToReal(toz3(v)) if z3.is_int(toz3(v)) else toz3(v)
    return Ctx(self=o, MD=toz3(a["max_demand"]), Sb=toz3(a["max_stock_b"]), ma=real(a["demand_poisson_mean_a"]), mb=real(a["demand_poisson_mean_b"]), ps=real(a["substitution_probability"]),
               I=type("D", (), {"dist": {"POISPMF": z3.Function("PoissonPMF", z3.RealSort(), z3.IntSort(), z3.RealSort()), "BINOMPMF": z3.Function("BinomialPMF", z3.RealSort(), z3.IntSort(), z3.IntSort(), z3.RealSort())}}))
def ret_pu(c):
    x = _cx(c); return SArr((x.MD + 1, x.Sb + 1), lambda idx: PUspec(x, toz3(idx[0]), toz3(idx[1])))
def ret_pz(c):
    x = _cx(c); pu = c["self"].attrs["pu"]; POIS = x.I.dist["POISPMF"]
    return SArr((x.MD + 1, x.Sb + 1), lambda idx: R.mk("sum", toz3(idx[0]) + 1, lambda k: POIS(x.ma, k) * toz3(pu.get((toz3(idx[0]) - k, toz3(idx[1]))))))
from pyvc.contract import REGISTRY
REGISTRY[f"{HX}._calculate_pu"].returns = ret_pu; REGISTRY[f"{HX}._calculate_pz"].returns = ret_pz
def pre_pz(c, q):
    """the substitution-demand table has been computed (self.pu exists, shape (max_demand+1, max_stock_b+1))"""
    pu = c["self"].attrs.get("pu")
    if not isinstance(pu, SArr) or pu.ndim != 2: return z3.BoolVal(False)
    return z3.And(toz3(pu.shape[0]) == toz3(c["self"].attrs["max_demand"]) + 1, toz3(pu.shape[1]) == toz3(c["self"].attrs["max_stock_b"]) + 1)
REGISTRY[f"{HX}._calculate_pz"].requires = pre_pz
# ---------------------------------------------------------------- _setup_after_space_construction: pu first, then pz from THAT pu (callee contracts at the call sites)
def post_tables(c, q):
    z, y = z3.Ints("z!s y!s"); q.hyps += [z >= 0, z <= c.MD, y >= 0, y <= c.Sb]; a = c.self.attrs; POIS = c.I.dist["POISPMF"]
    return z3.And(toz3(a["pu"].get((z, y))) == PUspec(c, z, y),
                  toz3(a["pz"].get((z, y))) == R.mk("sum", z + 1, lambda k: POIS(c.ma, k) * PUspec(c, z - k, y)))
contract(f"{HX}._setup_after_space_construction", setup=lambda I: base(I), ensures={"tables_hold_the_documented_substitution_and_total_demand_distributions": post_tables})
