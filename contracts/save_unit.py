"""CheckpointMixin.save as a verification unit of its own: the solve-loop proofs of the solver properties apply the abstract contract
"save(step) returns None and changes nothing on the solver" at the call sites; here the REAL body is proved to behave like that
(and to hand exactly one save of the current solver_state, labelled `step`, to the manager iff checkpointing is enabled)."""
import z3
from pyvc.contract import contract, Ctx
from pyvc.values import *
from contracts.spec_mdp import *
from contracts.value_iteration import mk_solver, values_arr

CKPT = "mdpax.utils.checkpointing.CheckpointMixin"
def setup(I):
    s, P, dims, gamma = mk_solver(I)
    f = z3.Int("checkpoint_frequency"); step = z3.Int("step"); I.assume(f >= 0)
    I.ghost["effects"] = []
    cm = I.call(I.models["orbax.checkpoint"]["CheckpointManager"], [I.PathV("ckdir")], {"options": None})
    s.attrs.update({"values": values_arr(), "policy": None, "iteration": z3.Int("iteration"), "checkpoint_frequency": f, "checkpoint_manager": cm, "enable_async_checkpointing": z3.Bool("enable_async")})
    I.ghost["effects"] = []
    return Ctx(self=s, _args=[step], f=f, step=step, I=I, before=dict(s.attrs))
def saves(c): return [e for e in c.I.ghost["effects"] if e[0] == "cm.save"]
def post(c, q):
    sv = saves(c)
    if len(sv) > 1: return z3.BoolVal(False)
    one = z3.BoolVal(len(sv) == 1)
    label = toz3(sv[0][1][1]) == c.step if sv else z3.BoolVal(True)
    st = sv[0][1][3][1] if sv and isinstance(sv[0][1][3], tuple) else None
    state = z3.BoolVal(isinstance(st, Obj) and st.attrs.get("values") is c.before["values"]) if sv else z3.BoolVal(True)
    return z3.And(one == (c.f > 0), label, state)
contract(f"{CKPT}.save", setup=setup, modifies=set(),
    ensures={"returns_none": lambda c, q: z3.BoolVal(c.result is None),
             "one_save_of_the_current_state_labelled_step_iff_enabled": post,
             "solver_attributes_untouched": lambda c, q: z3.BoolVal(all(c.self.attrs.get(k) is v or (is_z3(v) and is_z3(c.self.attrs.get(k)) and z3.eq(c.self.attrs.get(k), v)) or c.self.attrs.get(k) == v for k, v in c.before.items()) and set(c.self.attrs) == set(c.before))})
