"""Contracts for periodic value iteration (C07): ring buffer + measures."""
import z3
from pyvc.contract import contract, Ctx, LoopSpec
from pyvc.values import *
from pyvc.models import arrays as A
from pyvc import reduce as R
from contracts.spec_mdp import *
from contracts.value_iteration import mk_solver, prepared
from contracts.vi_solve import span_of, VALF

PV = "mdpax.solvers.periodic_value_iteration.PeriodicValueIteration"
HIST = z3.Function("HIST", I_, I_, R_)       # arbitrary buffer contents (slot, state)
def ring_inst(hist, n, P, j, s):
    """instance (j, s) of RB(n): slot (n-j) mod (P+1) holds VAL(n-j) for 0<=j<=min(n,P)"""
    return z3.Implies(z3.And(j >= 0, j <= P, j <= n, s >= 0, s < N), toz3(hist.get(((n - j) % (P + 1), s))) == VALF(n - j, s))
def ring_inv(hist, hi, n, P):
    return hi == n % (P + 1)          # quantified part is instantiated on demand via ring_inst (ghost lemma call)
def mk_periodic(I):
    s, Pb, dims, gamma = mk_solver(I, "PeriodicValueIteration", "mdpax.solvers.periodic_value_iteration")
    P, n, hi = z3.Ints("period n history_index")
    I.assume(z3.And(P >= 1, n >= 0, hi >= 0, hi <= P))
    hist = SArr((P + 1, N), lambda idx: HIST(toz3(idx[0]), toz3(idx[1])), name="value_history")
    s.attrs.update({"period": P, "iteration": n, "history_index": hi, "value_history": hist})
    return s, Pb, dims, gamma, P, n, hi, hist

# ---- undiscounted measure
def setup_nodisc(I):
    s, Pb, dims, gamma, P, n, hi, hist = mk_periodic(I)
    I.assume(n >= P); I.assume(ring_inv(hist, hi, n, P))
    cur = SArr((N,), lambda idx: VALF(n, toz3(idx[0])))
    return Ctx(self=s, _args=[cur, hi, P, hist], P=P, n=n, hist=hist)
def post_nodisc(c, q):
    # congruence needs the buffer fact at the bound index: supply it for every state (one quantifier over s only)
    sx = z3.Int("%sx")
    q.hyps.append(z3.ForAll([sx], ring_inst(c.hist, c.n, c.P, c.P, sx)))
    return toz3(c.result) == span_of(lambda i: VALF(c.n, i) - VALF(c.n - c.P, i), N)
contract(f"{PV}._calculate_period_span_without_discount", setup=setup_nodisc, ensures={"is_period_span": post_nodisc})

# ---- _iteration_step: ring buffer preserved
def setup_pstep(I):
    from contracts.vi_solve import Trajectory
    s, Pb, dims, gamma, P, n, hi, hist = mk_periodic(I)
    I.call(I.getattr(s, "_setup_jax_functions"), [], {})
    # solve() has already incremented iteration: n is the index of the sweep being computed, values = VAL(n-1)
    I.assume(n >= 1); I.assume(ring_inv(hist, hi, n - 1, P))
    s.attrs["values"] = SArr((N,), lambda idx: VALF(n - 1, toz3(idx[0]))); s.attrs["batched_states"] = prepared(Pb, dims)
    MEASP = z3.Real("periodic_measure")
    s.attrs["_convergence_test_fn"] = Builtin(lambda *a: MEASP, "measure")     # verified separately
    return Ctx(self=s, _args=[], P=P, n=n, gamma=gamma, hist0=hist)
def post_ring(c, q):
    s = c.self; hist = s.attrs["value_history"]; hi = toz3(s.attrs["history_index"]); n, P = c.n, c.P
    newrow = lambda x: Bell(SArr((N,), lambda idx: VALF(n - 1, toz3(idx[0]))), c.gamma, ST(x))     # = VAL(n, x) by definition
    j = z3.Int("j!rb"); x = z3.Int("s!rb"); q.hyps += [j >= 0, j <= P, j <= n, x >= 0, x < N]
    slot = (n - j) % (P + 1)
    q.hyps.append(ring_inst(c.hist0, n - 1, P, j - 1, x))            # ghost lemma call: RB(n-1) at j-1
    want = z3.If(j == 0, newrow(x), VALF(n - j, x))
    return z3.And(hi == n % (P + 1), toz3(hist.get((slot, x))) == want)
contract(f"{PV}._iteration_step", setup=setup_pstep, ensures={"ring_buffer": post_ring,
    "new_values": lambda c, q: q.forall(0, N, lambda x: toz3(c.result[0].get((x,))) == Bell(SArr((N,), lambda idx: VALF(c.n - 1, toz3(idx[0]))), c.gamma, ST(x)))})

# ---- discounted measure: loop over p in range(period) with partial-sum invariant
from pyvc.models.stdlib import POW
def term(c, p, s):
    n, g = c.n, c.gamma
    return (VALF(n - p, s) - VALF(n - p - 1, s)) / POW(g, n - p - 1)
def psum(c, upto, s): return R.mk("sum", upto, lambda p: term(c, p, s))
def setup_disc(I):
    s, Pb, dims, gamma, P, n, hi, hist = mk_periodic(I)
    I.assume(n >= P); I.assume(ring_inv(hist, hi, n, P)); I.assume(z3.And(gamma > 0, gamma < 1))
    cur = SArr((N,), lambda idx: VALF(n, toz3(idx[0])))
    return Ctx(self=s, _args=[cur, hi, P, hist, n, gamma], P=P, n=n, gamma=gamma, hist=hist)
def havoc_disc(I, env, c, k):
    env["period_deltas"] = SArr((N,), lambda idx, k=k: psum(c, k, toz3(idx[0])))
    return []
def check_disc(c, env, k, q):
    pd = env["period_deltas"]
    x = z3.Int("s!pd"); q.hyps += [x >= 0, x < N]
    # ghost lemma calls: buffer facts for the two slots read in trip k-1, and one unrolling of the partial sum
    if not z3.is_true(z3.simplify(toz3(k) == 0)):
        p = k - 1
        q.hyps += [ring_inst(c.hist, c.n, c.P, p, x), ring_inst(c.hist, c.n, c.P, p + 1, x),
                   psum(c, k, x) == psum(c, p, x) + term(c, p, x)]
    return {"partial_sum": toz3(pd.get((x,))) == psum(c, k, x)}
LoopSpec(f"{PV}._calculate_period_span_with_discount", 0, havoc_disc, check_disc)
contract(f"{PV}._calculate_period_span_with_discount", setup=setup_disc,
    ensures={"is_discounted_period_span": lambda c, q: toz3(c.result) == span_of(lambda i: psum(c, c.P, i), N)})

# ---------------- PeriodicValueIteration.solve: plain VI iterates, ring buffer, period-span stop (C07/C08)
from pyvc.interp import FormatSpec
from contracts.vi_solve import Trajectory, MEASF, Greedy
PMEAS = z3.Function("PMEAS", I_, R_)          # documented periodic measure of sweep k (+inf encoded by PINF_FLAG)
def setup_psolve(I):
    s, Pb, dims, gamma, P, n, hi, hist = mk_periodic(I)
    I.call(I.getattr(s, "_setup_jax_functions"), [], {})
    n0, maxit, f, dec = z3.Ints("n0 max_iterations checkpoint_frequency decimals"); eps = z3.Real("epsilon")
    I.assume(z3.And(n0 >= 0, maxit >= 1, f >= 0, dec >= 0, eps > 0))
    tr = Trajectory(gamma, "span")
    s.attrs.update({"iteration": n0, "values": tr.opaque(n0), "batched_states": prepared(Pb, dims), "policy": None, "epsilon": eps, "conv_threshold": eps,
                    "_convergence_desc": "period_span", "convergence_format": FormatSpec(dec), "checkpoint_frequency": f, "checkpoint_manager": Obj("CheckpointManager", {}, label="CM"),
                    "history_index": n0 % (P + 1), "clear_value_history_on_convergence": False})
    # the measure is verified separately (B.3 of the design): here it is the documented function of the sweep index
    s.attrs["_convergence_test_fn"] = Builtin(lambda new, old, hidx, per, histo, it, g: PMEAS(toz3(it)), "periodic_measure")
    return Ctx(self=s, _args=[maxit], n0=n0, maxit=maxit, thr=eps, gamma=gamma, traj=tr, P=P, hist=hist)
def havoc_p(I, env, c, k):
    s = c.self; it = c.n0 + k; tr = c.traj
    HK = z3.Function(f"HISTK", I_, I_, I_, R_)
    s.attrs["iteration"] = it; s.attrs["values"] = tr.opaque(it); s.attrs["history_index"] = it % (c.P + 1)
    s.attrs["value_history"] = SArr((c.P + 1, N), lambda idx, it=it: HK(toz3(it), toz3(idx[0]), toz3(idx[1])))
    c["hist_now"] = s.attrs["value_history"]; c["it_now"] = it
    env["conv"] = PMEAS(it); env["new_values"] = tr.opaque(it); tr.points.append(it)
    j = z3.Int("%jinv")
    return [z3.ForAll([j], z3.Implies(z3.And(j > c.n0, j <= it), PMEAS(j) >= c.thr))]
def check_p(c, env, k, q):
    s = c.self; it = c.n0 + k; tr = c.traj
    goals = {"iteration": toz3(s.attrs["iteration"]) == it,
             "values": q.forall(0, N, lambda x: toz3(s.attrs["values"].get((x,))) == toz3(tr.val(it).get((x,)))),
             "history_index": toz3(s.attrs["history_index"]) == it % (c.P + 1),
             "no_earlier_stop": q.forall(c.n0 + 1, it + 1, lambda j: PMEAS(j) >= c.thr, name="j")}
    if not z3.is_true(z3.simplify(toz3(k) == 0)):
        goals["conv_is_measure"] = toz3(env["conv"]) == PMEAS(it)
        x = z3.Int("s!h"); q.hyps += [x >= 0, x < N]
        goals["newest_slot_holds_new_values"] = toz3(s.attrs["value_history"].get((it % (c.P + 1), x))) == toz3(tr.val(it).get((x,)))
    return goals
LoopSpec(f"{PV}.solve", 0, havoc_p, check_p, modifies={"self.iteration", "self.values", "self.history_index", "self.value_history", "conv", "new_values"})
contract(f"{PV}.solve", setup=setup_psolve,
    ensures={"values_are_plain_VI_iterates": lambda c, q: q.forall(0, N, lambda x: toz3(c.self.attrs["values"].get((x,))) == toz3(c.traj.val(c.self.attrs["iteration"]).get((x,)))),
             "stop_rule": lambda c, q: z3.And(toz3(c.self.attrs["iteration"]) - c.n0 <= c.maxit,
                            q.forall(c.n0 + 1, toz3(c.self.attrs["iteration"]), lambda j: PMEAS(j) >= c.thr, name="j"),
                            z3.Or(PMEAS(toz3(c.self.attrs["iteration"])) < c.thr, toz3(c.self.attrs["iteration"]) == c.n0 + c.maxit)),
             "policy_greedy": lambda c, q: q.forall(0, N, lambda x: c.self.attrs["policy"].vec((x,)) == AC(Greedy(c.self.attrs["values"], c.gamma, ST(x)))) if isinstance(c.self.attrs["policy"], SArr) else z3.BoolVal(False)})

# ---------------- dispatch of the measure, initialisation of the ring buffer, thresholds, clearing (C07 / C08)
def setup_gps(I):
    s, Pb, dims, gamma, P, n, hi, hist = mk_periodic(I)
    W = z3.Function("NEWV", I_, R_); new = SArr((N,), lambda idx: W(toz3(idx[0]))); old = SArr((N,), lambda idx: VALF(n - 1, toz3(idx[0])))
    I.assume(z3.And(gamma > 0, gamma <= 1))
    WD, ND = z3.Real("measure_with_discount"), z3.Real("measure_without_discount")
    # the two implementations are verified separately; here only the dispatch is under contract
    contract(f"{PV}._calculate_period_span_without_discount", returns=lambda c: ND, ensures={}, setup=None)
    contract(f"{PV}._calculate_period_span_with_discount", returns=lambda c: WD, ensures={}, setup=None)
    return Ctx(self=s, _args=[new, old, hi, P, hist, n, gamma], P=P, n=n, gamma=gamma, WD=WD, ND=ND)
def post_gps(c, q):
    r = c.result
    if isinstance(r, float) and r == float("inf"): return c.n < c.P                       # infinite measure exactly before a full period has elapsed
    return z3.And(c.n >= c.P, toz3(r) == z3.If(c.gamma == 1, c.ND, c.WD))
contract(f"{PV}._get_periodic_span", setup=setup_gps, ensures={"infinite_before_a_full_period_else_the_documented_measure_for_gamma": post_gps})

from contracts.rvi import SOLV
def setup_pinit(I):
    s, Pb, dims, gamma = mk_solver(I, "PeriodicValueIteration", "mdpax.solvers.periodic_value_iteration")
    I.call(I.getattr(s, "_setup_jax_functions"), [], {})
    P = z3.Int("period"); I.assume(P >= 1)
    s.attrs.update({"period": P, "batched_states": prepared(Pb, dims)})
    return Ctx(self=s, _args=[], P=P)
def post_pinit(c, q):
    s = c.self; x = z3.Int("s!pi"); q.hyps += [x >= 0, x < N]
    h = s.attrs["value_history"]
    return z3.And(toz3(s.attrs["iteration"]) == 0, toz3(s.attrs["history_index"]) == 0, z3.BoolVal(s.attrs["policy"] is None),
                  toz3(h.shape[0]) == c.P + 1, toz3(h.shape[1]) == N, toz3(h.get((0, x))) == INITV(ST(x)), toz3(s.attrs["values"].get((x,))) == INITV(ST(x)))
contract(f"{PV}._initialize_solver_state_elements", setup=setup_pinit, ensures={"ring_buffer_of_period_plus_one_rows_slot0_holds_initial_values": post_pinit})

def setup_pthr(I):
    from pyvc.interp import FormatSpec
    mod = I.load_module("mdpax.solvers.periodic_value_iteration").globals
    e = z3.Real("epsilon"); I.assume(e > 0)
    s = Obj(mod["PeriodicValueIteration"], {"epsilon": e}, label="solver")
    return Ctx(self=s, _args=[], e=e)
import contracts.logging_configs      # contract of get_convergence_format (callers only need "a valid spec")
contract(f"{PV}._setup_convergence_testing", setup=setup_pthr,
    ensures={"threshold_is_epsilon": lambda c, q: toz3(c.self.attrs["conv_threshold"]) == c.e,
             "test_is_the_periodic_span": lambda c, q: z3.BoolVal(c.self.attrs["_convergence_test_fn"].qualname.endswith("_get_periodic_span"))})
def setup_clear(flag):
    def setup(I):
        mod = I.load_module("mdpax.solvers.periodic_value_iteration").globals
        s = Obj(mod["PeriodicValueIteration"], {"clear_value_history_on_convergence": flag, "value_history": SArr((2, N), lambda idx: 0)}, label="solver")
        return Ctx(self=s, _args=[], flag=flag)
    return setup
contract(f"{PV}._clear_value_history", scenarios=[("on.", setup_clear(True)), ("off.", setup_clear(False))], modifies={"value_history"},
    ensures={"cleared_iff_flag": lambda c, q: z3.BoolVal((c.self.attrs["value_history"] is None) == c.flag)})

# ---- _setup_config: period and the clearing flag come from the configuration
def setup_pcfg(I):
    from contracts.spec_mdp import ProblemStub
    mod = I.load_module("mdpax.solvers.periodic_value_iteration").globals
    P = z3.Int("period"); flag = z3.Bool("clear_flag"); g, e = z3.Real("gamma"), z3.Real("epsilon")
    cfg = Obj(mod["PeriodicValueIterationConfig"], dict(_target_="t", problem=None, gamma=g, epsilon=e, max_batch_size=z3.Int("mbs"), jax_double_precision=True, verbose=0, checkpoint_dir=None,
              checkpoint_frequency=0, max_checkpoints=1, enable_async_checkpointing=True, period=P, clear_value_history_on_convergence=flag), label="config")
    Pb = ProblemStub(I); s = Obj(mod["PeriodicValueIteration"], {}, label="solver")
    return Ctx(self=s, _args=[Pb.obj, cfg], P=P, flag=flag)
contract(f"{PV}._setup_config", setup=setup_pcfg,
    ensures={"period_and_clear_flag_from_config": lambda c, q: z3.And(toz3(c.self.attrs["period"]) == c.P, toz3(c.self.attrs["clear_value_history_on_convergence"]) == c.flag)})
