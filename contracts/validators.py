"""Both-direction contracts for every config validator (C20). Domain predicates are written from the docstrings/property text."""
import z3
from pyvc.contract import contract, Ctx
from pyvc.values import *
from pyvc.interp import EnumSym

def R_(n): return z3.Real(n)
def I_(n): return z3.Int(n)
COMMON = lambda f: [f["epsilon"] > 0, f["max_batch_size"] > 0, f["checkpoint_frequency"] >= 0, f["max_checkpoints"] >= 0, f["verbose"] >= 0, f["verbose"] <= 4]
def common_fields():
    return dict(_target_="t", problem=None, gamma=R_("gamma"), epsilon=R_("epsilon"), max_batch_size=I_("max_batch_size"), jax_double_precision=True, verbose=I_("verbose"),
                checkpoint_dir=None, checkpoint_frequency=I_("checkpoint_frequency"), max_checkpoints=I_("max_checkpoints"), enable_async_checkpointing=True)
SPECS = {
 "mdpax.solvers.policy_iteration.PolicyIterationConfig": (lambda: dict(common_fields(), max_eval_iter=I_("max_eval_iter"), convergence_test=EnumSym("ct", ["span", "max_diff"]), reset_values_for_each_policy_eval=False),
     lambda f: z3.And(f["gamma"] >= 0, f["gamma"] <= 1, *COMMON(f), f["max_eval_iter"] > 0, z3.Or(f["convergence_test"].eq("span"), f["convergence_test"].eq("max_diff")))),
 "mdpax.solvers.relative_value_iteration.RelativeValueIterationConfig": (lambda: common_fields(),
     lambda f: z3.And(f["gamma"] == 1, *COMMON(f))),
 "mdpax.solvers.periodic_value_iteration.PeriodicValueIterationConfig": (lambda: dict(common_fields(), period=I_("period"), clear_value_history_on_convergence=True),
     lambda f: z3.And(f["period"] > 0, z3.Implies(f["gamma"] == 1, f["period"] >= 2), f["gamma"] >= 0, f["gamma"] <= 1, *COMMON(f))),
 "mdpax.solvers.semi_async_value_iteration.SemiAsyncValueIterationConfig": (lambda: dict(common_fields(), convergence_test=EnumSym("ct", ["span", "max_diff"]), shuffle_states=False, random_seed=I_("seed")),
     lambda f: z3.And(f["gamma"] >= 0, f["gamma"] <= 1, *COMMON(f), z3.Or(f["convergence_test"].eq("span"), f["convergence_test"].eq("max_diff")))),
 "mdpax.problems.forest.ForestConfig": (lambda: dict(_target_="t", S=I_("S"), r1=R_("r1"), r2=R_("r2"), p=R_("p")),
     lambda f: z3.And(f["S"] > 0, f["p"] >= 0, f["p"] <= 1)),
 "mdpax.problems.perishable_inventory.de_moor_single_product.DeMoorSingleProductPerishableConfig": (lambda: dict(_target_="t", max_demand=I_("max_demand"), demand_gamma_mean=R_("mean"), demand_gamma_cov=R_("cov"),
        max_useful_life=I_("m"), lead_time=I_("L"), max_order_quantity=I_("Q"), variable_order_cost=R_("c1"), shortage_cost=R_("c2"), wastage_cost=R_("c3"), holding_cost=R_("c4"), issue_policy=EnumSym("issue", ["fifo", "lifo"])),
     lambda f: z3.And(f["max_demand"] > 0, f["demand_gamma_mean"] > 0, f["demand_gamma_cov"] > 0, f["max_useful_life"] >= 1, f["lead_time"] >= 1, f["max_order_quantity"] > 0, z3.Or(f["issue_policy"].eq("fifo"), f["issue_policy"].eq("lifo")))),
 "mdpax.problems.perishable_inventory.hendrix_two_product.HendrixTwoProductPerishableConfig": (lambda: dict(_target_="t", max_useful_life=I_("m"), demand_poisson_mean_a=R_("ma"), demand_poisson_mean_b=R_("mb"), substitution_probability=R_("sub"),
        variable_order_cost_a=R_("ca"), variable_order_cost_b=R_("cb"), sales_price_a=R_("pa"), sales_price_b=R_("pb"), max_order_quantity_a=I_("Qa"), max_order_quantity_b=I_("Qb")),
     lambda f: z3.And(f["max_useful_life"] >= 1, f["demand_poisson_mean_a"] > 0, f["demand_poisson_mean_b"] > 0, f["substitution_probability"] >= 0, f["substitution_probability"] <= 1, f["max_order_quantity_a"] > 0, f["max_order_quantity_b"] > 0)),
}
def mk(target, fields_fn, dom_fn):
    mod, cls = target.rsplit(".", 1)
    def setup(I):
        c = I.load_module(mod).globals[cls]; f = fields_fn()
        return Ctx(self=Obj(c, f, label="cfg"), _args=[], dom=dom_fn(f))
    contract(f"{target}.__post_init__", setup=setup, raises=[("ValueError", lambda c, q: z3.Not(c.dom)), ("TypeError", lambda c, q: z3.Not(c.dom))],
             ensures={"accepted_implies_domain": lambda c, q: c.dom})
for t, (ff, df) in SPECS.items(): mk(t, ff, df)

# ---- Mirjalili config: tuple-valued fields; lengths are per scenario (concrete), entries and the integer fields symbolic
MJC = "mdpax.problems.perishable_inventory.mirjalili_platelet.MirjaliliPlateletPerishableConfig"
def mk_mj(ln, ld, l0, l1):
    def setup(I):
        c = I.load_module("mdpax.problems.perishable_inventory.mirjalili_platelet").globals["MirjaliliPlateletPerishableConfig"]
        f = dict(_target_="t", max_demand=I_("max_demand"), weekday_demand_negbin_n=tuple(R_(f"n{i}") for i in range(ln)), weekday_demand_negbin_delta=tuple(R_(f"d{i}") for i in range(ld)),
                 max_useful_life=I_("m"), useful_life_at_arrival_distribution_c_0=tuple(R_(f"c0_{i}") for i in range(l0)), useful_life_at_arrival_distribution_c_1=tuple(R_(f"c1_{i}") for i in range(l1)),
                 max_order_quantity=I_("Q"), variable_order_cost=R_("v"), fixed_order_cost=R_("k"), shortage_cost=R_("s"), wastage_cost=R_("w"), holding_cost=R_("h"))
        dom = z3.And(f["max_demand"] > 0, z3.BoolVal(ln == 7), *[x > 0 for x in f["weekday_demand_negbin_n"]], z3.BoolVal(ld == 7), *[x > 0 for x in f["weekday_demand_negbin_delta"]],
                     f["max_useful_life"] >= 1, f["max_useful_life"] - 1 == l0, f["max_useful_life"] - 1 == l1, f["max_order_quantity"] > 0)
        return Ctx(self=Obj(c, f, label="cfg"), _args=[], dom=dom)
    return setup
contract(f"{MJC}.__post_init__", scenarios=[(f"n{ln}d{ld}c{l0}{l1}.", mk_mj(ln, ld, l0, l1)) for ln, ld, l0, l1 in [(7, 7, 2, 2), (6, 7, 2, 2), (7, 6, 1, 1), (7, 7, 2, 1), (7, 7, 0, 0), (7, 7, 1, 3)]],
         raises=[("ValueError", lambda c, q: z3.Not(c.dom)), ("TypeError", lambda c, q: z3.Not(c.dom))], ensures={"accepted_implies_domain": lambda c, q: c.dom})

# ---- verbosity mapping and Solver.set_verbosity
def setup_verb(I):
    v = z3.Int("verbose"); return Ctx(self=None, _args=[v], v=v)
LEVELS = ["ERROR", "WARNING", "INFO", "DEBUG", "TRACE"]
def post_verb(c, q):
    r = c.result
    if isinstance(r, str):      # on a path the key is concrete after path splitting
        return z3.And(c.v >= 0, c.v <= 4, c.v == LEVELS.index(r)) if r in LEVELS else z3.BoolVal(False)
    return z3.BoolVal(False)
contract("mdpax.utils.logging.verbosity_to_loguru_level", setup=setup_verb,
         raises=[("ValueError", lambda c, q: z3.Or(c.v < 0, c.v > 4))],
         ensures={"levels_0_to_4_map_to_the_five_names": post_verb})
