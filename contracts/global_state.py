"""Frame obligation for every property quantified over problems / solver instances / call histories: no function of the package keeps state in
a module-level mutable object (a cache shared between instances makes the result of one call depend on earlier calls of OTHER objects,
which no per-call contract can see).  Script-type unit, backend label frame-analysis(AST)."""
import ast, os, sys, json, time
SRC = os.environ.get("MDPAX_SRC", "/repo/src") + "/mdpax"
MUTATORS = {"append", "extend", "update", "setdefault", "pop", "popitem", "clear", "add", "remove", "discard", "insert", "__setitem__"}
results = []; t0 = time.time()
def ob(name, ok, detail):
    results.append({"name": name, "path": "static", "status": "proved" if ok else "refuted", "backend": "frame-analysis(AST)", "secs": 0.0, "lemmas": 0, "detail": detail,
                    "model": None if ok else {"detail": detail}, "canary": False, "guard": False, "known_finding": None, "smt2": None, "meta": {}})
def is_mutable_ctor(v):
    if isinstance(v, (ast.Dict, ast.List, ast.Set, ast.DictComp, ast.ListComp, ast.SetComp)): return True
    if isinstance(v, ast.Call):
        f = v.func; nm = f.id if isinstance(f, ast.Name) else (f.attr if isinstance(f, ast.Attribute) else "")
        return nm in ("dict", "list", "set", "defaultdict", "OrderedDict", "deque", "Counter", "WeakValueDictionary", "WeakKeyDictionary", "lru_cache", "cache")
    return False
for dp, _, fs in os.walk(SRC):
    for f in sorted(fs):
        if not f.endswith(".py"): continue
        path = os.path.join(dp, f); mod = "mdpax." + os.path.relpath(path, SRC)[:-3].replace("/", ".")
        tree = ast.parse(open(path).read())
        containers = set()
        for n in tree.body:
            tg = None
            if isinstance(n, ast.Assign) and len(n.targets) == 1 and isinstance(n.targets[0], ast.Name): tg, val = n.targets[0].id, n.value
            elif isinstance(n, ast.AnnAssign) and isinstance(n.target, ast.Name) and n.value is not None: tg, val = n.target.id, n.value
            if tg and is_mutable_ctor(val): containers.add(tg)
        bad = []
        # class-level mutable attributes (shared by all instances) that a method mutates through self / cls / the class name without ever rebinding them per instance
        for cd in [x for x in ast.walk(tree) if isinstance(x, ast.ClassDef)]:
            cattrs = set()
            for n in cd.body:
                if isinstance(n, ast.Assign) and len(n.targets) == 1 and isinstance(n.targets[0], ast.Name) and is_mutable_ctor(n.value): cattrs.add(n.targets[0].id)
                elif isinstance(n, ast.AnnAssign) and isinstance(n.target, ast.Name) and n.value is not None and is_mutable_ctor(n.value): cattrs.add(n.target.id)
            if not cattrs: continue
            rebound = {n.attr for n in ast.walk(cd) if isinstance(n, ast.Attribute) and isinstance(n.ctx, ast.Store) and isinstance(n.value, ast.Name) and n.value.id == "self"}
            def shared(e):            # self.X / cls.X / ClassName.X / type(self).X / self.__class__.X with X a class-level container never rebound on the instance
                return isinstance(e, ast.Attribute) and e.attr in cattrs and e.attr not in rebound and ast.unparse(e.value) in ("self", "cls", cd.name, "type(self)", "self.__class__")
            for fn in [x for x in ast.walk(cd) if isinstance(x, (ast.FunctionDef, ast.AsyncFunctionDef))]:
                for n in ast.walk(fn):
                    if isinstance(n, ast.Subscript) and isinstance(n.ctx, (ast.Store, ast.Del)) and shared(n.value): bad.append(f"{cd.name}.{fn.name}: {ast.unparse(n.value)}[...] = ... (class-level container)")
                    if isinstance(n, ast.AugAssign) and shared(n.target): bad.append(f"{cd.name}.{fn.name}: {ast.unparse(n.target)} op= ... (class-level container)")
                    if isinstance(n, ast.Call) and isinstance(n.func, ast.Attribute) and n.func.attr in MUTATORS and shared(n.func.value): bad.append(f"{cd.name}.{fn.name}: {ast.unparse(n.func.value)}.{n.func.attr}(...) (class-level container)")
        for fn in [x for x in ast.walk(tree) if isinstance(x, (ast.FunctionDef, ast.AsyncFunctionDef))]:
            for n in ast.walk(fn):
                if isinstance(n, ast.Global): bad.append(f"{fn.name}: global {', '.join(n.names)}")
                if isinstance(n, ast.Subscript) and isinstance(n.ctx, (ast.Store, ast.Del)) and isinstance(n.value, ast.Name) and n.value.id in containers: bad.append(f"{fn.name}: {n.value.id}[...] = ...")
                if isinstance(n, ast.AugAssign) and isinstance(n.target, ast.Name) and n.target.id in containers: bad.append(f"{fn.name}: {n.target.id} op= ...")
                if isinstance(n, ast.Call) and isinstance(n.func, ast.Attribute) and isinstance(n.func.value, ast.Name) and n.func.value.id in containers and n.func.attr in MUTATORS: bad.append(f"{fn.name}: {n.func.value.id}.{n.func.attr}(...)")
            for d in fn.decorator_list:       # memoising decorators keep per-process state as well
                dn = ast.unparse(d)
                if any(k in dn for k in ("lru_cache", "functools.cache", "cached_property", "memoize")) or dn == "cache": bad.append(f"{fn.name}: @{dn}")
        ob(f"{mod}.frame.no_module_level_mutable_state", not bad, "functions that keep state in a module-level or class-level object shared between instances: " + "; ".join(sorted(set(bad))) if bad else "")
rep = {"target": "global_state", "unit": "global_state", "results": results, "error": None, "paths": len(results), "pruned": 0,
       "function": {"name": "module-level mutable state scan over every module of the package", "lines": [0, 0], "sha256": ""}, "wall_s": round(time.time() - t0, 3)}
sys.stdout.write("\n@@REPORT@@" + json.dumps(rep) + "\n")
