"""Contracts for the probability code of the shipped problems (C13 sum-to-one by construction, C16 plumbing)."""
import z3
from pyvc.contract import contract, Ctx
from pyvc.values import *
from pyvc import reduce as R

DM = "mdpax.problems.perishable_inventory.de_moor_single_product.DeMoorSingleProductPerishable"
def setup_dp(I):
    cls = I.load_module("mdpax.problems.perishable_inventory.de_moor_single_product").globals["DeMoorSingleProductPerishable"]
    D = z3.Int("max_demand"); a, b = z3.Reals("gamma_alpha gamma_beta")
    I.assume(z3.And(D >= 1, a > 0, b > 0))
    p = Obj(cls, {"max_demand": D}, label="problem")
    return Ctx(self=p, _args=[a, b], D=D, a=a, b=b, I=I)
def F(c, x): return c.I.dist["GCDF"](c.a, c.b, x)
def pt(i): return z3.If(i <= 0, z3.RealVal(0), z3.ToReal(i) - z3.RealVal("0.5"))         # grid 0, 1/2, 3/2, ..., D+1/2
def lib_facts(c, q, pts):
    """assumed contract of a cdf: values in [0,1], non-decreasing (instantiated at the points needed), Gamma cdf(0)=0"""
    out = [F(c, z3.RealVal(0)) == 0]
    for x in pts: out += [F(c, x) >= 0, F(c, x) <= 1]
    for x in pts:
        for y in pts: out.append(z3.Implies(x <= y, F(c, x) <= F(c, y)))
    return out
def telescope(c):
    """instance of Lean `telescope`: Σ_{i<D+1} (F(pt(i+1)) - F(pt(i))) = F(pt(D+1)) - F(pt(0))"""
    n = c.D + 1
    return R.mk("sum", n, lambda i: F(c, pt(i + 1)) - F(c, pt(i))) == F(c, pt(n)) - F(c, pt(z3.IntVal(0)))
def post_bins(c, q):
    d = z3.Int("d!p"); q.hyps += [d >= 0, d < c.D]
    return z3.And(toz3(c.result.shape[0]) == c.D + 1, toz3(c.result.get((d,))) == F(c, pt(d + 1)) - F(c, pt(d)))
def post_last(c, q):
    q.hyps += [telescope(c)] + lib_facts(c, q, [])
    return toz3(c.result.get((c.D,))) == 1 - F(c, pt(c.D))               # censored tail: P(demand = max) = 1 - F(max - 1/2)
def post_sum(c, q):
    q.hyps += [telescope(c)]
    return R.mk("sum", c.D + 1, lambda i: toz3(c.result.get((i,)))) == 1
def post_nonneg(c, q):
    d = z3.Int("d!n"); q.hyps += [d >= 0, d <= c.D, telescope(c)] + lib_facts(c, q, [pt(d), pt(d + 1), pt(c.D), pt(c.D + 1)])
    return toz3(c.result.get((d,))) >= 0
contract(f"{DM}._calculate_demand_probabilities", setup=setup_dp,
    ensures={"bins_are_cdf_differences_at_half_integers": post_bins, "last_bin_is_censored_tail": post_last, "sums_to_one": post_sum, "nonnegative": post_nonneg})

def setup_cg(I):
    cls = I.load_module("mdpax.problems.perishable_inventory.de_moor_single_product").globals["DeMoorSingleProductPerishable"]
    mean, cov = z3.Reals("mean cov"); I.assume(z3.And(mean > 0, cov > 0))
    return Ctx(self=Obj(cls, {}, label="problem"), _args=[mean, cov], mean=mean, cov=cov)
contract(f"{DM}._convert_gamma_parameters", setup=setup_cg,
    ensures={"mean_is_alpha_over_beta": lambda c, q: toz3(c.result[0]) / toz3(c.result[1]) == c.mean,
             "cov_squared_is_one_over_alpha": lambda c, q: 1 / toz3(c.result[0]) == c.cov * c.cov})

# De Moor: the event's probability is the demand bin of the event's demand component; independent of state and action
def setup_dm_rep(I):
    cls = I.load_module("mdpax.problems.perishable_inventory.de_moor_single_product").globals["DeMoorSingleProductPerishable"]
    D = z3.Int("max_demand"); I.assume(D >= 1); DP = z3.Function("demand_probabilities", z3.IntSort(), z3.RealSort())
    p = Obj(cls, {"max_demand": D, "demand_probabilities": SArr((D + 1,), lambda idx: DP(toz3(idx[0])))}, label="problem")
    d = z3.Int("demand"); I.assume(z3.And(d >= 0, d <= D))
    return Ctx(self=p, _args=[arr_from_list([z3.Int("s0")]), arr_from_list([z3.Int("q")]), arr_from_list([d])], DP=DP, d=d)
def scalar(v): return toz3(v.get(tuple(0 for _ in v.shape)) if isinstance(v, SArr) else v)
contract(f"{DM}.random_event_probability", setup=setup_dm_rep, ensures={"is_bin_of_the_demand": lambda c, q: scalar(c.result) == c.DP(c.d)})

# ------------------------------------------------------------------ Forest
FO = "mdpax.problems.forest.Forest"
def setup_fo_init(I):
    cls = I.load_module("mdpax.problems.forest").globals["Forest"]
    p_ = z3.Real("p"); I.assume(z3.And(p_ >= 0, p_ <= 1))            # the validated domain (ForestConfig.__post_init__, C20)
    cfg = Obj("cfg", {"S": z3.Int("S"), "r1": z3.Real("r1"), "r2": z3.Real("r2"), "p": p_}, label="config")
    I.assume(cfg.attrs["S"] >= 1)
    o = Obj(cls, {}, label="problem")
    I.call(I.get_func(f"{FO}.__init__").bind(o), [cfg], {})          # real constructor builds the table (spaces come from the real _construct_* too)
    act, ev = z3.Ints("action event"); I.assume(z3.And(act >= 0, act <= 1, ev >= 0, ev <= 1))
    return Ctx(self=o, _args=[arr_from_list([z3.Int("age")]), arr_from_list([act]), arr_from_list([ev])], p=p_, act=act, ev=ev, I=I)
def fo_prob(c, act, ev):
    return toz3(c.I.call(c.I.getattr(c.self, "random_event_probability"), [arr_from_list([z3.Int("age")]), arr_from_list([act]), arr_from_list([ev])], {}))
contract(f"{FO}.random_event_probability", setup=setup_fo_init,
    ensures={"fire_probability_p_when_waiting_0_when_cutting": lambda c, q: toz3(c.result) == z3.If(c.act == 0, z3.If(c.ev == 1, c.p, 1 - c.p), z3.If(c.ev == 1, z3.RealVal(0), z3.RealVal(1))),
             "nonnegative": lambda c, q: toz3(c.result) >= 0,
             "row_sums_to_one": lambda c, q: fo_prob(c, c.act, z3.IntVal(0)) + fo_prob(c, c.act, z3.IntVal(1)) == 1})

# ------------------------------------------------------------------ Mirjalili
MJ = "mdpax.problems.perishable_inventory.mirjalili_platelet.MirjaliliPlateletPerishable"
def mj_obj(I, m=None):
    cls = I.load_module("mdpax.problems.perishable_inventory.mirjalili_platelet").globals["MirjaliliPlateletPerishable"]
    D = z3.Int("max_demand"); I.assume(D >= 1)
    NW = z3.Function("negbin_n", z3.IntSort(), z3.RealSort()); DW = z3.Function("negbin_delta", z3.IntSort(), z3.RealSort())
    attrs = {"max_demand": D, "weekday_demand_negbin_n": SArr((7,), lambda idx: NW(toz3(idx[0]))), "weekday_demand_negbin_delta": SArr((7,), lambda idx: DW(toz3(idx[0])))}
    if m is not None:
        attrs.update({"max_useful_life": m, "useful_life_at_arrival_distribution_c_0": arr_from_list([z3.Real(f"c0_{i}") for i in range(m - 1)]),
                      "useful_life_at_arrival_distribution_c_1": arr_from_list([z3.Real(f"c1_{i}") for i in range(m - 1)])})
    o = Obj(cls, attrs, label="problem")
    if m is not None:
        # the derived attributes come from the REAL set-up hook (not hand-built), so that code which precomputes something there is covered
        for k in range(7): I.assume(z3.And(NW(k) > 0, DW(k) > 0))
        I.call(I.getattr(o, "_setup_before_space_construction"), [], {})
    return o, D, NW, DW
def setup_mj_p(I):
    o, D, NW, DW = mj_obj(I, 2)
    return Ctx(self=o, _args=[], NW=NW, DW=DW)
def post_mj_p(c, q):
    w = z3.Int("w!p"); q.hyps += [w >= 0, w <= 6, c.NW(w) > 0, c.DW(w) > 0]
    pw = toz3(c.self.attrs["weekday_demand_negbin_p"].get((w,)))
    return z3.And(pw == c.NW(w) / (c.NW(w) + c.DW(w)),                              # success probability n / (n + delta)
                  c.NW(w) * (1 - pw) / pw == c.DW(w))                                 # hence NegBin(total_count=n, probs=1-p) has mean n(1-p)/p = delta
contract(f"{MJ}._setup_before_space_construction", setup=setup_mj_p, ensures={"success_probability_and_mean_delta": post_mj_p})
def setup_mj_dp(I):
    o, D, NW, DW = mj_obj(I); PW = z3.Function("negbin_p", z3.IntSort(), z3.RealSort())
    o.attrs["weekday_demand_negbin_p"] = SArr((7,), lambda idx: PW(toz3(idx[0])))
    w = z3.Int("weekday"); I.assume(z3.And(w >= 0, w <= 6))
    return Ctx(self=o, _args=[w], D=D, NW=NW, PW=PW, w=w, I=I)
def nb(c, k): return c.I.dist["NBPMF"](c.NW(c.w), 1 - c.PW(c.w), k)
def nb_facts(c, pts):
    """assumed contract of a pmf: values >= 0 and every partial sum <= 1 (instantiated where needed)"""
    return [nb(c, k) >= 0 for k in pts] + [R.mk("sum", c.D, lambda k: nb(c, k)) <= 1, R.mk("sum", c.D, lambda k: nb(c, k)) >= 0]
def post_mj_bins(c, q):
    d = z3.Int("d!m"); q.hyps += [d >= 0, d < c.D]
    return z3.And(toz3(c.result.shape[0]) == c.D + 1, toz3(c.result.get((d,))) == nb(c, d))
def mj_unroll(c): return R.mk("sum", c.D + 1, lambda k: nb(c, k)) == R.mk("sum", c.D, lambda k: nb(c, k)) + nb(c, c.D)      # one unrolling of the partial sum
contract(f"{MJ}._calculate_demand_probabilities", setup=setup_mj_dp,
    ensures={"bins_are_negative_binomial_pmf_with_total_count_n_probs_1_minus_p": post_mj_bins,
             "last_bin_is_censored_tail": lambda c, q: (q.hyps.append(mj_unroll(c)), toz3(c.result.get((c.D,))) == 1 - R.mk("sum", c.D, lambda k: nb(c, k)))[1],
             "sums_to_one": lambda c, q: (q.hyps.append(mj_unroll(c)), R.mk("sum", c.D + 1, lambda i: toz3(c.result.get((i,)))) == 1)[1],
             "nonnegative": lambda c, q: (lambda d: (q.hyps.extend([d >= 0, d <= c.D, mj_unroll(c)] + nb_facts(c, [d])), toz3(c.result.get((d,))) >= 0)[1])(z3.Int("d!n"))})
def setup_mj_logits(m):
    def setup(I):
        o, D, NW, DW = mj_obj(I, m); qn = z3.Int("order")
        return Ctx(self=o, _args=[arr_from_list([qn])], m=m, qn=qn, c0=[z3.Real(f"c0_{i}") for i in range(m - 1)], c1=[z3.Real(f"c1_{i}") for i in range(m - 1)])
    return setup
def logit_spec(c, j):
    """stock ordering: position 0 = youngest (remaining life m) ... position m-1 = oldest (life 1, logit 0); life L in 2..m has logit c0[L-2] + c1[L-2]*order"""
    L = c.m - j
    return z3.RealVal(0) if L == 1 else c.c0[L - 2] + c.c1[L - 2] * z3.ToReal(c.qn)
contract(f"{MJ}._get_multinomial_logits", scenarios=[(f"m{m}.", setup_mj_logits(m)) for m in range(1, 6)],
    ensures={"logits_linear_in_order_reversed_to_stock_ordering": lambda c, q: z3.And(z3.BoolVal(concrete_int(c.result.shape[0]) == c.m), *[scalar(A.arr_subscript(c.result, (j,))) == logit_spec(c, j) for j in range(c.m)])})
from pyvc.models import arrays as A
def setup_mj_rec(m):
    def setup(I):
        o, D, NW, DW = mj_obj(I, m); qn = z3.Int("order"); rec = [z3.Int(f"r{i}") for i in range(m)]
        I.assume(z3.And(qn >= 0, *[r >= 0 for r in rec]))
        return Ctx(self=o, _args=[arr_from_list([qn]), arr_from_list(rec)], m=m, qn=qn, rec=rec, c0=[z3.Real(f"c0_{i}") for i in range(m - 1)], c1=[z3.Real(f"c1_{i}") for i in range(m - 1)], I=I)
    return setup
def mult_spec(c): return c.I.dist["MULT"][c.m](*[logit_spec(c, j) for j in range(c.m)], c.qn, *c.rec)
contract(f"{MJ}._calculate_received_order_probabilities", scenarios=[(f"m{m}.", setup_mj_rec(m)) for m in range(1, 6)],
    ensures={"multinomial_pmf_if_split_sums_to_order_else_zero": lambda c, q: scalar(c.result) == z3.If(sum(c.rec[1:], c.rec[0]) == c.qn, mult_spec(c), z3.RealVal(0))})
def setup_mj_rep(m):
    def setup(I):
        o, D, NW, DW = mj_obj(I, m); PW = z3.Function("negbin_p", z3.IntSort(), z3.RealSort()); o.attrs["weekday_demand_negbin_p"] = SArr((7,), lambda idx: PW(toz3(idx[0])))
        for nm in ("state", "action", "random_event"): o.attrs[f"{nm}_component_lookup"] = I.call(I.getattr(o, f"_construct_{nm}_component_lookup"), [], {})
        w, qn, d = z3.Ints("weekday order demand"); rec = [z3.Int(f"r{i}") for i in range(m)]; stock = [z3.Int(f"s{i}") for i in range(m - 1)]
        I.assume(z3.And(w >= 0, w <= 6, qn >= 0, d >= 0, d <= D, *[r >= 0 for r in rec]))          # every listed demand, INCLUDING the censored last bin d == max_demand
        return Ctx(self=o, _args=[arr_from_list([w] + stock), arr_from_list([qn]), arr_from_list([d] + rec)], m=m, qn=qn, rec=rec, d=d, w=w, D=D, NW=NW, PW=PW,
                   c0=[z3.Real(f"c0_{i}") for i in range(m - 1)], c1=[z3.Real(f"c1_{i}") for i in range(m - 1)], I=I)
    return setup
contract(f"{MJ}.random_event_probability", scenarios=[(f"m{m}.", setup_mj_rep(m)) for m in range(1, 6)],
    ensures={"censored_negbin_of_the_weekday_times_multinomial_split_of_the_order": lambda c, q:
                 # demand factor: the negative binomial pmf below max_demand, all remaining mass (1 - sum of the bins below) AT max_demand
                 (q.hyps.append(mj_unroll(c)),
                  scalar(c.result) == z3.If(c.d < c.D, nb(c, c.d), 1 - R.mk("sum", c.D, lambda k: nb(c, k))) * z3.If(sum(c.rec[1:], c.rec[0]) == c.qn, mult_spec(c), z3.RealVal(0)))[1]})

# ------------------------------------------------------------------ Hendrix: initial value = expected one-step sales revenue under the event distribution
HX = "mdpax.problems.perishable_inventory.hendrix_two_product.HendrixTwoProductPerishable"
def setup_hx_iv(I):
    cls = I.load_module("mdpax.problems.perishable_inventory.hendrix_two_product").globals["HendrixTwoProductPerishable"]
    nE = z3.Int("n_events"); I.assume(nE >= 1); pa, pb = z3.Reals("sales_price_a sales_price_b")
    EVS = z3.Function("event", z3.IntSort(), z3.IntSort(), z3.IntSort()); PRH = z3.Function("P_event_given_state", z3.IntSort(), z3.RealSort())
    ev = SArr((nE, 2), lambda idx: EVS(toz3(idx[0]), toz3(idx[1])))
    o = Obj(cls, {"_random_event_space": ev, "sales_prices": arr_from_list([pa, pb])}, label="problem")
    seen = []
    def prob(state, action, e):          # the four-case joint distribution is bounded-only (C13/C16 harness); here: whatever it returns for event row i
        k = e.get((0,)); seen.append(action)
        i = [a for a in k.children()][0] if is_z3(k) and k.num_args() == 2 else None
        return PRH(i) if i is not None else PRH(z3.Int("?"))
    o.attrs["random_event_probability"] = Builtin(prob, "random_event_probability")
    return Ctx(self=o, _args=[arr_from_list([z3.Int("s0"), z3.Int("s1")])], nE=nE, pa=pa, pb=pb, EVS=EVS, PRH=PRH)
contract(f"{HX}.initial_value", setup=setup_hx_iv,
    ensures={"expected_one_step_sales_revenue": lambda c, q: toz3(c.result) == R.mk("sum", c.nE, lambda i: c.PRH(i) * (z3.ToReal(c.EVS(i, 0)) * c.pa + z3.ToReal(c.EVS(i, 1)) * c.pb))})
# other problems inherit Problem.initial_value == 0.0
def setup_iv0(I):
    cls = I.load_module("mdpax.problems.forest").globals["Forest"]
    return Ctx(self=Obj(cls, {}, label="problem"), _args=[arr_from_list([z3.Int("s0")])])
contract("mdpax.core.problem.Problem.initial_value", setup=setup_iv0, ensures={"zero": lambda c, q: toz3(c.result) == 0})

# ------------------------------------------------------------------ Hendrix: the documented four-case decomposition of the joint distribution of units issued
# (plumbing only: Poisson pmf/cdf uninterpreted, the total-demand-for-A table pz - filled by Python loops over scipy calls - is an arbitrary table;
#  its contents and the truncation are covered by the bounded harness)
def setup_hx_rep(m):
    def setup(I):
        cls = I.load_module("mdpax.problems.perishable_inventory.hendrix_two_product").globals["HendrixTwoProductPerishable"]
        Qa, Qb = z3.Ints("Qa Qb"); ma, mb = z3.Reals("mean_a mean_b"); I.assume(z3.And(Qa >= 1, Qb >= 1, ma > 0, mb > 0))
        o = Obj(cls, {"max_useful_life": m, "max_order_quantity_a": Qa, "max_order_quantity_b": Qb, "demand_poisson_mean_a": ma, "demand_poisson_mean_b": mb}, label="problem")
        I.call(I.getattr(o, "_setup_before_space_construction"), [], {})            # real hook: max_stock_a/b, max_demand, component lookups
        I.call(I.getattr(o, "_construct_random_event_space"), [], {})               # real: the event index function
        Sa, Sb, MD = toz3(o.attrs["max_stock_a"]), toz3(o.attrs["max_stock_b"]), toz3(o.attrs["max_demand"])
        PZ = z3.Function("pz_table", z3.IntSort(), z3.IntSort(), z3.RealSort())
        o.attrs["pz"] = SArr((MD + 1, Sb + 1), lambda idx: PZ(toz3(idx[0]), toz3(idx[1])))
        sa = [z3.Int(f"a{i}") for i in range(m)]; sb = [z3.Int(f"b{i}") for i in range(m)]; ia, ib = z3.Ints("issued_a issued_b")
        for x in sa: I.assume(z3.And(x >= 0, x <= Qa))
        for x in sb: I.assume(z3.And(x >= 0, x <= Qb))
        I.assume(z3.And(ia >= 0, ia <= Sa, ib >= 0, ib <= Sb))                      # a listed event
        return Ctx(self=o, _args=[arr_from_list(sa + sb), arr_from_list([z3.Int("qa"), z3.Int("qb")]), arr_from_list([ia, ib])], sa=sum(sa[1:], sa[0]), sb=sum(sb[1:], sb[0]),
                   ia=ia, ib=ib, Sa=Sa, Sb=Sb, MD=MD, PZ=PZ, ma=ma, mb=mb, I=I)
    return setup
def hx_spec(c):
    PA = lambda k: c.I.dist["POISPMF"](c.ma, k); PB = lambda k: c.I.dist["POISPMF"](c.mb, k); CDFA = lambda k: c.I.dist["POISCDF"](c.ma, k)
    b = lambda cond: z3.If(cond, z3.RealVal(1), z3.RealVal(0))
    tail = R.mk("sum", c.MD + 1, lambda z: c.PZ(z, c.sb) * b(z >= c.sa))           # P(total demand for A incl. substitution >= stock of A), truncated table
    return (b(z3.And(c.ia < c.sa, c.ib < c.sb)) * PA(c.ia) * PB(c.ib)
            + b(z3.And(c.ia == c.sa, c.ib < c.sb)) * (1 - CDFA(c.sa - 1)) * PB(c.ib)
            + b(z3.And(c.ia < c.sa, c.ib == c.sb)) * c.PZ(c.ia, c.sb)
            + b(z3.And(c.ia == c.sa, c.ib == c.sb)) * tail)
contract(f"{HX}.random_event_probability", scenarios=[(f"m{m}.", setup_hx_rep(m)) for m in (1, 2)],
    ensures={"four_case_decomposition_of_units_issued": lambda c, q: scalar(c.result) == hx_spec(c)})

def setup_hx_case(I):
    c = setup_hx_rep(1)(I); sa, sb = z3.Ints("stock_a stock_b"); I.assume(z3.And(sa >= 0, sa <= c.Sa, sb >= 0, sb <= c.Sb))
    c["sa"], c["sb"] = sa, sb; c["_args"] = [sa, sb]
    return c
def case_post(k):
    def post(c, q):
        PA = lambda x: c.I.dist["POISPMF"](c.ma, x); PB = lambda x: c.I.dist["POISPMF"](c.mb, x); CDFA = lambda x: c.I.dist["POISCDF"](c.ma, x)
        b = lambda cond: z3.If(cond, z3.RealVal(1), z3.RealVal(0)); ia, ib = c.ia, c.ib
        want = [b(z3.And(ia < c.sa, ib < c.sb)) * PA(ia) * PB(ib), b(z3.And(ia == c.sa, ib < c.sb)) * (1 - CDFA(c.sa - 1)) * PB(ib),
                b(z3.And(ia < c.sa, ib == c.sb)) * c.PZ(ia, c.sb), b(z3.And(ia == c.sa, ib == c.sb)) * R.mk("sum", c.MD + 1, lambda z: c.PZ(z, c.sb) * b(z >= c.sa))][k]
        r = c.result
        return z3.And(toz3(r.shape[0]) == c.Sa + 1, toz3(r.shape[1]) == c.Sb + 1, toz3(r.get((ia, ib))) == want)
    return post
for k, nm in enumerate(["_get_probs_ia_lt_stock_a_ib_lt_stock_b", "_get_probs_ia_eq_stock_a_ib_lt_stock_b", "_get_probs_ia_lt_stock_a_ib_eq_stock_b", "_get_probs_ia_eq_stock_a_ib_eq_stock_b"]):
    contract(f"{HX}.{nm}", setup=setup_hx_case, ensures={"documented_case_formula": case_post(k)})
