"""Contracts for the probability code of the shipped problems (C13 sum-to-one by construction, C16 plumbing)."""
import z3
from pyvc.contract import contract, Ctx
from pyvc.values import *
from pyvc import reduce as R

DM = "mdpax.problems.perishable_inventory.de_moor_single_product.DeMoorSingleProductPerishable"
def setup_dp(I):
    cls = I.load_module("mdpax.problems.perishable_inventory.de_moor_single_product").globals["DeMoorSingleProductPerishable"]
    D = z3.Int("max_demand"); a, b = z3.Reals("gamma_alpha gamma_beta")
    I.assume(z3.And(D >= 1, a > 0, b > 0))
    p = Obj(cls, {"max_demand": D}, label="problem")
    return Ctx(self=p, _args=[a, b], D=D, a=a, b=b, I=I)
def F(c, x): return c.I.dist["GCDF"](c.a, c.b, x)
def pt(i): return z3.If(i <= 0, z3.RealVal(0), z3.ToReal(i) - z3.RealVal("0.5"))         # grid 0, 1/2, 3/2, ..., D+1/2
def lib_facts(c, q, pts):
    """assumed contract of a cdf: values in [0,1], non-decreasing (instantiated at the points needed), Gamma cdf(0)=0"""
    out = [F(c, z3.RealVal(0)) == 0]
    for x in pts: out += [F(c, x) >= 0, F(c, x) <= 1]
    for x in pts:
        for y in pts: out.append(z3.Implies(x <= y, F(c, x) <= F(c, y)))
    return out
def telescope(c):
    """instance of Lean `telescope`: Σ_{i<D+1} (F(pt(i+1)) - F(pt(i))) = F(pt(D+1)) - F(pt(0))"""
    n = c.D + 1
    return R.mk("sum", n, lambda i: F(c, pt(i + 1)) - F(c, pt(i))) == F(c, pt(n)) - F(c, pt(z3.IntVal(0)))
def post_bins(c, q):
    d = z3.Int("d!p"); q.hyps += [d >= 0, d < c.D]
    return z3.And(toz3(c.result.shape[0]) == c.D + 1, toz3(c.result.get((d,))) == F(c, pt(d + 1)) - F(c, pt(d)))
def post_last(c, q):
    q.hyps += [telescope(c)] + lib_facts(c, q, [])
    return toz3(c.result.get((c.D,))) == 1 - F(c, pt(c.D))               # censored tail: P(demand = max) = 1 - F(max - 1/2)
def post_sum(c, q):
    q.hyps += [telescope(c)]
    return R.mk("sum", c.D + 1, lambda i: toz3(c.result.get((i,)))) == 1
def post_nonneg(c, q):
    d = z3.Int("d!n"); q.hyps += [d >= 0, d <= c.D, telescope(c)] + lib_facts(c, q, [pt(d), pt(d + 1), pt(c.D), pt(c.D + 1)])
    return toz3(c.result.get((d,))) >= 0
contract(f"{DM}._calculate_demand_probabilities", setup=setup_dp,
    ensures={"bins_are_cdf_differences_at_half_integers": post_bins, "last_bin_is_censored_tail": post_last, "sums_to_one": post_sum, "nonnegative": post_nonneg})

def setup_cg(I):
    cls = I.load_module("mdpax.problems.perishable_inventory.de_moor_single_product").globals["DeMoorSingleProductPerishable"]
    mean, cov = z3.Reals("mean cov"); I.assume(z3.And(mean > 0, cov > 0))
    return Ctx(self=Obj(cls, {}, label="problem"), _args=[mean, cov], mean=mean, cov=cov)
contract(f"{DM}._convert_gamma_parameters", setup=setup_cg,
    ensures={"mean_is_alpha_over_beta": lambda c, q: toz3(c.result[0]) / toz3(c.result[1]) == c.mean,
             "cov_squared_is_one_over_alpha": lambda c, q: 1 / toz3(c.result[0]) == c.cov * c.cov})
