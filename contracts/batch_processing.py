"""Contracts for mdpax/utils/batch_processing.py (C18)."""
import z3
from pyvc.contract import contract, Ctx
from pyvc.values import *
from pyvc.models import arrays as A

T = "mdpax.utils.batch_processing.BatchProcessor"

def bp_inv(bp):
    D, B, bs, n, pad = (toz3(bp.attrs[k]) for k in ("n_devices", "n_batches", "batch_size", "n_states", "n_pad"))
    return z3.And(D >= 1, B >= 1, bs >= 1, n >= 1, pad >= 0, D * B * bs == n + pad)

def setup_init(with_count):
    def setup(I):
        cls = I.load_module("mdpax.utils.batch_processing").globals["BatchProcessor"]
        n, sd, M, Dev = z3.Ints("n_states state_dim max_batch_size jax_device_count")
        I.env_device_count = Dev
        I.assume(Dev >= 1)
        args = dict(n_states=n, state_dim=sd, max_batch_size=M)
        if with_count:
            pdc = z3.Int("pmap_device_count"); args["pmap_device_count"] = pdc
        else: pdc = None
        return Ctx(self=Obj(cls, {}, label="bp"), _kwargs=args, n_states=n, state_dim=sd, max_batch_size=M, pmap_device_count=pdc, Dev=Dev)
    return setup

contract(f"{T}.__init__",
    scenarios=[("count_none.", setup_init(False)), ("count_given.", setup_init(True))],
    requires=lambda c, q: z3.And(c.n_states >= 1, c.max_batch_size >= 1, c.state_dim >= 1, *( [c.pmap_device_count >= 1] if c.pmap_device_count is not None else [])),
    ensures={
        "devices": lambda c, q: toz3(c.self.attrs["n_devices"]) == (c.Dev if c.pmap_device_count is None else c.pmap_device_count),
        "bs_range": lambda c, q: z3.And(toz3(c.self.attrs["batch_size"]) >= 1, toz3(c.self.attrs["batch_size"]) <= c.max_batch_size),
        "batches": lambda c, q: toz3(c.self.attrs["n_batches"]) >= 1,
        "slots": lambda c, q: toz3(c.self.attrs["n_devices"]) * toz3(c.self.attrs["n_batches"]) * toz3(c.self.attrs["batch_size"]) == c.n_states + toz3(c.self.attrs["n_pad"]),
        "pad_nonneg": lambda c, q: toz3(c.self.attrs["n_pad"]) >= 0,
        "no_waste": lambda c, q: z3.Or(toz3(c.self.attrs["n_batches"]) == 1,
                                       toz3(c.self.attrs["n_devices"]) * (toz3(c.self.attrs["n_batches"]) - 1) * toz3(c.self.attrs["batch_size"]) < c.n_states),
        "stored": lambda c, q: z3.And(toz3(c.self.attrs["n_states"]) == c.n_states, toz3(c.self.attrs["state_dim"]) == c.state_dim),
        # canary: must be refuted
        "CANARY_bs_strict": lambda c, q: toz3(c.self.attrs["batch_size"]) < c.max_batch_size,
    })

def mk_bp(I):
    cls = I.load_module("mdpax.utils.batch_processing").globals["BatchProcessor"]
    D, B, bs, n, pad, sd = z3.Ints("D B bs N n_pad state_dim")
    bp = Obj(cls, dict(n_devices=D, n_batches=B, batch_size=bs, n_states=n, n_pad=pad, state_dim=sd), label="bp")
    I.assume(bp_inv(bp)); I.assume(sd >= 1)
    return bp, (D, B, bs, n, pad, sd)

def setup_prepare(I):
    bp, (D, B, bs, n, pad, sd) = mk_bp(I)
    ST = z3.Function("ST", z3.IntSort(), z3.IntSort(), z3.IntSort())
    states = SArr((n, sd), lambda idx: ST(toz3(idx[0]), toz3(idx[1])), name="states")
    return Ctx(self=bp, _args=[states], states=states, dims=(D, B, bs, n, pad, sd), ST=ST)

def prepare_post(c, q):
    D, B, bs, n, pad, sd = c.dims; r = c.result
    shape_ok = z3.And(*[toz3(a) == toz3(b) for a, b in zip(r.shape, (D, B, bs, sd))]) if r.ndim == 4 else z3.BoolVal(False)
    def body(d): return q.forall(0, B, lambda b: q.forall(0, bs, lambda j: q.forall(0, sd, lambda k:
                    toz3(r.get((d, b, j, k))) == z3.If((d * B + b) * bs + j < n, c.ST((d * B + b) * bs + j, k), 0))))
    return z3.And(shape_ok, q.forall(0, D, body))
contract(f"{T}.prepare_batches", setup=setup_prepare, returns=lambda c: prepare_returns(c), ensures={"layout": prepare_post})

def setup_unbatch(rank_extra):
    def setup(I):
        bp, (D, B, bs, n, pad, sd) = mk_bp(I)
        extra = [z3.Int(f"t{i}") for i in range(rank_extra)]
        for e in extra: I.assume(e >= 1)
        RES = z3.Function(f"RES{rank_extra}", *([z3.IntSort()] * (3 + rank_extra)), z3.RealSort())
        res = SArr((D, B, bs) + tuple(extra), lambda idx: RES(*[toz3(i) for i in idx]), name="batched")
        return Ctx(self=bp, _args=[res], dims=(D, B, bs, n, pad, sd), RES=RES, extra=extra)
    return setup
def unbatch_post(c, q):
    D, B, bs, n, pad, sd = c.dims; r = c.result; k = len(c.extra)
    if r.ndim != 1 + k: return z3.BoolVal(False)
    shp = z3.And(toz3(r.shape[0]) == n, *[toz3(a) == b for a, b in zip(r.shape[1:], c.extra)])
    s = z3.Int("s!u"); q.hyps += [s >= 0, s < n]
    d, b, j = A.unravel(s, (D, B, bs))          # THE digits of s (row-major layout is a bijection: Lean ravel_bijective)
    ext = [z3.Int(f"e!u{i}") for i in range(k)]
    q.hyps += [z3.And(e >= 0, e < m) for e, m in zip(ext, c.extra)]
    return z3.And(shp, toz3(r.get((s,) + tuple(ext))) == c.RES(d, b, j, *ext))
def unbatch_returns(c):
    bp = c["self"]; x = c["batched_results"]
    D, B, bs, n = (bp.attrs[k] for k in ("n_devices", "n_batches", "batch_size", "n_states"))
    return SArr((n,) + tuple(x.shape[3:]), lambda idx: x.get(tuple(A.unravel(idx[0], (D, B, bs))) + tuple(idx[1:])))
def prepare_returns(c):
    bp = c["self"]; st = c["states"]
    D, B, bs, n, pad, sd = (bp.attrs[k] for k in ("n_devices", "n_batches", "batch_size", "n_states", "n_pad", "state_dim"))
    if st.vec is not None:
        flat = vec_array((toz3(n) + toz3(pad), sd), lambda l: z3.If(toz3(l[0]) < toz3(n), st.vec((l[0],)), ZVEC))
    else:
        flat = SArr((toz3(n) + toz3(pad), sd), lambda idx: A.Ite(toz3(idx[0]) < toz3(n), st.get(tuple(idx)), 0))
    return A.reshape(flat, (D, B, bs, sd))
contract(f"{T}.unbatch_results", returns=unbatch_returns,
    scenarios=[(f"rank{3+k}.", setup_unbatch(k)) for k in (0, 1, 2)],
    ensures={"rows": unbatch_post})

# ---- batch_shape (property)
def setup_shape(I):
    bp, dims = mk_bp(I)
    return Ctx(self=bp, _args=[], dims=dims)
contract(f"{T}.batch_shape", setup=setup_shape,
    returns=lambda c: (c["self"].attrs["n_devices"], c["self"].attrs["n_batches"], c["self"].attrs["batch_size"]),
    ensures={"is_D_B_bs": lambda c, q: z3.And(z3.BoolVal(isinstance(c.result, tuple) and len(c.result) == 3),
                                               *[toz3(x) == y for x, y in zip(c.result, c.dims[:3])]) if isinstance(c.result, tuple) and len(c.result) == 3 else z3.BoolVal(False),
             "CANARY_swapped": lambda c, q: z3.And(toz3(c.result[0]) == c.dims[1], toz3(c.result[1]) == c.dims[0])})
