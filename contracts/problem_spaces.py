"""C14: the shipped problems' spaces have the documented sizes, the index function maps every listed state to its own row and every
in-box vector to the row that holds it (so a closed transition is never silently clipped onto a different state).
Per dimension instance (state dimension <= 4, order limits symbolic and unbounded); the real _construct_*_space bodies and the real
create_range_space / index_fn closure are executed (no contract in between)."""
import z3, itertools
from pyvc.contract import contract, Ctx
from pyvc.values import *
from pyvc.models import arrays as A

DM = "mdpax.problems.perishable_inventory.de_moor_single_product.DeMoorSingleProductPerishable"
HX = "mdpax.problems.perishable_inventory.hendrix_two_product.HendrixTwoProductPerishable"
MJ = "mdpax.problems.perishable_inventory.mirjalili_platelet.MirjaliliPlateletPerishable"
FO = "mdpax.problems.forest.Forest"

def build(I, target, attrs, spaces=("state", "action", "random_event")):
    mod, cls = target.rsplit(".", 1)
    p = Obj(I.load_module(mod).globals[cls], dict(attrs), label="problem")
    built = {}
    for nm in spaces:
        sp = I.call(I.getattr(p, f"_construct_{nm}_space"), [], {})
        built[nm] = I.call(I.getattr(p, "_ensure_2d_space"), [sp], {})           # as Problem.__init__ does
    return p, built
def common_posts(maxs_of, sizes_of):
    def rows(c, q):
        sp = c.built["state"]; want = A.prod([toz3(h) + 1 for h in maxs_of(c)])
        return z3.And(sp.ndim == 2, toz3(sp.shape[0]) == want, toz3(sp.shape[1]) == len(maxs_of(c)))
    def own_row(c, q):
        sp = c.built["state"]; i = z3.Int("row!p"); q.hyps += [i >= 0, i < toz3(sp.shape[0])]
        return toz3(c.I.call(c.I.getattr(c.self, "state_to_index"), [A.arr_subscript(sp, (i,))], {})) == i
    def in_box(c, q):
        sp = c.built["state"]; hs = maxs_of(c); v = [z3.Int(f"v{k}") for k in range(len(hs))]
        q.hyps += [z3.And(x >= 0, x <= toz3(h)) for x, h in zip(v, hs)]
        idx = toz3(c.I.call(c.I.getattr(c.self, "state_to_index"), [arr_from_list(v)], {}))
        return z3.And(idx >= 0, idx < toz3(sp.shape[0]), *[toz3(sp.get((idx, k))) == v[k] for k in range(len(hs))])
    def sizes(c, q):
        conj = []
        for nm, want in sizes_of(c).items():
            sp = c.built[nm]; conj.append(toz3(sp.shape[0]) == toz3(want)); conj.append(z3.BoolVal(sp.ndim == 2))
        return z3.And(*conj) if conj else z3.BoolVal(True)
    return {"state_space_rows_are_the_box_size": rows, "listed_state_maps_to_its_own_row": own_row,
            "in_box_vector_maps_to_the_row_holding_it": in_box, "action_and_event_space_sizes": sizes,
            "CANARY_off_by_one_row": lambda c, q: (lambda sp, i: (q.hyps.extend([i >= 0, i < toz3(sp.shape[0]) - 1]), toz3(c.I.call(c.I.getattr(c.self, "state_to_index"), [A.arr_subscript(sp, (i,))], {})) == i + 1)[1])(c.built["state"], z3.Int("row!c"))}

# ---- De Moor: state dimension m + L - 1 <= 4
def setup_dm(m, L):
    def setup(I):
        Q, D = z3.Ints("max_order_quantity max_demand"); I.assume(z3.And(Q >= 1, D >= 1))
        p, built = build(I, DM, {"max_useful_life": m, "lead_time": L, "max_order_quantity": Q, "max_demand": D})
        return Ctx(self=p, _args=[arr_from_list([z3.Int(f"s{k}") for k in range(m + L - 1)])], built=built, Q=Q, D=D, dim=m + L - 1, I=I)
    return setup
contract(f"{DM}.state_to_index", scenarios=[(f"m{m}L{L}.", setup_dm(m, L)) for m in range(1, 5) for L in range(1, 5) if m + L - 1 <= 4],
    ensures=common_posts(lambda c: [c.Q] * c.dim, lambda c: {"action": c.Q + 1, "random_event": c.D + 1}))
# ---- Hendrix: state dimension 2m <= 4
def setup_hx(m):
    def setup(I):
        Qa, Qb = z3.Ints("Qa Qb"); I.assume(z3.And(Qa >= 1, Qb >= 1))
        p, built = build(I, HX, {"max_useful_life": m, "max_order_quantity_a": Qa, "max_order_quantity_b": Qb, "max_stock_a": Qa * m, "max_stock_b": Qb * m})
        return Ctx(self=p, _args=[arr_from_list([z3.Int(f"s{k}") for k in range(2 * m)])], built=built, Qa=Qa, Qb=Qb, m=m, I=I)
    return setup
contract(f"{HX}.state_to_index", scenarios=[(f"m{m}.", setup_hx(m)) for m in (1, 2)],
    ensures=common_posts(lambda c: [c.Qa] * c.m + [c.Qb] * c.m, lambda c: {"action": (c.Qa + 1) * (c.Qb + 1), "random_event": (c.Qa * c.m + 1) * (c.Qb * c.m + 1)}))
# ---- Mirjalili: state dimension m <= 4 (weekday 0..6, then m-1 stock components); the event space (boolean-mask filter) is bounded-only
def setup_mj(m):
    def setup(I):
        Q = z3.Int("max_order_quantity"); I.assume(Q >= 1)
        p, built = build(I, MJ, {"max_useful_life": m, "max_order_quantity": Q}, spaces=("state", "action"))
        return Ctx(self=p, _args=[arr_from_list([z3.Int(f"s{k}") for k in range(m)])], built=built, Q=Q, m=m, I=I)
    return setup
contract(f"{MJ}.state_to_index", scenarios=[(f"m{m}.", setup_mj(m)) for m in (1, 2, 3, 4)],
    ensures=common_posts(lambda c: [z3.IntVal(6)] + [c.Q] * (c.m - 1), lambda c: {"action": c.Q + 1}))
# ---- Forest: index = age
def setup_fo(I):
    S = z3.Int("S"); I.assume(S >= 1)
    p, built = build(I, FO, {"S": S})
    return Ctx(self=p, _args=[arr_from_list([z3.Int("age")])], built=built, S=S, I=I)
contract(f"{FO}.state_to_index", setup=setup_fo,
    ensures=common_posts(lambda c: [c.S - 1], lambda c: {"action": 2, "random_event": 2}))

# ------------------------------------------------------------------ whole problem constructors (real __init__ incl. config validation, set-up hooks, spaces)
# what the rest of the problem-level contracts ASSUME about the object (cost vector order, issuing function, limits) is what the constructor establishes
def cfg_obj(I, target_cfg, fields):
    mod, cls = target_cfg.rsplit(".", 1)
    return Obj(I.load_module(mod).globals[cls], dict(fields, _target_="t"), label="config")
def setup_dm_init(m, L, pol):
    def setup(I):
        Q, D = z3.Ints("max_order_quantity max_demand"); mean, cov = z3.Reals("mean cov"); c = [z3.Real(f"cost{i}") for i in range(4)]
        I.assume(z3.And(Q >= 1, D >= 1, mean > 0, cov > 0))
        cfg = cfg_obj(I, DM + "Config", dict(max_demand=D, demand_gamma_mean=mean, demand_gamma_cov=cov, max_useful_life=m, lead_time=L, max_order_quantity=Q,
                      variable_order_cost=c[0], shortage_cost=c[1], wastage_cost=c[2], holding_cost=c[3], issue_policy=pol))
        cls = I.load_module(DM.rsplit(".", 1)[0]).globals[DM.rsplit(".", 1)[1]]
        return Ctx(self=Obj(cls, {}, label="problem"), _args=[cfg], c=c, Q=Q, D=D, m=m, L=L, pol=pol, I=I)
    return setup
def post_dm_init(c, q):
    o = c.self; cc = o.attrs["cost_components"]
    ok = z3.And(*[toz3(cc.get((i,))) == c.c[i] for i in range(4)], toz3(o.attrs["max_order_quantity"]) == c.Q, toz3(o.attrs["max_demand"]) == c.D,
                toz3(o.attrs["_state_space"].shape[1]) == c.m + c.L - 1, toz3(o.attrs["_action_space"].shape[0]) == c.Q + 1, toz3(o.attrs["_random_event_space"].shape[0]) == c.D + 1,
                toz3(o.attrs["demand_probabilities"].shape[0]) == c.D + 1)
    issue = o.attrs["_issue_stock"].qualname.endswith("_issue_fifo" if c.pol == "fifo" else "_issue_lifo")
    return z3.And(ok, z3.BoolVal(bool(issue)))
contract(f"{DM}.__init__", scenarios=[(f"m{m}L{L}{pol}.", setup_dm_init(m, L, pol)) for m, L, pol in [(1, 1, "fifo"), (2, 2, "lifo"), (3, 1, "fifo")]],
    ensures={"cost_vector_order_issuing_function_limits_and_space_sizes": post_dm_init})
def setup_mj_init(m):
    def setup(I):
        Q, D = z3.Ints("max_order_quantity max_demand"); c = [z3.Real(f"cost{i}") for i in range(5)]; I.assume(z3.And(Q >= 1, D >= 1))
        ns = tuple(z3.Real(f"n{i}") for i in range(7)); ds = tuple(z3.Real(f"d{i}") for i in range(7))
        for x in ns + ds: I.assume(x > 0)
        cfg = cfg_obj(I, MJ + "Config", dict(max_demand=D, weekday_demand_negbin_n=ns, weekday_demand_negbin_delta=ds, max_useful_life=m,
                      useful_life_at_arrival_distribution_c_0=tuple(z3.Real(f"c0_{i}") for i in range(m - 1)), useful_life_at_arrival_distribution_c_1=tuple(z3.Real(f"c1_{i}") for i in range(m - 1)),
                      max_order_quantity=Q, variable_order_cost=c[0], fixed_order_cost=c[1], shortage_cost=c[2], wastage_cost=c[3], holding_cost=c[4]))
        cls = I.load_module(MJ.rsplit(".", 1)[0]).globals[MJ.rsplit(".", 1)[1]]
        # the event space is built with a boolean-mask filter (bounded-only): stub that one constructor step
        o = Obj(cls, {"_construct_random_event_space": Builtin(lambda: SArr((z3.Int("n_events"), m + 1), lambda idx: z3.Int("ev")), "event_space_stub")}, label="problem")
        return Ctx(self=o, _args=[cfg], c=c, Q=Q, D=D, m=m, ns=ns, ds=ds, I=I)
    return setup
def post_mj_init(c, q):
    o = c.self; cc = o.attrs["cost_components"]
    return z3.And(*[toz3(cc.get((i,))) == c.c[i] for i in range(5)], toz3(o.attrs["max_order_quantity"]) == c.Q, toz3(o.attrs["max_demand"]) == c.D,
                  toz3(o.attrs["_state_space"].shape[1]) == c.m, toz3(o.attrs["_action_space"].shape[0]) == c.Q + 1,
                  *[toz3(o.attrs["weekday_demand_negbin_p"].get((w,))) == c.ns[w] / (c.ns[w] + c.ds[w]) for w in range(7)])
contract(f"{MJ}.__init__", scenarios=[(f"m{m}.", setup_mj_init(m)) for m in (1, 3)],
    ensures={"cost_vector_order_limits_space_sizes_and_success_probabilities": post_mj_init})
def setup_hx_init(m):
    def setup(I):
        Qa, Qb = z3.Ints("Qa Qb"); ma, mb, sub, ca, cb, pa, pb = z3.Reals("mean_a mean_b sub cost_a cost_b price_a price_b")
        I.assume(z3.And(Qa >= 1, Qb >= 1, ma > 0, mb > 0, sub >= 0, sub <= 1))
        cfg = cfg_obj(I, HX + "Config", dict(max_useful_life=m, demand_poisson_mean_a=ma, demand_poisson_mean_b=mb, substitution_probability=sub, variable_order_cost_a=ca, variable_order_cost_b=cb,
                      sales_price_a=pa, sales_price_b=pb, max_order_quantity_a=Qa, max_order_quantity_b=Qb))
        cls = I.load_module(HX.rsplit(".", 1)[0]).globals[HX.rsplit(".", 1)[1]]
        # the two table builders _calculate_pu / _calculate_pz are seen through their own contracts (contracts/hendrix_tables.py, proved as separate units);
        # the real _setup_after_space_construction body is inlined (its contract is popped for this unit in props.py)
        o = Obj(cls, {}, label="problem")
        return Ctx(self=o, _args=[cfg], Qa=Qa, Qb=Qb, ca=ca, cb=cb, pa=pa, pb=pb, m=m, I=I, ma=ma, mb=mb, sub=sub)
    return setup
def post_hx_init(c, q):
    o = c.self; vc, sp = o.attrs["variable_order_costs"], o.attrs["sales_prices"]
    MDmax = z3.If(c.Qa >= c.Qb, c.Qa, c.Qb)
    return z3.And(toz3(vc.get((0,))) == c.ca, toz3(vc.get((1,))) == c.cb, toz3(sp.get((0,))) == c.pa, toz3(sp.get((1,))) == c.pb,
                  toz3(o.attrs["max_stock_a"]) == c.Qa * c.m, toz3(o.attrs["max_stock_b"]) == c.Qb * c.m, toz3(o.attrs["max_demand"]) == c.m * (MDmax + 2),
                  toz3(o.attrs["_state_space"].shape[1]) == 2 * c.m, toz3(o.attrs["_action_space"].shape[0]) == (c.Qa + 1) * (c.Qb + 1),
                  toz3(o.attrs["_random_event_space"].shape[0]) == (c.Qa * c.m + 1) * (c.Qb * c.m + 1))
import contracts.hendrix_tables as HT
from pyvc import reduce as R
def post_hx_tables(c, q):
    """the constructed problem holds the documented tables for ITS parameters: pu = Poisson demand for B thinned by binomial substitution, pz = its convolution with Poisson demand for A"""
    x = HT._cx({"self": c.self}); z, y = z3.Ints("z!i y!i"); q.hyps += [z >= 0, z <= x.MD, y >= 0, y <= x.Sb]; a = c.self.attrs; POIS = x.I.dist["POISPMF"]
    x["ma"], x["mb"], x["ps"] = c.ma, c.mb, c.sub                      # the CONFIGURED parameters, not whatever the object stored
    return z3.And(toz3(a["pu"].get((z, y))) == HT.PUspec(x, z, y), toz3(a["pz"].get((z, y))) == R.mk("sum", z + 1, lambda k: POIS(c.ma, k) * HT.PUspec(x, z - k, y)))
contract(f"{HX}.__init__", scenarios=[(f"m{m}.", setup_hx_init(m)) for m in (1, 2)],
    ensures={"cost_and_price_vectors_stock_limits_truncation_point_and_space_sizes": post_hx_init, "substitution_and_total_demand_tables_for_the_configured_parameters": post_hx_tables})
def setup_fo_init(I):
    S = z3.Int("S"); r1, r2, p = z3.Reals("r1 r2 p"); I.assume(z3.And(S >= 1, p >= 0, p <= 1))
    cfg = cfg_obj(I, FO + "Config", dict(S=S, r1=r1, r2=r2, p=p))
    cls = I.load_module(FO.rsplit(".", 1)[0]).globals[FO.rsplit(".", 1)[1]]
    return Ctx(self=Obj(cls, {}, label="problem"), _args=[cfg], S=S, r1=r1, r2=r2, p=p, I=I)
contract(f"{FO}.__init__", setup=setup_fo_init,
    ensures={"parameters_and_space_sizes": lambda c, q: z3.And(toz3(c.self.attrs["S"]) == c.S, toz3(c.self.attrs["r1"]) == c.r1, toz3(c.self.attrs["r2"]) == c.r2, toz3(c.self.attrs["p"]) == c.p,
                 toz3(c.self.attrs["_state_space"].shape[0]) == c.S, toz3(c.self.attrs["_action_space"].shape[0]) == 2, toz3(c.self.attrs["_random_event_space"].shape[0]) == 2)})
