"""C14: the shipped problems' spaces have the documented sizes, the index function maps every listed state to its own row and every
in-box vector to the row that holds it (so a closed transition is never silently clipped onto a different state).
Per dimension instance (state dimension <= 4, order limits symbolic and unbounded); the real _construct_*_space bodies and the real
create_range_space / index_fn closure are executed (no contract in between)."""
import z3, itertools
from pyvc.contract import contract, Ctx
from pyvc.values import *
from pyvc.models import arrays as A

DM = "mdpax.problems.perishable_inventory.de_moor_single_product.DeMoorSingleProductPerishable"
HX = "mdpax.problems.perishable_inventory.hendrix_two_product.HendrixTwoProductPerishable"
MJ = "mdpax.problems.perishable_inventory.mirjalili_platelet.MirjaliliPlateletPerishable"
FO = "mdpax.problems.forest.Forest"

def build(I, target, attrs, spaces=("state", "action", "random_event")):
    mod, cls = target.rsplit(".", 1)
    p = Obj(I.load_module(mod).globals[cls], dict(attrs), label="problem")
    built = {}
    for nm in spaces:
        sp = I.call(I.getattr(p, f"_construct_{nm}_space"), [], {})
        built[nm] = I.call(I.getattr(p, "_ensure_2d_space"), [sp], {})           # as Problem.__init__ does
    return p, built
def common_posts(maxs_of, sizes_of):
    def rows(c, q):
        sp = c.built["state"]; want = A.prod([toz3(h) + 1 for h in maxs_of(c)])
        return z3.And(sp.ndim == 2, toz3(sp.shape[0]) == want, toz3(sp.shape[1]) == len(maxs_of(c)))
    def own_row(c, q):
        sp = c.built["state"]; i = z3.Int("row!p"); q.hyps += [i >= 0, i < toz3(sp.shape[0])]
        return toz3(c.I.call(c.I.getattr(c.self, "state_to_index"), [A.arr_subscript(sp, (i,))], {})) == i
    def in_box(c, q):
        sp = c.built["state"]; hs = maxs_of(c); v = [z3.Int(f"v{k}") for k in range(len(hs))]
        q.hyps += [z3.And(x >= 0, x <= toz3(h)) for x, h in zip(v, hs)]
        idx = toz3(c.I.call(c.I.getattr(c.self, "state_to_index"), [arr_from_list(v)], {}))
        return z3.And(idx >= 0, idx < toz3(sp.shape[0]), *[toz3(sp.get((idx, k))) == v[k] for k in range(len(hs))])
    def sizes(c, q):
        conj = []
        for nm, want in sizes_of(c).items():
            sp = c.built[nm]; conj.append(toz3(sp.shape[0]) == toz3(want)); conj.append(z3.BoolVal(sp.ndim == 2))
        return z3.And(*conj) if conj else z3.BoolVal(True)
    return {"state_space_rows_are_the_box_size": rows, "listed_state_maps_to_its_own_row": own_row,
            "in_box_vector_maps_to_the_row_holding_it": in_box, "action_and_event_space_sizes": sizes,
            "CANARY_off_by_one_row": lambda c, q: (lambda sp, i: (q.hyps.extend([i >= 0, i < toz3(sp.shape[0]) - 1]), toz3(c.I.call(c.I.getattr(c.self, "state_to_index"), [A.arr_subscript(sp, (i,))], {})) == i + 1)[1])(c.built["state"], z3.Int("row!c"))}

# ---- De Moor: state dimension m + L - 1 <= 4
def setup_dm(m, L):
    def setup(I):
        Q, D = z3.Ints("max_order_quantity max_demand"); I.assume(z3.And(Q >= 1, D >= 1))
        p, built = build(I, DM, {"max_useful_life": m, "lead_time": L, "max_order_quantity": Q, "max_demand": D})
        return Ctx(self=p, _args=[arr_from_list([z3.Int(f"s{k}") for k in range(m + L - 1)])], built=built, Q=Q, D=D, dim=m + L - 1, I=I)
    return setup
contract(f"{DM}.state_to_index", scenarios=[(f"m{m}L{L}.", setup_dm(m, L)) for m in range(1, 5) for L in range(1, 5) if m + L - 1 <= 4],
    ensures=common_posts(lambda c: [c.Q] * c.dim, lambda c: {"action": c.Q + 1, "random_event": c.D + 1}))
# ---- Hendrix: state dimension 2m <= 4
def setup_hx(m):
    def setup(I):
        Qa, Qb = z3.Ints("Qa Qb"); I.assume(z3.And(Qa >= 1, Qb >= 1))
        p, built = build(I, HX, {"max_useful_life": m, "max_order_quantity_a": Qa, "max_order_quantity_b": Qb, "max_stock_a": Qa * m, "max_stock_b": Qb * m})
        return Ctx(self=p, _args=[arr_from_list([z3.Int(f"s{k}") for k in range(2 * m)])], built=built, Qa=Qa, Qb=Qb, m=m, I=I)
    return setup
contract(f"{HX}.state_to_index", scenarios=[(f"m{m}.", setup_hx(m)) for m in (1, 2)],
    ensures=common_posts(lambda c: [c.Qa] * c.m + [c.Qb] * c.m, lambda c: {"action": (c.Qa + 1) * (c.Qb + 1), "random_event": (c.Qa * c.m + 1) * (c.Qb * c.m + 1)}))
# ---- Mirjalili: state dimension m <= 4 (weekday 0..6, then m-1 stock components); the event space (boolean-mask filter) is bounded-only
def setup_mj(m):
    def setup(I):
        Q = z3.Int("max_order_quantity"); I.assume(Q >= 1)
        p, built = build(I, MJ, {"max_useful_life": m, "max_order_quantity": Q}, spaces=("state", "action"))
        return Ctx(self=p, _args=[arr_from_list([z3.Int(f"s{k}") for k in range(m)])], built=built, Q=Q, m=m, I=I)
    return setup
contract(f"{MJ}.state_to_index", scenarios=[(f"m{m}.", setup_mj(m)) for m in (1, 2, 3, 4)],
    ensures=common_posts(lambda c: [z3.IntVal(6)] + [c.Q] * (c.m - 1), lambda c: {"action": c.Q + 1}))
# ---- Forest: index = age
def setup_fo(I):
    S = z3.Int("S"); I.assume(S >= 1)
    p, built = build(I, FO, {"S": S})
    return Ctx(self=p, _args=[arr_from_list([z3.Int("age")])], built=built, S=S, I=I)
contract(f"{FO}.state_to_index", setup=setup_fo,
    ensures=common_posts(lambda c: [c.S - 1], lambda c: {"action": 2, "random_event": 2}))
