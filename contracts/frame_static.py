"""Frame / ownership obligations for C09, C10 (and C08's 'VAL is a function of the entry state'), computed on the real ASTs:
MRO- and super()-aware read/write sets of `self` attributes across solve() and everything it reaches, the fields captured by
`solver_state`, the fields assigned back by `_restore_state_from_checkpoint`, purity of `save`/`solver_state`.
Script-type unit: prints @@REPORT@@ json in the worker format.  Backend label: frame-analysis(AST)."""
import ast, os, sys, json, time

SRC = os.environ.get("MDPAX_SRC", "/repo/src") + "/mdpax"
FILES = {"Solver": "core/solver.py", "CheckpointMixin": "utils/checkpointing.py", "ValueIteration": "solvers/value_iteration.py",
         "PolicyIteration": "solvers/policy_iteration.py", "RelativeValueIteration": "solvers/relative_value_iteration.py",
         "PeriodicValueIteration": "solvers/periodic_value_iteration.py", "SemiAsyncValueIteration": "solvers/semi_async_value_iteration.py"}
SOLVERS = ["ValueIteration", "PolicyIteration", "RelativeValueIteration", "PeriodicValueIteration", "SemiAsyncValueIteration"]
# stated by the property itself: with shuffling the PRNG key is not part of the saved state
ALLOWED_UNSAVED = {"SemiAsyncValueIteration": {"key"}}
# ghost-free constants: attributes solve() reads that must be fixed by construction (functions of config + problem)
classes, bases = {}, {}
for c, f in FILES.items():
    t = ast.parse(open(f"{SRC}/{f}").read())
    for n in t.body:
        if isinstance(n, ast.ClassDef) and n.name == c:
            classes[c] = {m.name: m for m in n.body if isinstance(m, ast.FunctionDef)}
            bases[c] = [b.id for b in n.bases if isinstance(b, ast.Name) and b.id in FILES]

class_level = {}
for c, f in FILES.items():
    t = ast.parse(open(f"{SRC}/{f}").read())
    for n in t.body:
        if isinstance(n, ast.ClassDef) and n.name == c:
            class_level[c] = {x.id for st in n.body if isinstance(st, (ast.Assign, ast.AnnAssign)) for tg in (st.targets if isinstance(st, ast.Assign) else [st.target]) for x in ast.walk(tg) if isinstance(x, ast.Name)}
def class_attrs(c): return set().union(*[class_level.get(k, set()) for k in mro(c)])
DYNAMIC = ("getattr", "setattr", "delattr", "vars")
def dynamic_access(fn):
    """reason if the function touches attributes of self in a way a syntactic read/write analysis cannot follow (getattr/setattr with computed names, __dict__)"""
    for n in ast.walk(fn):
        if isinstance(n, ast.Call) and isinstance(n.func, ast.Name) and n.func.id in DYNAMIC:
            if len(n.args) >= 2 and isinstance(n.args[1], ast.Constant) and isinstance(n.args[1].value, str) and n.func.id in ("getattr", "setattr"): continue     # constant name: handled as a plain read / write
            return f"{fn.name} uses {n.func.id}() with a computed attribute name"
        if isinstance(n, ast.Attribute) and n.attr in ("__dict__", "__setattr__", "__getattribute__"): return f"{fn.name} touches {n.attr}"
    return None
def not_analysable(cls, entries):
    """reason why the syntactic frame analysis does not apply to this class (-> undecided, the run-time harness decides), or None"""
    for e in entries:
        _, _, seen = analyse(cls, e)
        for (owner, fname) in seen:
            why = dynamic_access(classes[owner][fname])
            if why: return f"{owner}.{why}"
    k, m = lookup(cls, "solver_state")
    rets = [n for n in ast.walk(m) if isinstance(n, ast.Return)]
    def literal(call):
        if not isinstance(call, ast.Call) or call.args or any(kw.arg is None for kw in call.keywords): return False
        return all(literal(kw.value) if isinstance(kw.value, ast.Call) else True for kw in call.keywords)
    if len(rets) != 1 or not literal(rets[0].value) or len(m.body) > 2: return f"{k}.solver_state is not a single literal constructor expression"
    after = None
    while True:
        k, m = lookup(cls, "_restore_state_from_checkpoint", after=after)
        if m is None: break
        arg = m.args.args[1].arg; up = False
        for st in m.body:
            if isinstance(st, ast.Expr) and isinstance(st.value, ast.Constant): continue       # docstring
            if _is_super_restore(st, arg): up = True; continue
            if not (isinstance(st, ast.Assign) and len(st.targets) == 1 and is_self_attr(st.targets[0])): return f"{k}._restore_state_from_checkpoint is not a sequence of plain attribute assignments (and super() calls)"
        if not up: break
        after = k
    return None

def mro(c):
    out = [c]
    for b in bases[c]:
        for x in mro(b):
            if x not in out: out.append(x)
    return out
def lookup(c, name, after=None):
    chain = mro(c)
    if after: chain = chain[chain.index(after) + 1:]
    for k in chain:
        if name in classes[k]: return k, classes[k][name]
    return None, None
def is_self_attr(n): return isinstance(n, ast.Attribute) and isinstance(n.value, ast.Name) and n.value.id == "self"

def analyse(cls, entry, skip=()):
    """(reads, writes, reached) of self attributes over everything reachable from cls.entry through self.<method>/super().<method> (not descending into `skip`)"""
    reads, writes, seen = set(), set(), set()
    def visit(owner, fn):
        if (owner, fn.name) in seen or fn.name in skip: return
        seen.add((owner, fn.name))
        for n in ast.walk(fn):
            if is_self_attr(n):
                k, m = lookup(cls, n.attr)
                if m is not None and not isinstance(n.ctx, ast.Store): visit(k, m); continue
                (writes if isinstance(n.ctx, ast.Store) else reads).add(n.attr)
            if isinstance(n, ast.Call) and isinstance(n.func, ast.Name) and n.func.id in ("getattr", "setattr") and len(n.args) >= 2 and isinstance(n.args[0], ast.Name) and n.args[0].id == "self" \
                    and isinstance(n.args[1], ast.Constant) and isinstance(n.args[1].value, str):
                (writes if n.func.id == "setattr" else reads).add(n.args[1].value)
            if isinstance(n, ast.Subscript) and isinstance(n.ctx, ast.Store) and is_self_attr(n.value): writes.add(n.value.attr)      # in-place store self.x[...] = ...
            if isinstance(n, ast.AugAssign) and is_self_attr(n.target): reads.add(n.target.attr); writes.add(n.target.attr)
            if isinstance(n, ast.Call) and isinstance(n.func, ast.Attribute) and isinstance(n.func.value, ast.Call) and isinstance(n.func.value.func, ast.Name) and n.func.value.func.id == "super":
                k, m = lookup(cls, n.func.attr, after=owner)
                if m is not None: visit(k, m)
    k, m = lookup(cls, entry)
    if m is not None: visit(k, m)
    return reads, writes, seen

def state_paths(cls):
    """path in the solver_state pytree -> attribute of self it is built from, read off the `return State(values=self.x, info=Info(...))` expression"""
    k, m = lookup(cls, "solver_state"); out = {}
    ret = [n for n in ast.walk(m) if isinstance(n, ast.Return)][0].value
    def rec(call, prefix):
        for kw in call.keywords:
            if isinstance(kw.value, ast.Call): rec(kw.value, prefix + (kw.arg,))
            elif is_self_attr(kw.value): out[prefix + (kw.arg,)] = kw.value.attr
            else: out[prefix + (kw.arg,)] = None
    rec(ret, ())
    return out
def _is_super_restore(st, arg):
    """`super()._restore_state_from_checkpoint(<arg>)` as an expression statement"""
    c = st.value if isinstance(st, ast.Expr) else None
    return (isinstance(c, ast.Call) and isinstance(c.func, ast.Attribute) and c.func.attr == "_restore_state_from_checkpoint" and isinstance(c.func.value, ast.Call)
            and isinstance(c.func.value.func, ast.Name) and c.func.value.func.id == "super" and len(c.args) == 1 and isinstance(c.args[0], ast.Name) and c.args[0].id == arg and not c.keywords)
def restore_map(cls, after=None):
    """attribute assigned -> path read from the restored tree (following super()._restore_state_from_checkpoint(state) up the hierarchy)"""
    k, m = lookup(cls, "_restore_state_from_checkpoint", after=after); arg = m.args.args[1].arg; out = {}
    for st in m.body:
        if _is_super_restore(st, arg): out.update(restore_map(cls, after=k))
    for n in ast.walk(m):
        if isinstance(n, ast.Assign) and len(n.targets) == 1 and is_self_attr(n.targets[0]):
            path = []; v = n.value
            while isinstance(v, ast.Attribute): path.append(v.attr); v = v.value
            out[n.targets[0].attr] = tuple(reversed(path)) if isinstance(v, ast.Name) and v.id == arg else None
    return out

results = []
def ob(name, ok, detail="", path="static"):
    results.append({"name": name, "path": path, "status": "proved" if ok else "refuted", "backend": "frame-analysis(AST)", "secs": 0.0, "lemmas": 0, "detail": detail,
                    "model": None if ok else {"detail": detail}, "canary": False, "guard": False, "known_finding": None, "smt2": None, "meta": {}})
def undecided(name, why):
    results.append({"name": name, "path": "static", "status": "unknown", "backend": "frame-analysis(AST)", "secs": 0.0, "lemmas": 0, "detail": "NEEDS-CONTRACT: " + why, "model": None, "canary": False, "guard": False,
                    "known_finding": None, "smt2": None, "meta": {"needs_contract": True}})
NAMES = ["solve.frame.carried_state_is_saved", "solve.frame.everything_else_read_is_fixed_by_construction", "_restore_state_from_checkpoint.assigns_every_saved_field_to_its_own_attribute",
         "_restore_state_from_checkpoint.assigns_nothing_else", "solver_state.pure", "save.frame.writes_no_solver_attribute", "load_checkpoint.frame.writes_only_restored_fields",
         "restore.post.template_covers_saved", "restore.post.template_covers_carried_state"]
t0 = time.time(); funcs = []
for cls in SOLVERS:
    mod = "mdpax." + FILES[cls][:-3].replace("/", ".") + "." + cls
    try: why = not_analysable(cls, ["solve", "solver_state", "_restore_state_from_checkpoint", "save", "load_checkpoint"])
    except Exception as ex: why = f"frame analysis could not read the class ({type(ex).__name__}: {ex})"
    if why:
        # the code is outside the shape this syntactic analysis understands (generic / table-driven state handling): UNDECIDED, never a violation
        for nm in NAMES: undecided(f"{mod}.{nm}", "the syntactic frame analysis does not apply: " + why)
        continue
    r, w, seen = analyse(cls, "solve"); carried = r & w
    ri, wi, _ = analyse(cls, "__init__")
    paths = state_paths(cls); saved = {a for a in paths.values() if a}; rmap = restore_map(cls)
    ob(f"{mod}.solve.frame.carried_state_is_saved", not (carried - saved - ALLOWED_UNSAVED.get(cls, set())),
       f"carried={sorted(carried)} saved={sorted(saved)} not saved: {sorted(carried - saved - ALLOWED_UNSAVED.get(cls, set()))}")
    ca = class_attrs(cls)              # class-level attributes (tables, type references) are fixed by construction too
    ob(f"{mod}.solve.frame.everything_else_read_is_fixed_by_construction", not ((r - carried) - wi - ca - {"checkpoint_dir"}),
       f"read by solve, never written by solve, not written by __init__: {sorted((r - carried) - wi - ca)}")
    ob(f"{mod}._restore_state_from_checkpoint.assigns_every_saved_field_to_its_own_attribute",
       all(rmap.get(attr) == path for path, attr in paths.items() if attr), f"solver_state paths {paths} restore map {rmap}")
    ob(f"{mod}._restore_state_from_checkpoint.assigns_nothing_else", set(rmap) <= saved, f"extra: {sorted(set(rmap) - saved)}")
    rs, ws, _ = analyse(cls, "solver_state")
    ob(f"{mod}.solver_state.pure", not ws, f"solver_state writes {sorted(ws)}")
    rsv, wsv, _ = analyse(cls, "save")
    ob(f"{mod}.save.frame.writes_no_solver_attribute", not wsv, f"save writes {sorted(wsv)}")
    rl, wl, _ = analyse(cls, "load_checkpoint")
    ob(f"{mod}.load_checkpoint.frame.writes_only_restored_fields", wl <= set(rmap), f"load_checkpoint writes {sorted(wl)}; restored fields {sorted(rmap)}")
    # template of a freshly constructed solver: a saved field that construction leaves as the constant None but solve() later assigns
    # comes back as None from Orbax' StandardRestore (assumed contract), i.e. the stored value is lost
    none_at_init = set(); assigned_in_solve = set()
    _, _, seen_init = analyse(cls, "_initialize_solver_state_elements")
    for (owner, fname) in seen_init:
        for n in ast.walk(classes[owner][fname]):
            if isinstance(n, ast.Assign) and len(n.targets) == 1 and is_self_attr(n.targets[0]):
                if isinstance(n.value, ast.Constant) and n.value.value is None: none_at_init.add(n.targets[0].attr)
                else: none_at_init.discard(n.targets[0].attr) if False else None
    # (order-insensitive over-approximation is avoided: a field counts as None-at-init only if NO non-None assignment to it is reachable from construction)
    for (owner, fname) in seen_init:
        for n in ast.walk(classes[owner][fname]):
            if isinstance(n, ast.Assign) and len(n.targets) == 1 and is_self_attr(n.targets[0]) and not (isinstance(n.value, ast.Constant) and n.value.value is None):
                none_at_init.discard(n.targets[0].attr)
    _, _, seen_solve = analyse(cls, "solve")
    for (owner, fname) in seen_solve:
        for n in ast.walk(classes[owner][fname]):
            if isinstance(n, ast.Assign) and len(n.targets) == 1 and is_self_attr(n.targets[0]) and not (isinstance(n.value, ast.Constant) and n.value.value is None):
                assigned_in_solve.add(n.targets[0].attr)
    lost = sorted(none_at_init & assigned_in_solve & saved)
    ob(f"{mod}.restore.post.template_covers_saved", not lost, f"saved fields that are None in a fresh solver's template but assigned by solve(): {lost}")
    results[-1]["meta"] = {"lost": lost}
    # C09's share of the same fact: a CARRIED field (read by solve() before it is written) that the template drops makes the resumed run differ
    rc_, wc_, _ = analyse(cls, "solve", skip=("solver_state", "save"))          # reads that feed the computation, not the ones made only to save / return the state
    lost_c = sorted(set(lost) & (rc_ & wc_))
    ob(f"{mod}.restore.post.template_covers_carried_state", not lost_c, f"carried fields that are None in a fresh solver's restore template (Orbax then returns None for them): {lost_c}")
    results[-1]["meta"] = {"lost": lost_c}
    k, m = lookup(cls, "solve")
    funcs.append({"name": f"{mod}.solve", "lines": [m.lineno, m.end_lineno], "carried": sorted(carried), "saved": sorted(saved), "restored": sorted(rmap)})
rep = {"target": "frame_static", "unit": "frame_static", "results": results, "error": None, "paths": len(SOLVERS), "pruned": 0,
       "function": {"name": "frame analysis over solve/solver_state/save/_restore_state_from_checkpoint/load_checkpoint of the five solvers", "lines": [0, 0], "sha256": "", "detail": funcs}, "wall_s": round(time.time() - t0, 3)}
sys.stdout.write("\n@@REPORT@@" + json.dumps(rep) + "\n")
