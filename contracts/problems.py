"""Contracts for the shipped problems' transitions (C14 closure, C15 dynamics) per dimension instance."""
import z3, itertools
from pyvc.contract import contract, Ctx
from pyvc.values import *
from pyvc.models import arrays as A

def Min(a, b): return A.Min(a, b)
def Max(a, b): return A.Max(a, b)
def spec_issue(stock, demand, oldest_first):
    """scalar reference: serve demand from age classes, oldest (rightmost) first or newest first"""
    stock = list(stock); rem = demand
    order = range(len(stock) - 1, -1, -1) if oldest_first else range(len(stock))
    for k in order:
        t = Min(stock[k], rem); stock[k] = stock[k] - t; rem = rem - t
    return stock, rem
def ssum(xs):
    r = z3.IntVal(0)
    for x in xs: r = r + toz3(x)
    return r
def vec_eq(res, spec):
    xs = res.tolist() if isinstance(res, SArr) else list(res)
    if len(xs) != len(spec): return z3.BoolVal(False)
    return z3.And(*[toz3(a) == toz3(b) for a, b in zip(xs, spec)]) if xs else z3.BoolVal(True)
def in_box(res, his):
    xs = res.tolist()
    return z3.And(*[z3.And(toz3(x) >= 0, toz3(x) <= h) for x, h in zip(xs, his)])


# ------------------------------------------------------------------ rewards that are affine in the cost coefficients
def _mentions(t, vs):
    if z3.is_const(t): return any(z3.eq(t, v) for v in vs)
    return any(_mentions(ch, vs) for ch in t.children())
def affine_in(t, vs):
    """syntactic check: t is an affine expression of the variables vs (they occur only as factors of products / summands)"""
    t = toz3(t)
    if not _mentions(t, vs): return True
    if z3.is_const(t): return True
    k = t.decl().kind()
    if k in (z3.Z3_OP_ADD, z3.Z3_OP_SUB, z3.Z3_OP_UMINUS, z3.Z3_OP_TO_REAL): return all(affine_in(ch, vs) for ch in t.children())
    if k == z3.Z3_OP_MUL:
        dep = [ch for ch in t.children() if _mentions(ch, vs)]
        return len(dep) == 1 and affine_in(dep[0], vs)
    if k == z3.Z3_OP_ITE:
        c, a, b = t.children(); return (not _mentions(c, vs)) and affine_in(a, vs) and affine_in(b, vs)
    return False
def reward_clauses(costs_of, result_of, spec_of):
    """Two affine functions of the cost vector are equal iff they agree at 0 and at every unit vector.
    Clauses: `reward_affine_in_costs` (syntactic, both sides) and one integer-only comparison per coefficient."""
    def at(c, j):
        cs = costs_of(c); sub = [(x, z3.RealVal(1 if i == j else 0)) for i, x in enumerate(cs)]
        return z3.substitute(toz3(result_of(c)), *sub) == z3.substitute(toz3(spec_of(c)), *sub)
    out = {"reward_affine_in_costs": lambda c, q: z3.BoolVal(affine_in(result_of(c), costs_of(c)) and affine_in(spec_of(c), costs_of(c))),
           "reward_at_zero_costs": lambda c, q: at(c, -1)}
    return out, at
def add_reward_clauses(ens, n, costs_of, result_of, spec_of):
    base, at = reward_clauses(costs_of, result_of, spec_of); ens.update(base)
    for j in range(n): ens[f"reward_coefficient_{j}"] = (lambda c, q, j=j: at(c, j))
    return ens

# ------------------------------------------------------------------ De Moor
DM = "mdpax.problems.perishable_inventory.de_moor_single_product.DeMoorSingleProductPerishable"
def setup_dm(m, L, pol):
    def setup(I):
        cls = I.load_module("mdpax.problems.perishable_inventory.de_moor_single_product").globals["DeMoorSingleProductPerishable"]
        costs = [z3.Real(f"c{i}") for i in range(4)]; Qm = z3.Int("max_order_quantity")
        p = Obj(cls, {"max_useful_life": m, "lead_time": L, "cost_components": arr_from_list(costs), "max_order_quantity": Qm}, label="problem")
        for nm in ("state", "action", "random_event"):
            p.attrs[f"{nm}_component_lookup"] = I.call(I.getattr(p, f"_construct_{nm}_component_lookup"), [], {})
        p.attrs["_issue_stock"] = I.getattr(p, "_issue_fifo" if pol == "fifo" else "_issue_lifo")      # as __init__ does
        st = [z3.Int(f"s{i}") for i in range(m + L - 1)]; q, d = z3.Ints("order demand")
        for x in st + [q]: I.assume(z3.And(x >= 0, x <= Qm))
        I.assume(d >= 0)
        return Ctx(self=p, _args=[arr_from_list(st), arr_from_list([q]), arr_from_list([d])], st=st, q=q, d=d, costs=costs, m=m, L=L, pol=pol, Qm=Qm)
    return setup
def dm_spec(c):
    transit, stock = c.st[:c.L - 1], c.st[c.L - 1:]
    after, rem = spec_issue(stock, c.d, c.pol == "fifo")
    pipeline = [c.q] + transit
    nxt = pipeline[:-1] + [pipeline[-1]] + after[:-1]
    rew = -(c.costs[0] * c.q + c.costs[1] * rem + c.costs[2] * after[-1] + c.costs[3] * ssum(after[:-1]))
    return nxt, rew, stock, after, rem
contract(f"{DM}.transition",
    scenarios=[(f"m{m}L{L}{pol}.", setup_dm(m, L, pol)) for m, L, pol in itertools.product(range(1, 6), range(1, 5), ("fifo", "lifo"))],
    ensures=add_reward_clauses({"next_state": lambda c, q: vec_eq(c.result[0], dm_spec(c)[0]),
             "closed": lambda c, q: in_box(c.result[0], [c.Qm] * (c.m + c.L - 1)),
             "conservation": lambda c, q: (lambda nxt, rew, stock, after, rem: ssum(stock) == Min(ssum(stock), c.d) + after[-1] + ssum(after[:-1]))(*dm_spec(c))},
        4, lambda c: c.costs, lambda c: c.result[1], lambda c: dm_spec(c)[1]))

# ------------------------------------------------------------------ Hendrix
HX = "mdpax.problems.perishable_inventory.hendrix_two_product.HendrixTwoProductPerishable"
def setup_hx(m):
    def setup(I):
        cls = I.load_module("mdpax.problems.perishable_inventory.hendrix_two_product").globals["HendrixTwoProductPerishable"]
        ca, cb, pa, pb = z3.Reals("cost_a cost_b price_a price_b"); Qa, Qb = z3.Ints("Qa Qb")
        p = Obj(cls, {"max_useful_life": m, "variable_order_costs": arr_from_list([ca, cb]), "sales_prices": arr_from_list([pa, pb])}, label="problem")
        for nm in ("state", "action", "random_event"):
            p.attrs[f"{nm}_component_lookup"] = I.call(I.getattr(p, f"_construct_{nm}_component_lookup"), [], {})
        sa = [z3.Int(f"a{i}") for i in range(m)]; sb = [z3.Int(f"b{i}") for i in range(m)]; qa, qb, ia, ib = z3.Ints("qa qb issued_a issued_b")
        for x in sa + [qa]: I.assume(z3.And(x >= 0, x <= Qa))
        for x in sb + [qb]: I.assume(z3.And(x >= 0, x <= Qb))
        I.assume(z3.And(ia >= 0, ib >= 0))
        return Ctx(self=p, _args=[arr_from_list(sa + sb), arr_from_list([qa, qb]), arr_from_list([ia, ib])], sa=sa, sb=sb, qa=qa, qb=qb, ia=ia, ib=ib, m=m, Qa=Qa, Qb=Qb, prices=(pa, pb), costs=(ca, cb))
    return setup
def hx_spec(c):
    aa, _ = spec_issue(c.sa, c.ia, True); bb, _ = spec_issue(c.sb, c.ib, True)
    return [c.qa] + aa[:-1] + [c.qb] + bb[:-1], c.prices[0] * c.ia + c.prices[1] * c.ib - c.costs[0] * c.qa - c.costs[1] * c.qb
contract(f"{HX}.transition", scenarios=[(f"m{m}.", setup_hx(m)) for m in range(1, 6)],
    ensures=add_reward_clauses({"next_state": lambda c, q: vec_eq(c.result[0], hx_spec(c)[0]),
             "closed": lambda c, q: in_box(c.result[0], [c.Qa] * c.m + [c.Qb] * c.m)},
        4, lambda c: list(c.costs) + list(c.prices), lambda c: c.result[1], lambda c: hx_spec(c)[1]))

# ------------------------------------------------------------------ Mirjalili
MJ = "mdpax.problems.perishable_inventory.mirjalili_platelet.MirjaliliPlateletPerishable"
def setup_mj(m):
    def setup(I):
        cls = I.load_module("mdpax.problems.perishable_inventory.mirjalili_platelet").globals["MirjaliliPlateletPerishable"]
        costs = [z3.Real(f"c{i}") for i in range(5)]; Qm = z3.Int("max_order_quantity")
        p = Obj(cls, {"max_useful_life": m, "max_order_quantity": Qm, "cost_components": arr_from_list(costs)}, label="problem")
        for nm in ("state", "action", "random_event"):
            p.attrs[f"{nm}_component_lookup"] = I.call(I.getattr(p, f"_construct_{nm}_component_lookup"), [], {})
        wd = z3.Int("weekday"); stock = [z3.Int(f"s{i}") for i in range(m - 1)]; q, d = z3.Ints("order demand"); rec = [z3.Int(f"r{i}") for i in range(m)]
        I.assume(z3.And(wd >= 0, wd <= 6, d >= 0, q >= 0, q <= Qm, Qm >= 1))
        for x in stock: I.assume(z3.And(x >= 0, x <= Qm))
        for x in rec: I.assume(x >= 0)
        return Ctx(self=p, _args=[arr_from_list([wd] + stock), arr_from_list([q]), arr_from_list([d] + rec)], wd=wd, stock=stock, q=q, d=d, rec=rec, costs=costs, m=m, Qm=Qm)
    return setup
def mj_spec(c):
    opening = [Min(c.Qm, Max(0, toz3(x) + toz3(y))) for x, y in zip([0] + c.stock, c.rec)]
    after, rem = spec_issue(opening, c.d, True)
    cost = c.costs[0] * c.q + c.costs[1] * z3.If(c.q > 0, 1, 0) + c.costs[2] * rem + c.costs[3] * after[-1] + c.costs[4] * ssum(after)
    return [(c.wd + 1) % 7] + after[:-1], -cost
contract(f"{MJ}.transition", scenarios=[(f"m{m}.", setup_mj(m)) for m in range(1, 6)],
    ensures=add_reward_clauses({"next_state": lambda c, q: vec_eq(c.result[0], mj_spec(c)[0]),
             "closed": lambda c, q: in_box(c.result[0], [6] + [c.Qm] * (c.m - 1))},
        5, lambda c: c.costs, lambda c: c.result[1], lambda c: mj_spec(c)[1]))

# ------------------------------------------------------------------ Forest
FO = "mdpax.problems.forest.Forest"
def setup_fo(I):
    cls = I.load_module("mdpax.problems.forest").globals["Forest"]
    S = z3.Int("S"); r1, r2 = z3.Reals("r1 r2")
    p = Obj(cls, {"S": S, "r1": r1, "r2": r2}, label="problem")
    age, act, fire = z3.Ints("age action fire")
    I.assume(z3.And(S >= 1, age >= 0, age < S, act >= 0, act <= 1, fire >= 0, fire <= 1))
    return Ctx(self=p, _args=[arr_from_list([age]), arr_from_list([act]), arr_from_list([fire])], S=S, r1=r1, r2=r2, age=age, act=act, fire=fire)
def fo_spec(c):
    cut = c.act == 1
    rew = z3.If(cut, z3.If(c.age == c.S - 1, c.r2, z3.If(c.age == 0, z3.RealVal(0), z3.RealVal(1))), z3.If(c.age == c.S - 1, c.r1, z3.RealVal(0)))
    nxt = z3.If(z3.Or(cut, c.fire == 1), 0, z3.If(c.age + 1 < c.S - 1, c.age + 1, c.S - 1))
    return [nxt], rew
contract(f"{FO}.transition", setup=setup_fo,
    ensures={"next_state": lambda c, q: vec_eq(c.result[0], fo_spec(c)[0]),
             "reward": lambda c, q: toz3(c.result[1]) == fo_spec(c)[1],
             "closed": lambda c, q: in_box(c.result[0], [c.S - 1])})
