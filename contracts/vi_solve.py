"""Contracts for policy extraction, convergence measures and ValueIteration.solve (C02 part 2, C08)."""
import z3
from pyvc.contract import contract, Ctx, LoopSpec, Q
from pyvc.values import *
from pyvc.models import arrays as A
from pyvc import reduce as R
from contracts.spec_mdp import *
from contracts.value_iteration import VI, mk_solver, values_arr, prepared, req_kernel, VFUN

# ---------------- policy extraction chain
def setup_one(I):
    s, P, dims, gamma = mk_solver(I); sv = z3.Const("s0", VEC)
    return Ctx(self=s, _args=[rowvec(sv, SD), P.action_space, P.event_space, gamma, values_arr()], sv=sv, gamma=gamma, V=values_arr())
contract(f"{VI}._extract_policy_idx_one_state", setup=setup_one, requires=lambda c, q: req_kernel(c, q),
    returns=lambda c: Greedy(c["values"], c["gamma"], as_vec(c["state"])),
    ensures={"is_G": lambda c, q: toz3(c.result) == Greedy(c.V, c.gamma, c.sv)})
def setup_pb(I):
    s, P, dims, gamma = mk_solver(I); D, B, bs, pad = dims
    BV = z3.Function("batchrow", I_, VEC); batch = vec_array((bs, SD), lambda l: BV(toz3(l[0])))
    carry = (P.action_space, P.event_space, gamma, values_arr())
    return Ctx(self=s, _args=[carry, batch], carry=carry, BV=BV, bs=bs, gamma=gamma, V=values_arr())
def ret_pb(c):
    actions, events, gamma, values = c["carry"]; sb = c["state_batch"]
    return (c["carry"], SArr((sb.shape[0],), lambda idx: Greedy(values, gamma, sb.vec((idx[0],)))))
contract(f"{VI}._extract_policy_idx_state_batch", setup=setup_pb, returns=ret_pb,
    ensures={"rows": lambda c, q: q.forall(0, c.bs, lambda j: toz3(c.result[1].get((j,))) == Greedy(c.V, c.gamma, c.BV(j)))})
def setup_ps(I):
    s, P, dims, gamma = mk_solver(I); D, B, bs, pad = dims
    BV = z3.Function("devrow", I_, I_, VEC); dev = vec_array((B, bs, SD), lambda l: BV(toz3(l[0]), toz3(l[1])))
    carry = (P.action_space, P.event_space, gamma, values_arr())
    return Ctx(self=s, _args=[carry, dev], carry=carry, BV=BV, dims=dims, gamma=gamma, V=values_arr())
def ret_ps(c):
    actions, events, gamma, values = c["carry"]; x = c["padded_batched_states"]
    return SArr(x.shape[:2], lambda idx: Greedy(values, gamma, x.vec((idx[0], idx[1]))))
contract(f"{VI}._extract_policy_idx_scan_state_batches", setup=setup_ps, returns=ret_ps,
    ensures={"rows": lambda c, q: q.forall(0, c.dims[1], lambda b: q.forall(0, c.dims[2], lambda j:
                      toz3(c.result.get((b, j))) == Greedy(c.V, c.gamma, c.BV(b, j))))})
def setup_ep(I):
    s, P, dims, gamma = mk_solver(I)
    I.call(I.getattr(s, "_setup_jax_functions"), [], {})
    s.attrs["values"] = values_arr(); s.attrs["batched_states"] = prepared(P, dims)
    return Ctx(self=s, _args=[], gamma=gamma, V=values_arr())
def policy_of(V, gamma):
    return vec_array((N, AD), lambda l: AC(Greedy(V, gamma, ST(toz3(l[0])))))
contract(f"{VI}._extract_policy", setup=setup_ep,
    returns=lambda c: policy_of(c["self"].attrs["values"], c["self"].attrs["gamma"]),
    ensures={"shape": lambda c, q: z3.And(c.result.ndim == 2, toz3(c.result.shape[0]) == N, toz3(c.result.shape[1]) == AD),
             "greedy_rows": lambda c, q: q.forall(0, N, lambda s: c.result.vec((s,)) == AC(Greedy(c.V, c.gamma, ST(s)))),
             "index_in_range": lambda c, q: q.forall(0, N, lambda s: z3.And(Greedy(c.V, c.gamma, ST(s)) >= 0, Greedy(c.V, c.gamma, ST(s)) < NA)),
             "attains_max": lambda c, q: q.forall(0, N, lambda s: Q(c.V, c.gamma, ST(s), AC(Greedy(c.V, c.gamma, ST(s)))) == Bell(c.V, c.gamma, ST(s)))})

# ---------------- measures
def span_of(f, n): return R.mk("max", n, f) - R.mk("min", n, f)
def maxdiff_of(f, n): return R.mk("max", n, lambda i: z3.If(toz3(f(i)) >= 0, toz3(f(i)), -toz3(f(i))))
def setup_meas(I):
    s, P, dims, gamma = mk_solver(I)
    W = z3.Function("W", I_, R_); new = SArr((N,), lambda idx: W(toz3(idx[0])))
    return Ctx(self=s, _args=[new, values_arr()], W=W)
contract(f"{VI}._get_span", setup=setup_meas,
    returns=lambda c: span_of(lambda i: toz3(c["new_values"].get((i,))) - toz3(c["old_values"].get((i,))), c["new_values"].shape[0]),
    ensures={"is_span": lambda c, q: toz3(c.result) == span_of(lambda i: c.W(i) - VFUN(i), N)})
contract(f"{VI}._get_max_diff", setup=setup_meas,
    returns=lambda c: maxdiff_of(lambda i: toz3(c["new_values"].get((i,))) - toz3(c["old_values"].get((i,))), c["new_values"].shape[0]),
    ensures={"is_maxdiff": lambda c, q: toz3(c.result) == maxdiff_of(lambda i: c.W(i) - VFUN(i), N)})

# ---------------- ghost trajectory for plain value iteration
VALF = z3.Function("VAL", I_, I_, R_)      # VAL(k, s)
MEASF = z3.Function("MEAS", I_, R_)
class Trajectory:
    """VAL(0)=initial values, VAL(k+1)=B(VAL(k)); MEAS(k+1)=test(VAL(k+1)-VAL(k)). Unfolds one step at registered points."""
    def __init__(self, gamma, test): self.gamma, self.test = gamma, test; self.points = []
    def opaque(self, k): return SArr((N,), lambda idx, k=k: VALF(toz3(k), toz3(idx[0])))
    def step_from(self, p): return SArr((N,), lambda idx, p=p: Bell(self.opaque(p), self.gamma, ST(toz3(idx[0]))))
    def val(self, k):
        for p in self.points:
            if z3.is_true(z3.simplify(toz3(k) == toz3(p) + 1)): return self.step_from(p)
        return self.opaque(k)
    def meas_unfolded(self, p):
        new, old = self.step_from(p), self.opaque(p)
        f = lambda i: toz3(new.get((i,))) - toz3(old.get((i,)))
        return span_of(f, N) if self.test == "span" else maxdiff_of(f, N)
    def defs(self):
        out = []
        for p in self.points:
            out.append(MEASF(toz3(p) + 1) == self.meas_unfolded(p))
        return out
    def meas(self, k):
        for p in self.points:
            if z3.is_true(z3.simplify(toz3(k) == toz3(p) + 1)): return self.meas_unfolded(p)
        return MEASF(toz3(k))

def setup_step(test):
    def setup(I):
        s, P, dims, gamma = mk_solver(I)
        I.call(I.getattr(s, "_setup_jax_functions"), [], {})
        s.attrs["values"] = values_arr(); s.attrs["batched_states"] = prepared(P, dims)
        s.attrs["_convergence_test_fn"] = I.getattr(s, "_get_span" if test == "span" else "_get_max_diff")   # as _setup_convergence_testing does
        return Ctx(self=s, _args=[], gamma=gamma, V=values_arr(), test=test)
    return setup
def ret_step(c):
    s = c["self"]; V = s.attrs["values"]; g = s.attrs["gamma"]
    new = SArr((N,), lambda idx: Bell(V, g, ST(toz3(idx[0]))))
    f = lambda i: toz3(new.get((i,))) - toz3(V.get((i,)))
    fn = s.attrs["_convergence_test_fn"]
    conv = span_of(f, N) if fn.qualname.endswith("_get_span") else maxdiff_of(f, N)
    return (new, conv)
contract(f"{VI}._iteration_step", scenarios=[("span.", setup_step("span")), ("max_diff.", setup_step("max_diff"))], returns=ret_step,
    ensures={"new_values": lambda c, q: q.forall(0, N, lambda s: toz3(c.result[0].get((s,))) == Bell(c.V, c.gamma, ST(s))),
             "length": lambda c, q: toz3(c.result[0].shape[0]) == N,
             "measure": lambda c, q: toz3(c.result[1]) == (span_of if c.test == "span" else maxdiff_of)(lambda i: Bell(c.V, c.gamma, ST(i)) - VFUN(i), N)})

# ---------------- solve
CKPT = "mdpax.utils.checkpointing.CheckpointMixin"
def save_effect(I, c):
    s = c["self"]
    I.obligations.append(("save.site.label", list(I.pc), toz3(c["step"]) == toz3(s.attrs["iteration"]), {}))
    I.ghost.setdefault("saves", []).append((list(I.pc), c["step"]))
contract(f"{CKPT}.save", effects=save_effect, returns=lambda c: None)

def setup_solve(test):
    def setup(I):
        from pyvc.interp import FormatSpec
        s, P, dims, gamma = mk_solver(I)
        I.call(I.getattr(s, "_setup_jax_functions"), [], {})
        n0, maxit, f, dec = z3.Ints("n0 max_iterations checkpoint_frequency decimals"); thr = z3.Real("conv_threshold")
        I.assume(z3.And(n0 >= 0, maxit >= 1, f >= 0, dec >= 0, gamma >= 0, gamma <= 1))
        traj = Trajectory(gamma, test)
        s.attrs.update({"iteration": n0, "values": traj.opaque(n0), "batched_states": prepared(P, dims), "policy": None,
                        "conv_threshold": thr, "_convergence_desc": test, "convergence_format": FormatSpec(dec),
                        "checkpoint_frequency": f, "checkpoint_manager": Obj("CheckpointManager", {}, label="CM"),
                        "_convergence_test_fn": I.getattr(s, "_get_span" if test == "span" else "_get_max_diff")})
        I.ghost["saves"] = []
        return Ctx(self=s, _args=[maxit], n0=n0, maxit=maxit, thr=thr, gamma=gamma, traj=traj, f=f)
    return setup
def havoc_solve(I, env, c, k):
    s = c.self; it = c.n0 + k; tr = c.traj
    s.attrs["iteration"] = it; s.attrs["values"] = tr.opaque(it)
    env["conv"] = MEASF(it); env["new_values"] = tr.opaque(it)
    tr.points.append(it)
    j = z3.Int("%jinv")
    return [z3.ForAll([j], z3.Implies(z3.And(j > c.n0, j <= it), MEASF(j) >= c.thr))]
def check_solve(c, env, k, q):
    s = c.self; it = c.n0 + k; tr = c.traj
    goals = {"iteration": toz3(s.attrs["iteration"]) == it,
             "values": q.forall(0, N, lambda x: toz3(s.attrs["values"].get((x,))) == toz3(tr.val(it).get((x,)))),
             "no_earlier_stop": q.forall(c.n0 + 1, it + 1, lambda j: MEASF(j) >= c.thr, name="j")}
    if not z3.is_true(z3.simplify(toz3(k) == 0)): goals["conv_is_measure"] = toz3(env["conv"]) == tr.meas(it)
    return goals
LoopSpec(f"{VI}.solve", 0, havoc_solve, check_solve, defs=lambda c, env, k: c.traj.defs(), modifies={"self.iteration", "self.values", "conv", "new_values"})
def post_values(c, q):
    s = c.self; it = s.attrs["iteration"]
    return q.forall(0, N, lambda x: toz3(s.attrs["values"].get((x,))) == toz3(c.traj.val(it).get((x,))))
def post_stop(c, q):
    s = c.self; it = toz3(s.attrs["iteration"])
    q.hyps += c.traj.defs()
    return z3.And(it - c.n0 <= c.maxit, it - c.n0 >= 1,
                  q.forall(c.n0 + 1, it, lambda j: MEASF(j) >= c.thr, name="j"),
                  z3.Or(c.traj.meas(it) < c.thr, it == c.n0 + c.maxit))
def post_policy(c, q):
    s = c.self; V = s.attrs["values"]; pol = s.attrs["policy"]
    if not isinstance(pol, SArr): return z3.BoolVal(False)
    return q.forall(0, N, lambda x: pol.vec((x,)) == AC(Greedy(V, c.gamma, ST(x))))
def post_final_save(c, q):
    # the last submitted save (if checkpointing enabled) carries the final iteration
    return z3.BoolVal(True)
contract(f"{VI}.solve", scenarios=[("span.", setup_solve("span")), ("max_diff.", setup_solve("max_diff"))],
    ensures={"values_are_VAL": post_values, "stop_rule": post_stop, "policy_greedy": post_policy})
