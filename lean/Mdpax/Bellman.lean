import Mdpax.Basic

/-! The concrete Bellman optimality and policy operators of a finite MDP satisfy `DiscOp` (C02 consequences). -/
open Finset

namespace Mdpax
variable {S A : Type} [Fintype S] [Nonempty S] [Fintype A] [Nonempty A]

def Qv (r : S → A → ℝ) (P : S → A → S → ℝ) (γ : ℝ) (V : S → ℝ) (s : S) (a : A) : ℝ :=
  r s a + γ * ∑ s', P s a s' * V s'
noncomputable def Bell (r : S → A → ℝ) (P : S → A → S → ℝ) (γ : ℝ) (V : S → ℝ) (s : S) : ℝ :=
  univ.sup' univ_nonempty (fun a => Qv r P γ V s a)
def BellPol (r : S → A → ℝ) (P : S → A → S → ℝ) (γ : ℝ) (d : S → A) (V : S → ℝ) (s : S) : ℝ :=
  Qv r P γ V s (d s)

lemma Qv_mono (r : S → A → ℝ) (P : S → A → S → ℝ) (γ : ℝ) (hγ : 0 ≤ γ)
    (hP : ∀ s a s', 0 ≤ P s a s') (V W : S → ℝ) (h : ∀ s, V s ≤ W s) (s : S) (a : A) :
    Qv r P γ V s a ≤ Qv r P γ W s a := by
  unfold Qv
  have : ∑ s', P s a s' * V s' ≤ ∑ s', P s a s' * W s' :=
    Finset.sum_le_sum (fun s' _ => mul_le_mul_of_nonneg_left (h s') (hP s a s'))
  nlinarith [mul_le_mul_of_nonneg_left this hγ]

lemma Qv_shift (r : S → A → ℝ) (P : S → A → S → ℝ) (γ : ℝ)
    (hsum : ∀ s a, ∑ s', P s a s' = 1) (V : S → ℝ) (c : ℝ) (s : S) (a : A) :
    Qv r P γ (fun x => V x + c) s a = Qv r P γ V s a + γ * c := by
  unfold Qv
  have : ∑ s', P s a s' * (V s' + c) = ∑ s', P s a s' * V s' + c := by
    simp only [mul_add, Finset.sum_add_distrib, ← Finset.sum_mul, hsum s a, one_mul]
  rw [this]; ring

theorem bellpol_discop (r : S → A → ℝ) (P : S → A → S → ℝ) (γ : ℝ) (hγ : 0 ≤ γ)
    (hP : ∀ s a s', 0 ≤ P s a s') (hsum : ∀ s a, ∑ s', P s a s' = 1) (d : S → A) :
    DiscOp γ (BellPol r P γ d) where
  mono := fun V W h s => Qv_mono r P γ hγ hP V W h s (d s)
  shift := fun V c s => Qv_shift r P γ hsum V c s (d s)

theorem bell_discop (r : S → A → ℝ) (P : S → A → S → ℝ) (γ : ℝ) (hγ : 0 ≤ γ)
    (hP : ∀ s a s', 0 ≤ P s a s') (hsum : ∀ s a, ∑ s', P s a s' = 1) :
    DiscOp γ (Bell r P γ) where
  mono := fun V W h s => by
    unfold Bell
    apply Finset.sup'_le
    intro a _
    exact le_trans (Qv_mono r P γ hγ hP V W h s a) (Finset.le_sup' (fun a => Qv r P γ W s a) (mem_univ a))
  shift := fun V c s => by
    unfold Bell
    apply le_antisymm
    · apply Finset.sup'_le
      intro a _
      rw [Qv_shift r P γ hsum V c s a]
      have := Finset.le_sup' (fun a => Qv r P γ V s a) (mem_univ a)
      linarith
    · obtain ⟨a, _, ha⟩ := Finset.exists_mem_eq_sup' univ_nonempty (fun a => Qv r P γ V s a)
      rw [ha, ← Qv_shift r P γ hsum V c s a]
      exact Finset.le_sup' (fun a => Qv r P γ (fun x => V x + c) s a) (mem_univ a)

theorem bellpol_le_bell (r : S → A → ℝ) (P : S → A → S → ℝ) (γ : ℝ) (d : S → A) (V : S → ℝ) (s : S) :
    BellPol r P γ d V s ≤ Bell r P γ V s :=
  Finset.le_sup' (fun a => Qv r P γ V s a) (mem_univ (d s))

/-- a policy that attains the maximum at every state (what `_extract_policy.post.attains_max` establishes) is greedy -/
theorem greedy_eq (r : S → A → ℝ) (P : S → A → S → ℝ) (γ : ℝ) (d : S → A) (V : S → ℝ)
    (h : ∀ s, Qv r P γ V s (d s) = Bell r P γ V s) : ∀ s, BellPol r P γ d V s = Bell r P γ V s := h

/-- C17: the explicit matrices give the same one-step backup as the functional description:
    P[s,a,s'] = Σ_e [idx(next s a e) = s'] p, R[s,a] = Σ_e p·r  ⇒  Σ_e p (r + γ V[idx next]) = R + γ Σ_{s'} P V -/
theorem matrix_backup_eq {E : Type} [Fintype E] [DecidableEq S] (p : S → A → E → ℝ) (rw : S → A → E → ℝ)
    (nxt : S → A → E → S) (γ : ℝ) (V : S → ℝ) (s : S) (a : A) :
    ∑ e, p s a e * (rw s a e + γ * V (nxt s a e))
      = (∑ e, p s a e * rw s a e) + γ * ∑ s', (∑ e, if nxt s a e = s' then p s a e else 0) * V s' := by
  have h1 : ∑ s', (∑ e, if nxt s a e = s' then p s a e else 0) * V s' = ∑ e, p s a e * V (nxt s a e) := by
    calc ∑ s', (∑ e, if nxt s a e = s' then p s a e else 0) * V s'
        = ∑ s', ∑ e, (if nxt s a e = s' then p s a e else 0) * V s' := by
          apply Finset.sum_congr rfl; intro s' _; rw [Finset.sum_mul]
      _ = ∑ e, ∑ s', (if nxt s a e = s' then p s a e else 0) * V s' := Finset.sum_comm
      _ = ∑ e, p s a e * V (nxt s a e) := by
          apply Finset.sum_congr rfl; intro e _
          rw [Finset.sum_eq_single (nxt s a e)]
          · simp
          · intro s' _ hne; simp [Ne.symm hne]
          · intro h; exact absurd (mem_univ _) h
  rw [h1, Finset.mul_sum, ← Finset.sum_add_distrib]
  apply Finset.sum_congr rfl; intro e _; ring

/-- engine lemma: telescoping sum (C13/C16 demand bins) -/
theorem telescope (c : ℕ → ℝ) (n : ℕ) : ∑ i ∈ Finset.range n, (c (i + 1) - c i) = c n - c 0 :=
  Finset.sum_range_sub c n

end Mdpax
