import Mathlib.Tactic
import Mathlib.Logic.Equiv.Defs
import Mathlib.GroupTheory.Perm.Basic

/-! Engine lemmas: facts the symbolic engine uses about array layout and permutations. -/
namespace Mdpax

/-- two-level mixed radix: digits are determined by the flat index (used for every reshape: apply twice for three levels) -/
theorem ravel2_inj (n : ℕ) (hn : 0 < n) (a i a' i' : ℕ) (hi : i < n) (hi' : i' < n)
    (h : a * n + i = a' * n + i') : a = a' ∧ i = i' := by
  have h1 : (a * n + i) % n = i := by rw [Nat.mul_comm, Nat.mul_add_mod]; exact Nat.mod_eq_of_lt hi
  have h2 : (a' * n + i') % n = i' := by rw [Nat.mul_comm, Nat.mul_add_mod]; exact Nat.mod_eq_of_lt hi'
  have hii : i = i' := by rw [← h1, ← h2, h]
  subst hii
  have : a * n = a' * n := by omega
  exact ⟨Nat.eq_of_mul_eq_mul_right hn this, rfl⟩

theorem ravel2_surj (n : ℕ) (hn : 0 < n) (k : ℕ) : ∃ a i, i < n ∧ k = a * n + i :=
  ⟨k / n, k % n, Nat.mod_lt k hn, by rw [Nat.mul_comm]; exact (Nat.div_add_mod k n).symm⟩

/-- a row-major value is below the product of the extents (contracts/mirjalili_events.py: the row of the product holding a digit vector exists) -/
theorem ravel2_lt (a i n m : ℕ) (ha : a < m) (hi : i < n) : a * n + i < m * n := by
  have h1 : (a + 1) * n ≤ m * n := Nat.mul_le_mul_right n ha
  have h2 : a * n + i < (a + 1) * n := by rw [Nat.add_mul, Nat.one_mul]; omega
  omega

/-- three-level layout (devices × batches × batch_size): injective … -/
theorem ravel3_inj (B bs : ℕ) (hB : 0 < B) (hbs : 0 < bs) (d b j d' b' j' : ℕ)
    (hb : b < B) (hj : j < bs) (hb' : b' < B) (hj' : j' < bs)
    (h : (d * B + b) * bs + j = (d' * B + b') * bs + j') : d = d' ∧ b = b' ∧ j = j' := by
  obtain ⟨h1, h2⟩ := ravel2_inj bs hbs _ j _ j' hj hj' h
  obtain ⟨h3, h4⟩ := ravel2_inj B hB d b d' b' hb hb' h1
  exact ⟨h3, h4, h2⟩

/-- … and onto: every flat index has digits (the Skolem digits introduced by the engine exist) -/
theorem ravel3_surj (B bs : ℕ) (hB : 0 < B) (hbs : 0 < bs) (k : ℕ) :
    ∃ d b j, b < B ∧ j < bs ∧ k = (d * B + b) * bs + j := by
  obtain ⟨q, j, hj, hk⟩ := ravel2_surj bs hbs k
  obtain ⟨d, b, hb, hq⟩ := ravel2_surj B hB q
  exact ⟨d, b, j, hb, hj, by rw [hk, hq]⟩

/-- the index array that sorts a permutation of 0..n-1 is its inverse: if `a` sorts `π` (π (a i) = i) then a = π⁻¹ -/
theorem perm_argsort_inv {n : ℕ} (π a : Equiv.Perm (Fin n)) (h : ∀ i, π (a i) = i) : a = π⁻¹ := by
  ext i
  have : a i = π⁻¹ i := by
    apply π.injective
    rw [h i]; simp
  rw [this]

end Mdpax
