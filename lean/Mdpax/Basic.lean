import Mathlib.Data.Real.Basic
import Mathlib.Data.Fintype.Basic
import Mathlib.Algebra.BigOperators.Group.Finset.Basic
import Mathlib.Algebra.Order.BigOperators.Group.Finset
import Mathlib.Data.Finset.Lattice.Fold
import Mathlib.Tactic

/-! Abstract discounted operators on value functions over a finite state space. -/
open Finset

namespace Mdpax
variable {S : Type} [Fintype S] [Nonempty S]

/-- monotone and γ-shift-equivariant operator (Bellman optimality and policy operators are instances) -/
structure DiscOp (γ : ℝ) (T : (S → ℝ) → (S → ℝ)) : Prop where
  mono : ∀ V W : S → ℝ, (∀ s, V s ≤ W s) → ∀ s, T V s ≤ T W s
  shift : ∀ (V : S → ℝ) (c : ℝ) (s : S), T (fun x => V x + c) s = T V s + γ * c

noncomputable def fmax (f : S → ℝ) : ℝ := univ.sup' univ_nonempty f
lemma le_fmax (f : S → ℝ) (s : S) : f s ≤ fmax f := le_sup' f (mem_univ s)
lemma exists_fmax (f : S → ℝ) : ∃ s, f s = fmax f := by
  obtain ⟨s, _, hs⟩ := exists_mem_eq_sup' univ_nonempty f
  exact ⟨s, hs.symm⟩

/-- upper shift: V ≤ W + c pointwise ⇒ T V ≤ T W + γ c -/
lemma DiscOp.le_add {γ : ℝ} {T : (S → ℝ) → (S → ℝ)} (hT : DiscOp γ T) (V W : S → ℝ) (c : ℝ)
    (h : ∀ s, V s ≤ W s + c) (s : S) : T V s ≤ T W s + γ * c := by
  have := hT.mono V (fun x => W x + c) h s
  rwa [hT.shift W c s] at this

lemma DiscOp.add_le {γ : ℝ} {T : (S → ℝ) → (S → ℝ)} (hT : DiscOp γ T) (V W : S → ℝ) (c : ℝ)
    (h : ∀ s, W s + c ≤ V s) (s : S) : T W s + γ * c ≤ T V s := by
  have := hT.mono (fun x => W x + c) V h s
  rwa [hT.shift W c s] at this

/-- sup-norm contraction in explicit form -/
theorem contraction {γ : ℝ} {T : (S → ℝ) → (S → ℝ)} (hT : DiscOp γ T) (V W : S → ℝ) (c : ℝ)
    (h : ∀ s, |V s - W s| ≤ c) : ∀ s, |T V s - T W s| ≤ γ * c := by
  intro s
  have h1 := hT.le_add V W c (fun s => by have := (abs_le.mp (h s)).2; linarith) s
  have h2 := hT.le_add W V c (fun s => by have := (abs_le.mp (h s)).1; linarith) s
  rw [abs_le]; constructor <;> linarith

/-- span contraction: m ≤ V − W ≤ M ⇒ γ m ≤ T V − T W ≤ γ M -/
theorem span_contraction {γ : ℝ} {T : (S → ℝ) → (S → ℝ)} (hT : DiscOp γ T) (V W : S → ℝ) (m M : ℝ)
    (hm : ∀ s, m ≤ V s - W s) (hM : ∀ s, V s - W s ≤ M) :
    ∀ s, γ * m ≤ T V s - T W s ∧ T V s - T W s ≤ γ * M := by
  intro s
  have h1 := hT.le_add V W M (fun s => by have := hM s; linarith) s
  have h2 := hT.add_le V W m (fun s => by have := hm s; linarith) s
  constructor <;> linarith

/-- sub-fixed points lie below the fixed point -/
theorem le_fixed {γ : ℝ} {T : (S → ℝ) → (S → ℝ)} (hT : DiscOp γ T) (hγ1 : γ < 1)
    (u v : S → ℝ) (hv : ∀ s, T v s = v s) (hu : ∀ s, u s ≤ T u s) : ∀ s, u s ≤ v s := by
  set δ := fmax (fun s => u s - v s) with hδ
  have h1 : ∀ s, u s ≤ v s + δ := fun s => by
    have := le_fmax (fun s => u s - v s) s; linarith
  have h2 : ∀ s, T u s ≤ v s + γ * δ := fun s => by
    have := hT.le_add u v δ h1 s; rw [hv s] at this; exact this
  obtain ⟨s0, hs0⟩ := exists_fmax (fun s => u s - v s)
  have h3 : δ ≤ γ * δ := by have := hu s0; have := h2 s0; linarith
  have hδ0 : δ ≤ 0 := by nlinarith
  intro s; have := h1 s; linarith

/-- super-fixed points lie above the fixed point -/
theorem fixed_le {γ : ℝ} {T : (S → ℝ) → (S → ℝ)} (hT : DiscOp γ T) (hγ1 : γ < 1)
    (u v : S → ℝ) (hv : ∀ s, T v s = v s) (hu : ∀ s, T u s ≤ u s) : ∀ s, v s ≤ u s := by
  set δ := fmax (fun s => v s - u s) with hδ
  have h1 : ∀ s, v s ≤ u s + δ := fun s => by
    have := le_fmax (fun s => v s - u s) s; linarith
  have h2 : ∀ s, v s ≤ u s + γ * δ := fun s => by
    have := hT.le_add v u δ h1 s; rw [hv s] at this; have := hu s; linarith
  obtain ⟨s0, hs0⟩ := exists_fmax (fun s => v s - u s)
  have h3 : δ ≤ γ * δ := by have := h2 s0; linarith
  have hδ0 : δ ≤ 0 := by nlinarith
  intro s; have := h1 s; linarith

end Mdpax
