import Mdpax.Basic

/-! A-priori error bounds for value iteration, policy iteration and greedy policies (used by C01, C05). -/
open Finset

namespace Mdpax
variable {S : Type} [Fintype S] [Nonempty S]

/-- d greedy for W (T_d W = T W), T_d ≤ T: W + m/(1-γ) ≤ v_d ≤ v* ≤ W + M/(1-γ) where m ≤ TW − W ≤ M -/
theorem greedy_bracket {γ : ℝ} {T Td : (S → ℝ) → (S → ℝ)} (hT : DiscOp γ T) (hTd : DiscOp γ Td)
    (hγ1 : γ < 1) (W vstar vd : S → ℝ) (m M : ℝ)
    (hstar : ∀ s, T vstar s = vstar s) (hd : ∀ s, Td vd s = vd s)
    (hle : ∀ V s, Td V s ≤ T V s) (hgreedy : ∀ s, Td W s = T W s)
    (hm : ∀ s, m ≤ T W s - W s) (hM : ∀ s, T W s - W s ≤ M) :
    ∀ s, W s + m / (1 - γ) ≤ vd s ∧ vd s ≤ vstar s ∧ vstar s ≤ W s + M / (1 - γ) := by
  have h1g : 0 < 1 - γ := by linarith
  have lower : ∀ s, W s + m / (1 - γ) ≤ vd s := by
    apply le_fixed hTd hγ1 _ vd hd
    intro s
    rw [hTd.shift W (m / (1 - γ)) s, hgreedy s]
    have := hm s
    have e : m / (1 - γ) = m + γ * (m / (1 - γ)) := by field_simp; ring
    linarith
  have upper : ∀ s, vstar s ≤ W s + M / (1 - γ) := by
    apply fixed_le hT hγ1 _ vstar hstar
    intro s
    rw [hT.shift W (M / (1 - γ)) s]
    have := hM s
    have e : M / (1 - γ) = M + γ * (M / (1 - γ)) := by field_simp; ring
    linarith
  have mid : ∀ s, vd s ≤ vstar s := by
    apply le_fixed hT hγ1 vd vstar hstar
    intro s; rw [← hd s]; exact hle vd s
  exact fun s => ⟨lower s, mid s, upper s⟩

/-- C01, value iteration with the span test: W = T V, span(W − V) < ε(1−γ)/γ, policy greedy for W ⇒ 0 ≤ v* − v_d < ε -/
theorem vi_span_bound {γ ε : ℝ} {T Td : (S → ℝ) → (S → ℝ)} (hT : DiscOp γ T) (hTd : DiscOp γ Td)
    (hγ0 : 0 < γ) (hγ1 : γ < 1) (V W vstar vd : S → ℝ) (m M : ℝ)
    (hW : ∀ s, W s = T V s)
    (hstar : ∀ s, T vstar s = vstar s) (hd : ∀ s, Td vd s = vd s)
    (hle : ∀ U s, Td U s ≤ T U s) (hgreedy : ∀ s, Td W s = T W s)
    (hm : ∀ s, m ≤ W s - V s) (hM : ∀ s, W s - V s ≤ M)
    (hstop : M - m < ε * (1 - γ) / γ) :
    ∀ s, 0 ≤ vstar s - vd s ∧ vstar s - vd s < ε := by
  have h1g : 0 < 1 - γ := by linarith
  have hsc := span_contraction hT W V m M hm hM
  have hm' : ∀ s, γ * m ≤ T W s - W s := fun s => by have := (hsc s).1; rw [← hW s] at this; exact this
  have hM' : ∀ s, T W s - W s ≤ γ * M := fun s => by have := (hsc s).2; rw [← hW s] at this; exact this
  have hb := greedy_bracket hT hTd hγ1 W vstar vd (γ * m) (γ * M) hstar hd hle hgreedy hm' hM'
  intro s
  obtain ⟨h1, h2, h3⟩ := hb s
  refine ⟨by linarith, ?_⟩
  have key : γ * M / (1 - γ) - γ * m / (1 - γ) < ε := by
    have : γ * M / (1 - γ) - γ * m / (1 - γ) = γ * (M - m) / (1 - γ) := by ring
    rw [this, div_lt_iff₀ h1g]
    have h4 : γ * (M - m) < ε * (1 - γ) := by
      have := (lt_div_iff₀ hγ0).mp hstop
      linarith
    linarith
  linarith

/-- C01, max_diff test: |W − V| ≤ c < ε(1−γ)/γ with W = T V ⇒ |W − v*| < ε and v* − v_d < 2ε -/
theorem vi_maxdiff_bound {γ ε : ℝ} {T Td : (S → ℝ) → (S → ℝ)} (hT : DiscOp γ T) (hTd : DiscOp γ Td)
    (hγ0 : 0 < γ) (hγ1 : γ < 1) (V W vstar vd : S → ℝ) (c : ℝ)
    (hW : ∀ s, W s = T V s)
    (hstar : ∀ s, T vstar s = vstar s) (hd : ∀ s, Td vd s = vd s)
    (hle : ∀ U s, Td U s ≤ T U s) (hgreedy : ∀ s, Td W s = T W s)
    (hc : ∀ s, |W s - V s| ≤ c) (hstop : c < ε * (1 - γ) / γ) :
    (∀ s, |W s - vstar s| < ε) ∧ (∀ s, 0 ≤ vstar s - vd s ∧ vstar s - vd s < 2 * ε) := by
  have h1g : 0 < 1 - γ := by linarith
  have hγc : γ * c < ε * (1 - γ) := by have := (lt_div_iff₀ hγ0).mp hstop; linarith
  have hcon := contraction hT W V c hc
  have hm' : ∀ s, -(γ * c) ≤ T W s - W s := fun s => by
    have := (abs_le.mp (hcon s)).1; rw [← hW s] at this; linarith
  have hM' : ∀ s, T W s - W s ≤ γ * c := fun s => by
    have := (abs_le.mp (hcon s)).2; rw [← hW s] at this; linarith
  have hb := greedy_bracket hT hTd hγ1 W vstar vd (-(γ * c)) (γ * c) hstar hd hle hgreedy hm' hM'
  have hq : γ * c / (1 - γ) < ε := by rw [div_lt_iff₀ h1g]; linarith
  -- lower bracket for v*: W − γc/(1−γ) ≤ v*
  have lowstar : ∀ s, W s + -(γ * c) / (1 - γ) ≤ vstar s := by
    apply le_fixed hT hγ1 _ vstar hstar
    intro s
    rw [hT.shift W (-(γ * c) / (1 - γ)) s]
    have := hm' s
    have e : -(γ * c) / (1 - γ) = -(γ * c) + γ * (-(γ * c) / (1 - γ)) := by field_simp; ring
    linarith
  constructor
  · intro s
    obtain ⟨_, _, h3⟩ := hb s
    have h4 := lowstar s
    have e : -(γ * c) / (1 - γ) = -(γ * c / (1 - γ)) := by ring
    rw [abs_lt]; constructor <;> linarith
  · intro s
    obtain ⟨h1, h2, h3⟩ := hb s
    have e : -(γ * c) / (1 - γ) = -(γ * c / (1 - γ)) := by ring
    constructor <;> linarith

/-- C05: evaluation accuracy. |T_d v − v| ≤ c ⇒ |v − v_d| ≤ c/(1−γ) -/
theorem eval_bound {γ : ℝ} {Td : (S → ℝ) → (S → ℝ)} (hTd : DiscOp γ Td) (hγ1 : γ < 1)
    (v vd : S → ℝ) (c : ℝ) (hd : ∀ s, Td vd s = vd s) (hc : ∀ s, |Td v s - v s| ≤ c) :
    ∀ s, |v s - vd s| ≤ c / (1 - γ) := by
  have h1g : 0 < 1 - γ := by linarith
  have e : c / (1 - γ) = c + γ * (c / (1 - γ)) := by field_simp; ring
  have up : ∀ s, vd s ≤ v s + c / (1 - γ) := by
    apply fixed_le hTd hγ1 _ vd hd
    intro s; rw [hTd.shift v (c / (1 - γ)) s]
    have := (abs_le.mp (hc s)).2; linarith
  have lo : ∀ s, v s + -(c / (1 - γ)) ≤ vd s := by
    apply le_fixed hTd hγ1 _ vd hd
    intro s; rw [hTd.shift v (-(c / (1 - γ))) s]
    have := (abs_le.mp (hc s)).1; linarith
  intro s; rw [abs_le]; constructor
  · have := up s; linarith
  · have := lo s; linarith

/-- C05/C01 with the documented threshold: |T_d v − v| < ε(1−γ)/γ ⇒ |v − v_d| < ε/γ -/
theorem eval_bound_threshold {γ ε : ℝ} {Td : (S → ℝ) → (S → ℝ)} (hTd : DiscOp γ Td) (hγ0 : 0 < γ) (hγ1 : γ < 1)
    (v vd : S → ℝ) (c : ℝ) (hd : ∀ s, Td vd s = vd s) (hc : ∀ s, |Td v s - v s| ≤ c)
    (hstop : c < ε * (1 - γ) / γ) : ∀ s, |v s - vd s| < ε / γ := by
  have h1g : 0 < 1 - γ := by linarith
  intro s
  have h := eval_bound hTd hγ1 v vd c hd hc s
  have : c / (1 - γ) < ε / γ := by
    rw [div_lt_div_iff₀ h1g hγ0]
    have := (lt_div_iff₀ hγ0).mp hstop
    linarith
  linarith

/-- C01, policy iteration at a stable policy: d greedy for v and evaluated, m ≤ T_d v − v ≤ M, M − m < ε(1−γ)/γ ⇒ 0 ≤ v* − v_d < ε/γ -/
theorem pi_bound {γ ε : ℝ} {T Td : (S → ℝ) → (S → ℝ)} (hT : DiscOp γ T) (hTd : DiscOp γ Td)
    (hγ0 : 0 < γ) (hγ1 : γ < 1) (v vstar vd : S → ℝ) (m M : ℝ)
    (hstar : ∀ s, T vstar s = vstar s) (hd : ∀ s, Td vd s = vd s)
    (hle : ∀ U s, Td U s ≤ T U s) (hgreedy : ∀ s, Td v s = T v s)
    (hm : ∀ s, m ≤ Td v s - v s) (hM : ∀ s, Td v s - v s ≤ M)
    (hstop : M - m < ε * (1 - γ) / γ) :
    ∀ s, 0 ≤ vstar s - vd s ∧ vstar s - vd s < ε / γ := by
  have h1g : 0 < 1 - γ := by linarith
  have hm' : ∀ s, m ≤ T v s - v s := fun s => by rw [← hgreedy s]; exact hm s
  have hM' : ∀ s, T v s - v s ≤ M := fun s => by rw [← hgreedy s]; exact hM s
  have hb := greedy_bracket hT hTd hγ1 v vstar vd m M hstar hd hle hgreedy hm' hM'
  intro s
  obtain ⟨h1, h2, h3⟩ := hb s
  refine ⟨by linarith, ?_⟩
  have key : M / (1 - γ) - m / (1 - γ) < ε / γ := by
    have : M / (1 - γ) - m / (1 - γ) = (M - m) / (1 - γ) := by ring
    rw [this, div_lt_div_iff₀ h1g hγ0]
    have := (lt_div_iff₀ hγ0).mp hstop
    linarith
  linarith

/-- Singh–Yee: d greedy for W, |W − v*| ≤ e ⇒ v* − v_d ≤ 2γe/(1−γ) (C01 semi-asynchronous) -/
theorem singh_yee {γ : ℝ} {T Td : (S → ℝ) → (S → ℝ)} (hT : DiscOp γ T) (hTd : DiscOp γ Td)
    (hγ1 : γ < 1) (W vstar vd : S → ℝ) (e : ℝ)
    (hstar : ∀ s, T vstar s = vstar s) (hd : ∀ s, Td vd s = vd s)
    (hle : ∀ U s, Td U s ≤ T U s) (hgreedy : ∀ s, Td W s = T W s)
    (he : ∀ s, |W s - vstar s| ≤ e) :
    ∀ s, 0 ≤ vstar s - vd s ∧ vstar s - vd s ≤ 2 * γ * e / (1 - γ) := by
  have h1g : 0 < 1 - γ := by linarith
  have mid : ∀ s, vd s ≤ vstar s := by
    apply le_fixed hT hγ1 vd vstar hstar
    intro s; rw [← hd s]; exact hle vd s
  set x := fmax (fun s => vstar s - vd s) with hx
  have hxs : ∀ s, vstar s - vd s ≤ x := fun s => le_fmax (fun s => vstar s - vd s) s
  -- v* = T v* ≤ T W + γ e = T_d W + γ e ;  W ≤ v_d + (x + e) ⇒ T_d W ≤ v_d + γ (x + e)
  have h1 : ∀ s, vstar s ≤ T W s + γ * e := fun s => by
    have := hT.le_add vstar W e (fun s => by have := (abs_le.mp (he s)).1; linarith) s
    rw [hstar s] at this; exact this
  have h2 : ∀ s, Td W s ≤ vd s + γ * (x + e) := fun s => by
    have := hTd.le_add W vd (x + e) (fun s => by
      have := (abs_le.mp (he s)).2; have := hxs s; linarith) s
    rw [hd s] at this; exact this
  obtain ⟨s0, hs0⟩ := exists_fmax (fun s => vstar s - vd s)
  have h3 : x ≤ γ * x + 2 * γ * e := by
    have a := h1 s0; have b := h2 s0; rw [hgreedy s0] at b
    have : vstar s0 - vd s0 = x := hs0
    nlinarith
  have hxb : x ≤ 2 * γ * e / (1 - γ) := by
    rw [le_div_iff₀ h1g]; nlinarith
  intro s
  exact ⟨by have := mid s; linarith, le_trans (hxs s) hxb⟩

end Mdpax
