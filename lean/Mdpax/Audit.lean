import Mdpax.Bounds
import Mdpax.GaussSeidel
import Mdpax.Average
import Mdpax.Bellman
open Mdpax
#print axioms vi_span_bound
#print axioms vi_maxdiff_bound
#print axioms pi_bound
#print axioms eval_bound_threshold
#print axioms singh_yee
#print axioms gs_new_value_near
#print axioms gs_fixed_point
#print axioms contraction_to_fixed_bound
#print axioms periodic_gain_within
#print axioms rvi_gain_within
#print axioms rvi_monotone_bracket
#print axioms policy_gain_bracket
#print axioms bell_discop
#print axioms matrix_backup_eq
#print axioms telescope
