import Mdpax.Bounds
import Mdpax.GaussSeidel
import Mdpax.Average
import Mdpax.Bellman
import Mdpax.Engine
import Mdpax.Events
open Mdpax
#print axioms contraction
#print axioms span_contraction
#print axioms le_fixed
#print axioms fixed_le
#print axioms greedy_bracket
#print axioms vi_span_bound
#print axioms vi_maxdiff_bound
#print axioms eval_bound
#print axioms eval_bound_threshold
#print axioms pi_bound
#print axioms singh_yee
#print axioms gs_new_value_near
#print axioms gs_fixed_point
#print axioms gs_fixed_converse
#print axioms contraction_to_fixed_bound
#print axioms periodic_gain_bracket
#print axioms periodic_gain_within
#print axioms rvi_gain_within
#print axioms rvi_monotone_bracket
#print axioms policy_gain_eq
#print axioms policy_gain_bracket
#print axioms bell_discop
#print axioms bellpol_discop
#print axioms bellpol_le_bell
#print axioms greedy_eq
#print axioms matrix_backup_eq
#print axioms telescope
#print axioms ravel2_inj
#print axioms ravel2_lt
#print axioms events_sum_one
#print axioms events_nonneg
#print axioms ravel2_surj
#print axioms ravel3_inj
#print axioms ravel3_surj
#print axioms perm_argsort_inv
