import Mdpax.Basic

/-! Undiscounted (average-reward) bounds for relative and periodic value iteration (C04, C07).
    `(g, h)` is a solution of the optimality equation `T h = h + g`; stationary distributions are given. -/
open Finset

namespace Mdpax
variable {S : Type} [Fintype S] [Nonempty S]

/-- iterates of an undiscounted operator commute with constant shifts and stay monotone -/
lemma iterate_le_add {T : (S → ℝ) → (S → ℝ)} (hT : DiscOp 1 T) (V W : S → ℝ) (c : ℝ)
    (h : ∀ s, V s ≤ W s + c) : ∀ (k : ℕ) (s : S), T^[k] V s ≤ T^[k] W s + c := by
  intro k
  induction k generalizing V W with
  | zero => intro s; simpa using h s
  | succ k ih =>
    intro s
    have h1 : ∀ s, T V s ≤ T W s + c := fun s => by have := hT.le_add V W c h s; linarith
    simpa [Function.iterate_succ] using ih (T V) (T W) h1 s

lemma iterate_aroe {T : (S → ℝ) → (S → ℝ)} (hT : DiscOp 1 T) (h : S → ℝ) (g : ℝ)
    (hh : ∀ s, T h s = h s + g) : ∀ (k : ℕ) (s : S), T^[k] h s = h s + k * g := by
  intro k
  induction k with
  | zero => intro s; simp
  | succ k ih =>
    intro s
    have e : T h = fun x => h x + g := funext hh
    rw [Function.iterate_succ, Function.comp, e]
    -- T^[k] (h + g) = T^[k] h + g by monotone shift both ways
    have up := iterate_le_add hT (fun x => h x + g) h g (fun s => le_refl _) k s
    have lo := iterate_le_add hT h (fun x => h x + g) (-g) (fun s => by simp) k s
    have := ih s
    push_cast
    linarith

/-- C04/C07: for every V some component of T^P V − V is ≤ P·g and some component is ≥ P·g -/
theorem periodic_gain_bracket {T : (S → ℝ) → (S → ℝ)} (hT : DiscOp 1 T) (h : S → ℝ) (g : ℝ)
    (hh : ∀ s, T h s = h s + g) (V : S → ℝ) (P : ℕ) :
    (∃ s, T^[P] V s - V s ≤ P * g) ∧ (∃ s, (P : ℝ) * g ≤ T^[P] V s - V s) := by
  constructor
  · obtain ⟨s1, hs1⟩ := exists_fmax (fun s => V s - h s)
    refine ⟨s1, ?_⟩
    have hle : ∀ s, V s ≤ h s + fmax (fun s => V s - h s) := fun s => by
      have := le_fmax (fun s => V s - h s) s; linarith
    have := iterate_le_add hT V h _ hle P s1
    rw [iterate_aroe hT h g hh P s1] at this
    have e : fmax (fun s => V s - h s) = V s1 - h s1 := hs1.symm
    linarith
  · obtain ⟨s2, hs2⟩ := exists_fmax (fun s => h s - V s)
    refine ⟨s2, ?_⟩
    have hle : ∀ s, h s ≤ V s + fmax (fun s => h s - V s) := fun s => by
      have := le_fmax (fun s => h s - V s) s; linarith
    have := iterate_le_add hT h V _ hle P s2
    rw [iterate_aroe hT h g hh P s2] at this
    have e : fmax (fun s => h s - V s) = h s2 - V s2 := hs2.symm
    linarith

/-- C07: span(V_n − V_{n−P}) < ε ⇒ every component of (V_n − V_{n−P})/P is within ε/P of g, i.e. |Δ s − P g| < ε -/
theorem periodic_gain_within {T : (S → ℝ) → (S → ℝ)} (hT : DiscOp 1 T) (h : S → ℝ) (g ε : ℝ)
    (hh : ∀ s, T h s = h s + g) (V : S → ℝ) (P : ℕ)
    (hspan : ∀ s s', (T^[P] V s - V s) - (T^[P] V s' - V s') < ε) :
    ∀ s, |T^[P] V s - V s - P * g| < ε := by
  obtain ⟨⟨s1, h1⟩, ⟨s2, h2⟩⟩ := periodic_gain_bracket hT h g hh V P
  intro s
  rw [abs_lt]; constructor
  · have := hspan s2 s; linarith
  · have := hspan s s1; linarith

/-- C04: relative value iteration, P = 1 -/
theorem rvi_gain_within {T : (S → ℝ) → (S → ℝ)} (hT : DiscOp 1 T) (h : S → ℝ) (g ε : ℝ)
    (hh : ∀ s, T h s = h s + g) (V : S → ℝ)
    (hspan : ∀ s s', (T V s - V s) - (T V s' - V s') < ε) : ∀ s, |T V s - V s - g| < ε := by
  have := periodic_gain_within hT h g ε hh V 1 (by simpa using hspan)
  simpa using this

/-- C04: residual bracket is monotone along value iteration: m ≤ T V − V ≤ M ⇒ m ≤ T(T V) − T V ≤ M -/
theorem rvi_monotone_bracket {T : (S → ℝ) → (S → ℝ)} (hT : DiscOp 1 T) (V : S → ℝ) (m M : ℝ)
    (hm : ∀ s, m ≤ T V s - V s) (hM : ∀ s, T V s - V s ≤ M) :
    ∀ s, m ≤ T (T V) s - T V s ∧ T (T V) s - T V s ≤ M := by
  intro s
  have a := hT.add_le (T V) V m (fun s => by have := hm s; linarith) s
  have b := hT.le_add (T V) V M (fun s => by have := hM s; linarith) s
  constructor <;> linarith

/-- C04: exact long-run average reward of a stationary policy with stationary distribution μ equals the
    μ-average of the one-step residual of ANY value function; hence it is bracketed by min/max of T_d W − W -/
theorem policy_gain_eq (r : S → ℝ) (P : S → S → ℝ) (μ : S → ℝ)
    (hstat : ∀ s', ∑ s, μ s * P s s' = μ s') (W : S → ℝ) :
    ∑ s, μ s * ((r s + ∑ s', P s s' * W s') - W s) = ∑ s, μ s * r s := by
  have h1 : ∑ s, μ s * ∑ s', P s s' * W s' = ∑ s', μ s' * W s' := by
    calc ∑ s, μ s * ∑ s', P s s' * W s' = ∑ s, ∑ s', μ s * P s s' * W s' := by
          apply Finset.sum_congr rfl; intro s _; rw [Finset.mul_sum]; apply Finset.sum_congr rfl; intro s' _; ring
      _ = ∑ s', ∑ s, μ s * P s s' * W s' := Finset.sum_comm
      _ = ∑ s', μ s' * W s' := by
          apply Finset.sum_congr rfl; intro s' _; rw [← Finset.sum_mul, hstat s']
  have : ∑ s, μ s * ((r s + ∑ s', P s s' * W s') - W s)
       = ∑ s, μ s * r s + ∑ s, μ s * ∑ s', P s s' * W s' - ∑ s, μ s * W s := by
    rw [← Finset.sum_add_distrib, ← Finset.sum_sub_distrib]; apply Finset.sum_congr rfl; intro s _; ring
  rw [this, h1]; ring

theorem policy_gain_bracket (r : S → ℝ) (P : S → S → ℝ) (μ : S → ℝ)
    (hμ0 : ∀ s, 0 ≤ μ s) (hμ1 : ∑ s, μ s = 1) (hstat : ∀ s', ∑ s, μ s * P s s' = μ s') (W : S → ℝ) (m M : ℝ)
    (hm : ∀ s, m ≤ (r s + ∑ s', P s s' * W s') - W s) (hM : ∀ s, (r s + ∑ s', P s s' * W s') - W s ≤ M) :
    m ≤ ∑ s, μ s * r s ∧ ∑ s, μ s * r s ≤ M := by
  rw [← policy_gain_eq r P μ hstat W]
  constructor
  · calc m = ∑ s, μ s * m := by rw [← Finset.sum_mul, hμ1, one_mul]
      _ ≤ _ := Finset.sum_le_sum (fun s _ => mul_le_mul_of_nonneg_left (hm s) (hμ0 s))
  · calc _ ≤ ∑ s, μ s * M := Finset.sum_le_sum (fun s _ => mul_le_mul_of_nonneg_left (hM s) (hμ0 s))
      _ = M := by rw [← Finset.sum_mul, hμ1, one_mul]

end Mdpax
