import Mdpax.Basic

/-! Block Gauss–Seidel sweeps (semi-asynchronous value iteration): for every ordered list of blocks the
    sweep contracts towards the fixed point of `T` and has the same fixed point (C01, C03, C06). -/
open Finset

namespace Mdpax
variable {S : Type} [Fintype S] [Nonempty S] [DecidableEq S]

/-- one batch: states in `B` are replaced by their backup computed from the current carry -/
def gsStep (T : (S → ℝ) → (S → ℝ)) (B : Finset S) (c : S → ℝ) : S → ℝ :=
  fun s => if s ∈ B then T c s else c s

/-- carry after processing the blocks of one device in order -/
def gsRun (T : (S → ℝ) → (S → ℝ)) (L : List (Finset S)) (c : S → ℝ) : S → ℝ :=
  L.foldl (fun c B => gsStep T B c) c

/-- one batch keeps the carry within `e` of the fixed point (needs 0 ≤ γ ≤ 1, e ≥ 0) -/
lemma gsStep_near {γ : ℝ} {T : (S → ℝ) → (S → ℝ)} (hT : DiscOp γ T) (hγ0 : 0 ≤ γ) (hγ1 : γ ≤ 1)
    (vstar : S → ℝ) (hstar : ∀ s, T vstar s = vstar s) (B : Finset S) (c : S → ℝ) (e : ℝ) (he : 0 ≤ e)
    (h : ∀ s, |c s - vstar s| ≤ e) : ∀ s, |gsStep T B c s - vstar s| ≤ e := by
  intro s
  unfold gsStep
  split_ifs with hs
  · have := contraction hT c vstar e h s
    rw [hstar s] at this
    have : γ * e ≤ e := by nlinarith
    linarith
  · exact h s

/-- the whole run keeps the carry within `e` -/
lemma gsRun_near {γ : ℝ} {T : (S → ℝ) → (S → ℝ)} (hT : DiscOp γ T) (hγ0 : 0 ≤ γ) (hγ1 : γ ≤ 1)
    (vstar : S → ℝ) (hstar : ∀ s, T vstar s = vstar s) (e : ℝ) (he : 0 ≤ e) :
    ∀ (L : List (Finset S)) (c : S → ℝ), (∀ s, |c s - vstar s| ≤ e) → ∀ s, |gsRun T L c s - vstar s| ≤ e := by
  intro L
  induction L with
  | nil => intro c h; simpa [gsRun] using h
  | cons B L ih =>
    intro c h
    have h' := gsStep_near hT hγ0 hγ1 vstar hstar B c e he h
    have := ih (gsStep T B c) h'
    simpa [gsRun, List.foldl] using this

/-- C01/C03/C06: the value written for a state in the block processed after the prefix `L` is within γ·e of v*,
    for every prefix `L` (hence every partition, batch size, device split and permutation) -/
theorem gs_new_value_near {γ : ℝ} {T : (S → ℝ) → (S → ℝ)} (hT : DiscOp γ T) (hγ0 : 0 ≤ γ) (hγ1 : γ ≤ 1)
    (vstar : S → ℝ) (hstar : ∀ s, T vstar s = vstar s) (V : S → ℝ) (e : ℝ) (he : 0 ≤ e)
    (hV : ∀ s, |V s - vstar s| ≤ e) (L : List (Finset S)) (s : S) :
    |T (gsRun T L V) s - vstar s| ≤ γ * e := by
  have hc := gsRun_near hT hγ0 hγ1 vstar hstar e he L V hV
  have := contraction hT (gsRun T L V) vstar e hc s
  rwa [hstar s] at this

/-- same fixed point: starting from v*, every batch rewrites v* -/
theorem gs_fixed_point {T : (S → ℝ) → (S → ℝ)} (vstar : S → ℝ) (hstar : ∀ s, T vstar s = vstar s) :
    ∀ (L : List (Finset S)), gsRun T L vstar = vstar := by
  intro L
  induction L with
  | nil => rfl
  | cons B L ih =>
    have hstep : gsStep T B vstar = vstar := by
      funext s; unfold gsStep; split_ifs <;> simp [hstar s]
    simp [gsRun, List.foldl, hstep] at ih ⊢
    exact ih

/-- converse: if a sweep whose blocks cover `s` reproduces the carry everywhere, then `T V s = V s` is what was written.
    Stated per written value: a sweep that leaves `V` unchanged wrote `T V` computed from an unchanged carry. -/
theorem gs_fixed_converse {T : (S → ℝ) → (S → ℝ)} (V : S → ℝ) (B : Finset S) (h : gsStep T B V = V) :
    ∀ s ∈ B, T V s = V s := by
  intro s hs
  have := congrFun h s
  simpa [gsStep, hs] using this

/-- C01 semi-asynchronous max_diff: O = the written values (any sweep), |O V − V| ≤ c < ε(1−γ)/γ and
    |O V − v*| ≤ γ |V − v*| pointwise-in-sup ⇒ |O V − v*| < ε. Abstract form over any γ-contraction toward v*. -/
theorem contraction_to_fixed_bound {γ ε : ℝ} (hγ0 : 0 < γ) (hγ1 : γ < 1)
    (V OV vstar : S → ℝ) (c e : ℝ)
    (hc : ∀ s, |OV s - V s| ≤ c) (he : ∀ s, |V s - vstar s| ≤ e) (he_tight : ∃ s, |V s - vstar s| = e)
    (hcon : ∀ s, |OV s - vstar s| ≤ γ * e) (hstop : c < ε * (1 - γ) / γ) :
    ∀ s, |OV s - vstar s| < ε := by
  have h1g : 0 < 1 - γ := by linarith
  obtain ⟨s0, hs0⟩ := he_tight
  -- e = |V s0 − v* s0| ≤ |V s0 − OV s0| + |OV s0 − v* s0| ≤ c + γ e
  have h1 : e ≤ c + γ * e := by
    have a := hc s0; have b := hcon s0
    have tri : |V s0 - vstar s0| ≤ |OV s0 - V s0| + |OV s0 - vstar s0| := by
      have := abs_sub_le (V s0) (OV s0) (vstar s0)
      rw [abs_sub_comm (V s0) (OV s0)] at this; exact this
    linarith
  have h2 : γ * c < ε * (1 - γ) := by have := (lt_div_iff₀ hγ0).mp hstop; linarith
  have h3 : γ * e < ε := by nlinarith
  intro s; exact lt_of_le_of_lt (hcon s) h3

end Mdpax
