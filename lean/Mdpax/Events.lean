import Mathlib.Algebra.BigOperators.Group.Finset.Basic
import Mathlib.Algebra.BigOperators.Ring.Finset
import Mathlib.Data.Real.Basic
import Mathlib.Tactic

/-! Composition lemma for C13 (Mirjalili): probabilities over an *enumerated* event space sum to one.

The code obligations supply the hypotheses (contracts/mirjalili_events.py, contracts/probabilities.py):
* `hmem`, `hinj`, `hsurj` : the listed events are exactly the documented event set `range (D+1) ×ˢ R`, each once
  (`_construct_random_event_space.post.every_row_is_a_documented_event`, `no_event_is_listed_twice`, `every_documented_event_is_listed`);
* the summand `nb d * g r` : `random_event_probability.post.censored_negbin_of_the_weekday_times_multinomial_split_of_the_order`;
* `hnb` : the censored demand factor sums to one (`_calculate_demand_probabilities.post.sums_to_one`);
* `hg`  : the split factor sums to one over the documented splits - a property of the multinomial pmf (assumed library contract). -/
open Finset BigOperators

namespace Mdpax

theorem events_sum_one {N : ℕ} {α : Type*} [DecidableEq α] (E : Fin N → ℕ × α) (D : ℕ) (R : Finset α) (nb : ℕ → ℝ) (g : α → ℝ)
    (hmem : ∀ k, E k ∈ (Finset.range (D + 1)) ×ˢ R) (hinj : Function.Injective E)
    (hsurj : ∀ x ∈ (Finset.range (D + 1)) ×ˢ R, ∃ k, E k = x)
    (hnb : ∑ d ∈ Finset.range (D + 1), nb d = 1) (hg : ∑ r ∈ R, g r = 1) :
    ∑ k : Fin N, nb (E k).1 * g (E k).2 = 1 := by
  have h1 : ∑ k : Fin N, nb (E k).1 * g (E k).2 = ∑ x ∈ (Finset.range (D + 1)) ×ˢ R, nb x.1 * g x.2 := by
    apply Finset.sum_bij (fun k _ => E k)
    · intro k _; exact hmem k
    · intro a _ b _ h; exact hinj h
    · intro x hx; obtain ⟨k, hk⟩ := hsurj x hx; exact ⟨k, Finset.mem_univ k, hk⟩
    · intro k _; rfl
  rw [h1, Finset.sum_product]
  simp_rw [← Finset.mul_sum, hg, mul_one]
  exact hnb

/-- every term is non-negative when both factors are -/
theorem events_nonneg {α : Type*} (nb : ℕ → ℝ) (g : α → ℝ) (hnb : ∀ d, 0 ≤ nb d) (hg : ∀ r, 0 ≤ g r) (d : ℕ) (r : α) : 0 ≤ nb d * g r :=
  mul_nonneg (hnb d) (hg r)

end Mdpax
