#!/usr/bin/env python3
"""Compile the Lean lemma library (no lake: `lean -o` per file with LEAN_PATH) and audit the axioms of every theorem
listed in Mdpax/Audit.lean.  Recompiles a file only when its source hash (or that of a dependency) changed, unless --force.
Writes build/status.json.  Thorough (--force) additionally runs leanchecker on the compiled files."""
import os, sys, json, hashlib, subprocess, re, time, fcntl

HERE = os.path.dirname(os.path.abspath(__file__))
BUILD = os.path.join(HERE, "build")
ORDER = ["Basic", "Bellman", "Bounds", "GaussSeidel", "Average", "Engine", "Events", "Chain"]
DEPS = {"Basic": [], "Bellman": ["Basic"], "Bounds": ["Basic"], "GaussSeidel": ["Basic"], "Average": ["Basic"], "Engine": [], "Events": [], "Chain": ["Basic", "Bounds"]}
FORBIDDEN = re.compile(r"\b(sorry|admit|native_decide|axiom|unsafe|implemented_by|extern)\b")


def sha(path):
    return hashlib.sha256(open(path, "rb").read()).hexdigest()


def closure_hash(name, cache={}):
    if name in cache: return cache[name]
    h = hashlib.sha256(sha(os.path.join(HERE, "Mdpax", name + ".lean")).encode())
    for d in DEPS.get(name, []): h.update(closure_hash(d).encode())
    cache[name] = h.hexdigest(); return cache[name]


def main():
    force = "--force" in sys.argv
    os.makedirs(os.path.join(BUILD, "Mdpax"), exist_ok=True)
    lock = open(os.path.join(BUILD, ".lock"), "w"); fcntl.flock(lock, fcntl.LOCK_EX)      # concurrent checks share one build
    t0 = time.time()
    stamp_path = os.path.join(BUILD, "stamps.json")
    stamps = json.load(open(stamp_path)) if os.path.exists(stamp_path) else {}
    env = dict(os.environ, LEAN_PATH=BUILD)
    status = {"ok": True, "compiled": [], "reused": [], "errors": [], "theorems": {}, "forbidden_tokens": []}
    order = [n for n in ORDER if os.path.exists(os.path.join(HERE, "Mdpax", n + ".lean"))]
    for n in order:
        src = os.path.join(HERE, "Mdpax", n + ".lean")
        text = re.sub(r"--.*", "", open(src).read()); text = re.sub(r"/-.*?-/", "", text, flags=re.S)
        for m in FORBIDDEN.finditer(text):
            status["forbidden_tokens"].append(f"{n}.lean: {m.group(0)}"); status["ok"] = False
        ol = os.path.join(BUILD, "Mdpax", n + ".olean"); h = closure_hash(n)
        if not force and stamps.get(n) == h and os.path.exists(ol):
            status["reused"].append(n); continue
        p = subprocess.run(["lean", "-o", ol, src], capture_output=True, text=True, env=env, cwd=HERE)
        errs = [l for l in (p.stdout + p.stderr).splitlines() if ": error" in l]
        if p.returncode != 0 or errs:
            status["ok"] = False; status["errors"].append(f"{n}: " + "\n".join(errs[:5]) + (p.stderr[-500:] if not errs else "")); stamps.pop(n, None)
            break
        stamps[n] = h; status["compiled"].append(n)
    json.dump(stamps, open(stamp_path, "w"))
    audit_h = hashlib.sha256((sha(os.path.join(HERE, "Mdpax", "Audit.lean")) + "".join(closure_hash(n) for n in order)).encode()).hexdigest()
    audit_path = os.path.join(BUILD, "audit.json")
    prev = json.load(open(audit_path)) if os.path.exists(audit_path) else {}
    if status["ok"]:
        if force or prev.get("hash") != audit_h:
            p = subprocess.run(["lean", os.path.join(HERE, "Mdpax", "Audit.lean")], capture_output=True, text=True, env=env, cwd=HERE)
            th = {}
            out = (p.stdout + p.stderr).replace("\n  ", " ")
            for m in re.finditer(r"'Mdpax\.([A-Za-z0-9_.']+)' depends on axioms: \[([^\]]*)\]", out):
                ax = [x.strip() for x in m.group(2).split(",") if x.strip()]
                th[m.group(1)] = {"axioms": ax, "clean": set(ax) <= {"propext", "Classical.choice", "Quot.sound"}}
            for m in re.finditer(r"'Mdpax\.([A-Za-z0-9_.']+)' does not depend on any axioms", out):
                th[m.group(1)] = {"axioms": [], "clean": True}
            if p.returncode != 0 or ": error" in out:
                status["ok"] = False; status["errors"].append("Audit: " + out[-800:])
            prev = {"hash": audit_h, "theorems": th}
            json.dump(prev, open(audit_path, "w"))
        status["theorems"] = prev.get("theorems", {})
    if force and status["ok"] and "--no-leanchecker" not in sys.argv:
        p = subprocess.run(["leanchecker"] + [f"Mdpax.{n}" for n in order], capture_output=True, text=True, env=env, cwd=HERE)
        status["leanchecker"] = {"rc": p.returncode, "tail": (p.stdout + p.stderr)[-300:]}
        if p.returncode != 0: status["ok"] = False; status["errors"].append("leanchecker failed")
    v = subprocess.run(["lean", "--version"], capture_output=True, text=True).stdout.strip()
    status["toolchain"] = v; status["wall_s"] = round(time.time() - t0, 1)
    json.dump(status, open(os.path.join(BUILD, "status.json"), "w"), indent=1)
    print(json.dumps({k: status[k] for k in ("ok", "compiled", "reused", "errors", "wall_s")}))
    return 0 if status["ok"] else 1


if __name__ == "__main__":
    sys.exit(main())
