"""Python builtins and small stdlib pieces."""
import z3
from ..values import *
from . import arrays as A

POW = z3.Function("pow", z3.RealSort(), z3.IntSort(), z3.RealSort())     # x ** n, n integer (uninterpreted; same term on both sides)
def power(x, y):
    cy = concrete_int(y)
    if not is_z3(x) and cy is not None: return x ** cy
    if cy is not None and 0 <= cy <= 4:
        r = 1
        for _ in range(cy): r = toz3(r) * toz3(x)
        return r
    x = toz3(x); y = toz3(y)
    if z3.is_int(x): x = z3.ToReal(x)
    if z3.is_int(y):
        t = POW(x, y)
        if _I[0] is not None: _I[0].assume(z3.Implies(x > 0, t > 0))      # sound fact of real exponentiation (assumed arithmetic)
        return t
    raise Unsupported("real exponent")
_I = [None]

def install(interp, ns):
    _I[0] = interp
    from ..interp import SymRange, EXC, Unresolved
    B = lambda f, n="": Builtin(f, n)
    def py_len(x):
        if isinstance(x, SArr): return x.shape[0]
        return len(x)
    def py_min(*a):
        if len(a) == 1: a = list(interp.iterate(a[0]))
        r = a[0]
        for x in a[1:]: r = A.Min(r, x)
        return r
    def py_max(*a):
        if len(a) == 1: a = list(interp.iterate(a[0]))
        r = a[0]
        for x in a[1:]: r = A.Max(r, x)
        return r
    def py_range(*a):
        lo, hi = (0, a[0]) if len(a) == 1 else (a[0], a[1])
        if len(a) == 3 and concrete_int(a[2]) != 1: raise Unsupported("range step")
        if concrete_int(lo) is not None and concrete_int(hi) is not None: return range(concrete_int(lo), concrete_int(hi))
        return SymRange(lo, hi)
    def py_isinstance(x, t):
        ts = t if isinstance(t, tuple) else (t,)
        for t1 in ts:
            if t1 is int and (isinstance(x, int) and not isinstance(x, bool) or (is_z3(x) and z3.is_int(x))): return True
            if t1 is float and (isinstance(x, float) or (is_z3(x) and z3.is_real(x))): return True
            if t1 is str and isinstance(x, (str,)): return True
            if t1 is str and type(x).__name__ == "EnumSym": return True
            if t1 is bool and isinstance(x, bool): return True
            if isinstance(t1, ClassRef) and isinstance(x, Obj) and isinstance(x.cls, ClassRef) and t1 in interp.mro(x.cls): return True
        return False
    def py_hasattr(o, a):
        if isinstance(o, Obj):
            if a in o.attrs: return True
            if isinstance(o.cls, ClassRef):
                if interp.find_method(o.cls, a)[1] is not None or interp.find_class_attr(o.cls, a)[1] is not None: return True
            return False
        try: interp.getattr(o, a); return True
        except PyRaise: return False
    def py_float(x):
        if isinstance(x, str):
            if x in ("inf", "+inf"): return float("inf")
            return float(x)
        if isinstance(x, SArr) and x.ndim == 0: x = x.get(())
        if is_z3(x): return z3.ToReal(x) if z3.is_int(x) else x
        return float(x)
    def py_int(x):
        if isinstance(x, SArr) and x.ndim == 0: x = x.get(())
        if is_z3(x):
            if not z3.is_real(x): return x
            xs = z3.simplify(x)
            if z3.is_app(xs) and xs.decl().kind() == z3.Z3_OP_TO_REAL: return xs.arg(0)          # int(float(k)) = k
            return z3.If(x >= 0, z3.ToInt(x), -z3.ToInt(-x))                                     # int() truncates toward zero (ToInt is floor)
        return int(x)
    def py_abs(x): return A.elementwise(A.aabs)(x)
    def py_sum(xs, start=0):
        r = start
        for x in interp.iterate(xs): r = interp.binop("Add", r, x)
        return r
    def py_any(xs):
        xs = interp.iterate(xs)
        if any(is_z3(x) for x in xs): return z3.Or(*[toz3(x) for x in xs])
        return any(interp.truth(x) for x in xs)
    def py_all(xs):
        xs = interp.iterate(xs)
        if any(is_z3(x) for x in xs): return z3.And(*[toz3(x) for x in xs])
        return all(interp.truth(x) for x in xs)
    def py_tuple(x=()):
        if isinstance(x, SArr) and x.ndim == 1 and concrete_int(x.shape[0]) is not None: return tuple(x.tolist())
        return tuple(interp.iterate(x))
    def py_getattr(o, a, *d):
        """getattr(o, name[, default]): the default is returned when the attribute does not exist (AttributeError), as in Python"""
        try: return interp.getattr(o, a)
        except PyRaise as ex:
            if d and getattr(ex.exc, "name", None) == "AttributeError": return d[0]
            raise
    ns.update({"len": B(py_len), "min": B(py_min), "max": B(py_max), "range": B(py_range), "isinstance": B(py_isinstance),
               "hasattr": B(py_hasattr), "float": B(py_float), "int": int, "abs": B(py_abs), "sum": B(py_sum), "any": B(py_any),
               "all": B(py_all), "tuple": B(py_tuple), "list": B(lambda x=(): x if (isinstance(x, SArr) and not x.is_concrete_shape()) else list(interp.iterate(x))), "zip": B(lambda *xs: list(zip(*[interp.iterate(x) for x in xs]))),
               "enumerate": B(lambda x: list(enumerate(interp.iterate(x)))), "str": str, "bool": B(lambda x: interp.truth(x)), "dict": dict,
               "print": B(lambda *a, **k: None), "slice": slice, "True": True, "False": False, "None": None, "property": "property",
               "classmethod": "classmethod", "staticmethod": "staticmethod", "callable": callable, "getattr": B(py_getattr),
               "reversed": B(lambda x: list(reversed(interp.iterate(x)))), "round": round, "repr": repr, "type": type, "id": id, "object": object})
    ns["int"] = B(py_int); ns["float"] = B(py_float)
    def py_sorted(x, reverse=False):
        xs = list(interp.iterate(x))
        if any(is_z3(v) and concrete_int(v) is None for v in xs): raise Unsupported("sorted() of symbolic values")
        return sorted([concrete_int(v) if is_z3(v) else v for v in xs], reverse=reverse)
    def py_divmod(a, b): return (interp.binop("FloorDiv", a, b), interp.binop("Mod", a, b))
    ns["sorted"] = B(py_sorted, "sorted"); ns["divmod"] = B(py_divmod, "divmod")
    # marker types for isinstance
    ns["int"].pytype = int
    class _T:  # isinstance(x, int) receives Builtin objects; map them back
        pass
    _orig = py_isinstance
    def py_isinstance2(x, t):
        ts = t if isinstance(t, tuple) else (t,)
        ts = tuple({ns["int"]: int, ns["float"]: float, ns["str"]: str, ns["bool"]: bool}.get(t1, t1) if isinstance(t1, Builtin) or t1 in (str,) else t1 for t1 in ts)
        return _orig(x, ts)
    ns["isinstance"] = B(py_isinstance2)
