"""Lazy-array operations (assumed contracts of numpy / jax.numpy). Trusted base; conformance-tested, not proved."""
import z3
from ..values import *
from ..values import _ci
from .. import reduce as R

def _bcast2(f, a, b):
    from ..interp import bshape, elem
    sa = a.shape if isinstance(a, SArr) else (); sb = b.shape if isinstance(b, SArr) else ()
    return SArr(bshape(sa, sb), lambda idx: f(elem(a, idx), elem(b, idx)))
def Min(a, b):
    if isinstance(a, SArr) or isinstance(b, SArr): return _bcast2(Min, a, b)       # elementwise with broadcasting (jnp.minimum)
    ca, cb = concrete_int(a), concrete_int(b)
    if ca is not None and cb is not None: return min(ca, cb)
    if not is_z3(a) and not is_z3(b): return min(a, b)
    a, b = coerce_pair(a, b); return z3.If(a <= b, a, b)
def Max(a, b):
    if isinstance(a, SArr) or isinstance(b, SArr): return _bcast2(Max, a, b)
    ca, cb = concrete_int(a), concrete_int(b)
    if ca is not None and cb is not None: return max(ca, cb)
    if not is_z3(a) and not is_z3(b): return max(a, b)
    a, b = coerce_pair(a, b); return z3.If(a >= b, a, b)
def Ite(c, a, b):
    cb_ = concrete_bool(c)
    if cb_ is not None: return a if cb_ else b
    if isinstance(a, SArr) or isinstance(b, SArr):
        sh = a.shape if isinstance(a, SArr) else b.shape
        return SArr(sh, lambda idx: Ite(c, _el(a, idx), _el(b, idx)))
    a, b = coerce_pair(a, b); return z3.If(toz3(c), a, b)
def _el(v, idx):
    from ..interp import elem
    return elem(v, idx)
def prod(xs):
    r = 1
    for x in xs:
        cx, cr = concrete_int(x), concrete_int(r)
        r = cx * cr if (cx is not None and cr is not None) else toz3(r) * toz3(x)
    return r
def sym_eq(a, b):
    ca, cb = concrete_int(a), concrete_int(b)
    if ca is not None and cb is not None: return ca == cb
    return z3.eq(z3.simplify(toz3(a)), z3.simplify(toz3(b)))
def plus(a, b):
    ca, cb = concrete_int(a), concrete_int(b)
    if ca is not None and cb is not None: return ca + cb
    return z3.simplify(toz3(a) + toz3(b))
def norm_index(i, n):
    """python negative-index semantics for concrete negatives"""
    c = concrete_int(i)
    if c is not None:
        if c < 0:
            cn = concrete_int(n)
            return c + cn if cn is not None else z3.simplify(toz3(n) + c)
        return c
    return i

# ---------------------------------------------------------------- indexing
def slice_bounds(sl, n):
    if sl.step not in (None, 1): raise Unsupported("slice step")
    def eff(v, default):
        if v is None: return default
        c = concrete_int(v); cn = concrete_int(n)
        if c is not None and cn is not None:
            return max(0, min(cn, c + cn if c < 0 else c))
        if c is not None and c >= 0: return Min(c, n)
        if c is not None and c < 0: return Max(plus(n, c), 0)
        v = toz3(v); nn = toz3(n)
        return z3.If(v < 0, z3.If(nn + v < 0, 0, nn + v), z3.If(v > nn, nn, v))
    start = eff(sl.start, 0); stop = eff(sl.stop, n)
    cs, ce = concrete_int(start), concrete_int(stop)
    if cs is not None and ce is not None: length = max(0, ce - cs)
    else:
        d = z3.simplify(toz3(stop) - toz3(start)); length = z3.simplify(z3.If(d < 0, 0, d))
        cl = concrete_int(length); length = cl if cl is not None else length
    return start, length

def subscript(o, idx):
    if isinstance(o, dict):
        if idx not in o:
            def sym(x): return is_z3(x) or isinstance(x, SArr) or (isinstance(x, (tuple, list)) and any(sym(y) for y in x))
            # membership of a key with symbolic components cannot be decided by Python's dict: engine limitation, never a KeyError of the program
            if sym(idx) or any(sym(k) for k in o): raise Unsupported("dictionary lookup with a symbolic key (caches keyed by parameters are outside the supported subset)")
            raise PyRaise(_exc("KeyError"), str(idx))
        return o[idx]
    if isinstance(o, (tuple, list, str, range)):
        if isinstance(idx, slice) or concrete_int(idx) is not None:
            try: return o[idx if isinstance(idx, slice) else concrete_int(idx)]
            except IndexError: raise PyRaise(_exc("IndexError"))
        return select_list(list(o), idx)
    if isinstance(o, SArr): return arr_subscript(o, idx)
    raise Unsupported(f"subscript of {type(o).__name__}")
def _exc(n):
    from ..interp import EXC
    return EXC[n]

def arr_subscript(o, idx):
    if not isinstance(idx, tuple): idx = (idx,)
    if any(x is Ellipsis for x in idx): raise Unsupported("ellipsis")
    if any(x is None for x in idx):
        # numpy newaxis: index without the None entries, then insert unit axes where they stood (found by a benign refactoring: `q[:, None]` was
        # reported as "IndexError: too many indices")
        if any(isinstance(x, SArr) and x.ndim > 0 for x in idx): raise Unsupported("newaxis combined with an index array")
        base = arr_subscript(o, tuple(x for x in idx if x is not None))
        pos = []; r = 0
        for x in idx:
            if x is None: pos.append(r); r += 1
            elif isinstance(x, slice): r += 1
        sh = list(base.shape) if isinstance(base, SArr) else []
        for p_ in pos: sh.insert(p_, 1)
        if not isinstance(base, SArr): base = SArr((), lambda i, b=base: b)
        keep = [d for d in range(len(sh)) if d not in pos]
        return SArr(tuple(sh), lambda ridx, base=base, keep=keep: base.get(tuple(ridx[d] for d in keep)))
    if len(idx) > o.ndim: raise PyRaise(_exc("IndexError"), "too many indices")
    # plan per source axis: ("int", i) | ("slice", start, length) | ("gather", arr) ; result dims in order
    plan = []; gathers = []
    if len(idx) == 1 and isinstance(idx[0], slice) and idx[0].step not in (None, 1) and concrete_int(o.shape[0]) is not None \
            and all(v is None or concrete_int(v) is not None for v in (idx[0].start, idx[0].stop, idx[0].step)):
        sl = slice(*(None if v is None else concrete_int(v) for v in (idx[0].start, idx[0].stop, idx[0].step)))
        src = list(range(concrete_int(o.shape[0])))[sl]                      # exact Python/NumPy slice semantics on a concrete length
        r = SArr((len(src),) + tuple(o.shape[1:]), lambda ridx, src=src: o.get((src[_ci(ridx[0])] if concrete_int(ridx[0]) is not None else select_list(src, ridx[0]),) + tuple(ridx[1:])))
        return r
    if len(idx) == 1 and isinstance(idx[0], slice) and idx[0].step == -1 and idx[0].start is None and idx[0].stop is None:
        n = o.shape[0]                                     # x[::-1] along the leading axis
        return SArr(o.shape, lambda ridx: o.get((plus(plus(n, -1), binop_("Sub", 0, ridx[0])),) + tuple(ridx[1:])))
    if len(idx) == 1 and isinstance(idx[0], SArr) and idx[0].ndim == 1 and is_bool_arr(idx[0]):
        return filter_rows(o, idx[0])
    for ax, ix in enumerate(idx):
        n = o.shape[ax]
        if isinstance(ix, slice):
            st, ln = slice_bounds(ix, n); plan.append(("slice", st, ln))
        elif isinstance(ix, SArr):
            if ix.ndim == 0: plan.append(("int", ix.get(())))
            else: plan.append(("gather", ix)); gathers.append(ix)
        elif ix is None: raise Unsupported("newaxis")
        else: plan.append(("int", norm_index(ix, n)))
    for ax in range(len(idx), o.ndim): plan.append(("slice", 0, o.shape[ax]))
    if len(gathers) > 1:
        # numpy advanced indexing with several index arrays: broadcast together, result dims first if separated
        raise Unsupported("multiple index arrays")
    # result shape
    rshape = []
    for p in plan:
        if p[0] == "slice": rshape.append(p[2])
        elif p[0] == "gather": rshape.extend(p[1].shape)
    def get(ridx, plan=plan):
        ridx = list(ridx); src = []; k = 0
        for p in plan:
            if p[0] == "int": src.append(p[1])
            elif p[0] == "slice":
                st = p[1]; i = ridx[k]; k += 1
                src.append(i if concrete_int(st) == 0 else plus(st, i))
            else:
                g = p[1]; sub = tuple(ridx[k:k + g.ndim]); k += g.ndim
                src.append(g.get(sub))
        return o.get(tuple(src))
    if not rshape: return get(())
    res = SArr(tuple(rshape), get)
    # vector-array structure: preserved when the last axis is kept whole
    if o.vec is not None:
        last = plan[-1]
        if last[0] == "slice" and concrete_int(last[1]) == 0 and sym_eq(last[2], o.shape[-1]):
            lead_plan = plan[:-1]
            def vec(lidx, lead_plan=lead_plan):
                lidx = list(lidx); src = []; k = 0
                for p in lead_plan:
                    if p[0] == "int": src.append(p[1])
                    elif p[0] == "slice":
                        i = lidx[k]; k += 1; src.append(i if concrete_int(p[1]) == 0 else plus(p[1], i))
                    else:
                        g = p[1]; sub = tuple(lidx[k:k + g.ndim]); k += g.ndim; src.append(g.get(sub))
                return o.vec(tuple(src))
            res.vec = vec
    # flat-backed structure survives leading full slices only
    if all(p[0] == "slice" and concrete_int(p[1]) == 0 for p in plan) and len(rshape) == o.ndim and all(sym_eq(a, b) for a, b in zip(rshape, o.shape)):
        return o
    return res

FILTERS = []          # ghost records of boolean-mask selections (assumed library contract, instantiated on demand by contracts)
def filter_rows(o, mask):
    """a[mask] with a 1-D boolean mask over the leading axis.  ASSUMED numpy contract: the result holds exactly the rows whose mask is True,
    in their original order.  n rows; SEL: result row -> source row; INV: source row -> result row.  Instances (ghost lemma calls):
      sel(j):      0 <= j < n  =>  0 <= SEL(j) < T  and  mask[SEL(j)]
      mono(j, j'): j < j'      =>  SEL(j) < SEL(j')
      onto(i):     0 <= i < T and mask[i]  =>  0 <= INV(i) < n and SEL(INV(i)) == i"""
    k = len(FILTERS); T = o.shape[0]
    n = z3.Int(f"filter_count!{k}"); SEL = z3.Function(f"filter_sel!{k}", z3.IntSort(), z3.IntSort()); INV = z3.Function(f"filter_inv!{k}", z3.IntSort(), z3.IntSort())
    mk = lambda i: _b(mask.get((i,))) if is_z3(mask.get((i,))) else z3.BoolVal(bool(mask.get((i,))))
    rec = {"n": n, "SEL": SEL, "INV": INV, "T": T, "mask": mk,
           "sel": lambda j: z3.Implies(z3.And(toz3(j) >= 0, toz3(j) < n), z3.And(SEL(toz3(j)) >= 0, SEL(toz3(j)) < toz3(T), mk(SEL(toz3(j))))),
           "mono": lambda j, j2: z3.Implies(toz3(j) < toz3(j2), SEL(toz3(j)) < SEL(toz3(j2))),
           "onto": lambda i: z3.Implies(z3.And(toz3(i) >= 0, toz3(i) < toz3(T), mk(toz3(i))), z3.And(INV(toz3(i)) >= 0, INV(toz3(i)) < n, SEL(INV(toz3(i))) == toz3(i))),
           "side": [n >= 0, n <= toz3(T)]}
    FILTERS.append(rec); SIDE.extend(rec["side"])
    return SArr((n,) + tuple(o.shape[1:]), lambda idx: o.get((SEL(toz3(idx[0])),) + tuple(idx[1:])), tag=("filter", k))
def repeat_rows(a, reps, axis=None):
    """np.repeat(a, reps, axis=0): every row repeated `reps` times consecutively -> result row k is source row k // reps
    (expressed with the row-major digits of k in shape (rows, reps), like reshape)"""
    if axis != 0 or not isinstance(a, SArr) or a.ndim < 1: raise Unsupported("np.repeat pattern")
    rows = a.shape[0]; cr = concrete_int(reps)
    if concrete_int(rows) == 1: return SArr((reps,) + tuple(a.shape[1:]), lambda idx: a.get((0,) + tuple(idx[1:])))
    total = binop_("Mult", rows, reps)
    return SArr((total,) + tuple(a.shape[1:]), lambda idx: a.get((unravel(idx[0], (rows, reps))[0],) + tuple(idx[1:])))
def concat_axis1(parts):
    parts = [from_value(p) for p in parts]
    if not all(isinstance(p, SArr) and p.ndim == 2 for p in parts): raise Unsupported("hstack ranks")
    widths = [concrete_int(p.shape[1]) for p in parts]
    if None in widths: raise Unsupported("hstack with symbolic widths")
    offs = [0]
    for w in widths: offs.append(offs[-1] + w)
    def get(idx):
        j = concrete_int(idx[1])
        if j is not None:
            for k, p in enumerate(parts):
                if offs[k] <= j < offs[k + 1]: return p.get((idx[0], j - offs[k]))
            raise PyRaise(_exc("IndexError"), "column")
        r = parts[-1].get((idx[0], binop_("Sub", idx[1], offs[-2])))
        for k in range(len(parts) - 2, -1, -1): r = Ite(toz3(idx[1]) < offs[k + 1], parts[k].get((idx[0], binop_("Sub", idx[1], offs[k]))), r)
        return r
    return SArr((parts[0].shape[0], offs[-1]), get)

def setitem(o, idx, v):
    """functional update o[idx] = v (numpy in-place store); idx: int or tuple of ints (leading axes)"""
    cast = getattr(o, "store_cast", None)
    if cast is not None:
        o2 = SArr(o.shape, o.get); r = setitem(o2, idx, cast(v)); r.store_cast = cast; return r
    if not isinstance(idx, tuple): idx = (idx,)
    idx = tuple(norm_index(i, n) for i, n in zip(idx, o.shape))
    if any(isinstance(i, SArr) and i.ndim > 0 for i in idx): raise Unsupported("setitem with array index")
    if any(isinstance(i, slice) for i in idx):
        # numpy store with integer and slice indices, e.g. a[0, :] = v ; v is a scalar or has one axis per sliced (incl. trailing) axis
        plan = [("slice",) + tuple(slice_bounds(i, n)) if isinstance(i, slice) else ("int", i) for i, n in zip(idx, o.shape)]
        plan += [("slice", 0, n) for n in o.shape[len(idx):]]
        nsl = sum(1 for p_ in plan if p_[0] == "slice")
        if isinstance(v, SArr) and v.ndim != nsl: raise Unsupported("setitem: broadcasting of the stored value")
        def get_s(full):
            conds = []; sub = []
            for p_, f in zip(plan, full):
                if p_[0] == "int": conds.append(toz3(f) == toz3(p_[1]))
                else:
                    conds += [toz3(f) >= toz3(p_[1]), toz3(f) < toz3(p_[1]) + toz3(p_[2])]; sub.append(f if concrete_int(p_[1]) == 0 else binop_("Sub", f, p_[1]))
            newv = v.get(tuple(sub)) if isinstance(v, SArr) else v
            return Ite(z3.And(*conds), newv, o.get(tuple(full)))
        return SArr(o.shape, get_s)
    k = len(idx)
    def get(full):
        cond = z3.And(*[toz3(a) == toz3(b) for a, b in zip(full[:k], idx)]) if k else z3.BoolVal(True)
        newv = _el(v, full[k:]) if isinstance(v, SArr) else v
        return Ite(cond, newv, o.get(tuple(full)))
    return SArr(o.shape, get)

# ---------------------------------------------------------------- reshape / ravel
def ravel(idx, shape):
    flat = None
    for i, n in zip(idx, shape):
        if flat is None: flat = i; continue
        cf, cn, ci = concrete_int(flat), concrete_int(n), concrete_int(i)
        flat = cf * cn + ci if None not in (cf, cn, ci) else toz3(flat) * toz3(n) + toz3(i)
    return 0 if flat is None else flat
SIDE = []            # Skolem constraints from unravel (always satisfiable given 0<=k<total)
_unravel_cache = {}
def unravel(k, shape):
    """indices with ravel(indices)=k; concrete when possible, Skolemised otherwise"""
    ck = concrete_int(k); cs = [concrete_int(n) for n in shape]
    if ck is not None and None not in cs[1:]:
        out = []
        for n in reversed(cs[1:]): out.append(ck % n); ck //= n
        out.append(ck); return tuple(reversed(out))
    if len(shape) == 1: return (k,)
    ones = [i for i, n in enumerate(cs) if n == 1]
    if ones and len(ones) < len(shape):                 # extents of size 1 contribute the digit 0: unravel over the remaining axes only
        rest = [n for i, n in enumerate(shape) if i not in ones]
        sub = list(unravel(k, tuple(rest))); out = []
        for i in range(len(shape)): out.append(0 if i in ones else sub.pop(0))
        return tuple(out)
    if _mentions_binder(toz3(k)):
        # k depends on the bound variable of an enclosing reduction: Skolem CONSTANTS would not vary with it -> exact div/mod digits instead
        out = []; rem = toz3(k)
        for n in reversed(shape[1:]): out.append(rem % toz3(n)); rem = rem / toz3(n)
        out.append(rem); return tuple(reversed(out))
    key = (z3.simplify(toz3(k)).sexpr(), tuple(z3.simplify(toz3(n)).sexpr() for n in shape))
    if key not in _unravel_cache:
        idx = [z3.Int(f"u{len(_unravel_cache)}_{ax}") for ax in range(len(shape))]
        cons = [z3.And(i >= 0, i < toz3(n)) for i, n in zip(idx, shape)] + [toz3(k) == ravel(idx, shape)]
        # digits exist exactly when 0 <= k < total: the constraints are GUARDED by that range, so that Skolems introduced while evaluating one clause
        # say nothing (in particular not `total > 0`) in the obligations of another clause
        guard = z3.And(toz3(k) >= 0, toz3(k) < toz3(prod(list(shape))))
        cons = [z3.Implies(guard, z3.And(*cons))]
        _unravel_cache[key] = (tuple(idx), cons, toz3(k), tuple(shape)); SIDE.extend(cons)
    return _unravel_cache[key][0]
def _mentions_binder(t):
    if z3.is_const(t) and t.decl().kind() == z3.Z3_OP_UNINTERPRETED and t.decl().name().startswith("%b"): return True
    return any(_mentions_binder(c) for c in t.children())
def reshape(a, sh):
    """row-major reshape. Common trailing dims are passed through; only the leading block is ravelled/unravelled."""
    if len(sh) == 1 and isinstance(sh[0], (tuple, list)): sh = tuple(sh[0])
    sh = tuple(sh)
    neg = [i for i, s in enumerate(sh) if concrete_int(s) == -1]
    if neg:
        total = prod(a.shape); known = prod([s for i, s in enumerate(sh) if i != neg[0]])
        ct, ckn = concrete_int(total), concrete_int(known)
        if ct is not None and ckn is not None: fill = ct // ckn
        else:
            tail = sh[neg[0] + 1:]
            if neg[0] == 0 and len(tail) <= a.ndim and all(sym_eq(x, y) for x, y in zip(tail, a.shape[a.ndim - len(tail):])):
                fill = prod(a.shape[:a.ndim - len(tail)]); fill = z3.simplify(fill) if is_z3(fill) else fill
            elif ckn == 1: fill = total
            else: raise Unsupported(f"reshape -1 with symbolic shapes {a.shape}->{sh}")
        sh = tuple(fill if i == neg[0] else s for i, s in enumerate(sh))
    t = 0
    while t < min(a.ndim, len(sh)) and sym_eq(a.shape[a.ndim - 1 - t], sh[len(sh) - 1 - t]): t += 1
    if t == a.ndim == len(sh): return a
    if t == a.ndim or t == len(sh): t -= 1          # keep at least one leading dim on both sides
    lead_a, lead_r = a.shape[:a.ndim - t], sh[:len(sh) - t]
    if a.flat is not None and a.flat[1] == t: fg = a.flat[0]
    else: fg = lambda k, trail, a=a, lead_a=lead_a: a.get(tuple(unravel(k, lead_a)) + tuple(trail))
    nl = len(lead_r)
    r = SArr(sh, lambda idx, fg=fg, lead_r=lead_r, nl=nl: fg(ravel(idx[:nl], lead_r), tuple(idx[nl:])), flat=(fg, t))
    if a.vec is not None and t >= 1:
        la, lr = a.shape[:-1], sh[:-1]
        tv = t - 1
        lead_av, lead_rv = la[:len(la) - tv], lr[:len(lr) - tv]
        vf = getattr(a, "vflat", None)
        if a.name == "__vflat__": pass
        vfg = VFLAT.get(id(a))
        if vfg is None or vfg[1] != tv:
            vfg = (lambda k, trail, a=a, lead_av=lead_av: a.vec(tuple(unravel(k, lead_av)) + tuple(trail)), tv)
        nlv = len(lead_rv); f0 = vfg[0]
        r.vec = lambda lidx, f0=f0, lead_rv=lead_rv, nlv=nlv: f0(ravel(lidx[:nlv], lead_rv), tuple(lidx[nlv:]))
        rv = r.vec
        r.get = lambda idx, rv=rv: COMP(rv(tuple(idx[:-1])), toz3(idx[-1]))
        VFLAT[id(r)] = vfg; _KEEP.append(r)
    return r
VFLAT = {}; _KEEP = []

# ---------------------------------------------------------------- constructors
def from_value(x):
    if isinstance(x, SArr): return x
    if isinstance(x, (list, tuple)): return arr_from_list([from_value(v) if isinstance(v, (list, tuple)) else v for v in x])
    return x
CAST_UNKNOWN = z3.Function("cast_to_dtype_of_another_array", z3.RealSort(), z3.RealSort())
CASTU_VEC = z3.Function("vector_cast_to_dtype_of_another_array", VEC, VEC)
def _store_cast_for(dtype):
    """buffers created with the dtype OF ANOTHER ARRAY (x.dtype - unknown to the engine: integer or float) convert whatever is stored into them: uninterpreted cast,
    so that no proof can rely on a stored float surviving; explicit float dtypes and the default store reals as they are"""
    if dtype == "dtype":
        def cast(v):
            if isinstance(v, SArr): return SArr(v.shape, lambda idx: cast(v.get(idx)))
            if isinstance(v, (bool, int)) or (is_z3(v) and (z3.is_int(v) or z3.is_bool(v))): return v          # integers survive a cast to an integer or a float type
            t = toz3(v)
            return CAST_UNKNOWN(t) if z3.is_real(t) else v
        return cast
    return None
def zeros(shape, dtype=None, fill=0):
    if not isinstance(shape, (tuple, list)): shape = (shape,)
    r = SArr(tuple(shape), lambda idx: fill, tag=("zeros",) if concrete_int(fill) == 0 else None)
    c = _store_cast_for(dtype)
    if c is not None: r.store_cast = c
    return r
NONNEG_ORACLE = [None]          # set per interpreter: expr -> True iff the current path condition implies expr >= 0 (quick solver call)
def arange(lo, hi=None, step=None, dtype=None):
    if hi is None: lo, hi = 0, lo
    if step not in (None, 1): raise Unsupported("arange step")
    if isinstance(lo, float) or isinstance(hi, float) or (is_z3(lo) and z3.is_real(lo)) or (is_z3(hi) and z3.is_real(hi)):
        # float arange with unit step: length ceil(hi-lo); supported when hi-lo is integral
        n = binop_("Sub", hi, lo); n = z3.simplify(z3.ToInt(toz3(n))) if is_z3(n) else int(-(-n // 1))
        cn = concrete_int(n); n = cn if cn is not None else n
        return SArr((n,), lambda idx: binop_("Add", lo, idx[0]))
    n = binop_("Sub", hi, lo); cn = concrete_int(n)
    if cn is None and NONNEG_ORACLE[0] is not None and NONNEG_ORACLE[0](toz3(n)): n = z3.simplify(toz3(n))      # the path condition implies hi >= lo: length hi - lo
    else: n = max(cn, 0) if cn is not None else z3.simplify(z3.If(toz3(n) < 0, 0, toz3(n)))
    return SArr((n,), lambda idx: binop_("Add", lo, idx[0]) if concrete_int(lo) != 0 else idx[0], tag=("arange", lo))
def binop_(op, a, b):
    from ..interp import binop
    return binop(op, a, b)
def concat(parts, axis=0):
    parts = [from_value(p) for p in parts]
    parts = [p if isinstance(p, SArr) else arr_from_list([p]) for p in parts]
    parts = [p if p.ndim >= 1 else arr_from_list([p.get(())]) for p in parts]
    if axis != 0: raise Unsupported("concat axis")
    offs = [0]
    for p in parts: offs.append(plus(offs[-1], p.shape[0]))
    total = offs[-1]
    if all(concrete_int(o) is not None for o in offs) and all(p.ndim == 1 for p in parts):
        items = []
        for p in parts: items += [p.get((i,)) for i in range(concrete_int(p.shape[0]))]
        return arr_from_list(items)
    def get(idx):
        i = idx[0]; rest = tuple(idx[1:])
        ci = concrete_int(i)
        if ci is not None and all(concrete_int(o_) is not None for o_ in offs):          # concrete position: read the part that holds it (no speculative out-of-range reads)
            for k in range(len(parts)):
                if concrete_int(offs[k]) <= ci < concrete_int(offs[k + 1]): return parts[k].get((ci - concrete_int(offs[k]),) + rest)
        r = parts[-1].get((binop_("Sub", i, offs[-2]),) + rest)
        for k in range(len(parts) - 2, -1, -1):
            r = Ite(toz3(i) < toz3(offs[k + 1]), parts[k].get((binop_("Sub", i, offs[k]),) + rest), r)
        return r
    res = SArr((total,) + parts[0].shape[1:], get)
    if any(p.vec is not None for p in parts) and all((p.vec is not None) or (p.tag is not None and p.tag[0] == "zeros") for p in parts):
        def vec(lidx):
            i = lidx[0]; rest = tuple(lidx[1:])
            def pv(p, j): return p.vec((j,) + rest) if p.vec is not None else ZVEC
            r = pv(parts[-1], binop_("Sub", i, offs[-2]))
            for k in range(len(parts) - 2, -1, -1):
                r = z3.If(toz3(i) < toz3(offs[k + 1]), pv(parts[k], binop_("Sub", i, offs[k])), r)
            return r
        res.vec = vec
        res.get = lambda idx, vec=vec: COMP(vec(tuple(idx[:-1])), toz3(idx[-1]))
    return res
def hstack(parts):
    parts = [from_value(p) for p in parts]
    if parts and all(isinstance(p, SArr) and p.ndim == 2 for p in parts): return concat_axis1(parts)      # numpy: hstack joins 2-D arrays column-wise
    return concat(parts, 0)
def vstack(parts):
    parts = [from_value(p) for p in parts]
    if parts and all(isinstance(p, SArr) and p.ndim == 1 for p in parts):
        # numpy: 1-D arrays are stacked as ROWS (found by the library-model conformance check; the old model concatenated them)
        n = parts[0].shape[0]
        def get(idx):
            k = concrete_int(idx[0])
            return parts[k].get((idx[1],)) if k is not None else select_list([q.get((idx[1],)) for q in parts], idx[0])
        return SArr((len(parts), n), get)
    return concat(parts, 0)

# ---------------------------------------------------------------- reductions
def reduce_all(kind, a):
    """reduce over all elements"""
    if not isinstance(a, SArr): return a
    if a.ndim == 0: return a.get(())
    if a.is_concrete_shape():
        items = _flatten(a.tolist())
        return fold(kind, items)
    # squeeze concrete size-1 dims
    big = [ax for ax, n in enumerate(a.shape) if concrete_int(n) != 1]
    if len(big) == 1:
        ax = big[0]
        return R.mk(kind, a.shape[ax], lambda i: a.get(tuple(i if k == ax else 0 for k in range(a.ndim))))
    # nested
    inner = reduce_axis(kind, a, a.ndim - 1)
    if kind == "argmax":
        if a.ndim == 2:
            n1 = toz3(a.shape[1])
            return R.mk("argmax", prod(a.shape), lambda k: a.get((toz3(k) / n1, toz3(k) % n1)))
        raise Unsupported("argmax over more than two symbolic axes")
    return reduce_all(kind if kind not in ("count",) else "sum", inner)
def reduce_axis(kind, a, axis):
    if axis < 0: axis += a.ndim
    n = a.shape[axis]; rshape = a.shape[:axis] + a.shape[axis + 1:]
    cn = concrete_int(n)
    def get(idx):
        idx = tuple(idx)
        at = lambda i: a.get(idx[:axis] + (i,) + idx[axis:])
        if cn is not None: return fold(kind, [at(i) for i in range(cn)])
        return R.mk(kind, n, at)
    if not rshape: return get(())
    return SArr(rshape, get)
def _flatten(x):
    if isinstance(x, list):
        out = []
        for y in x: out += _flatten(y)
        return out
    return [x]
def fold(kind, items):
    if kind == "sum":
        r = 0
        for x in items: r = binop_("Add", r, x)
        return r
    if kind == "max":
        r = items[0]
        for x in items[1:]: r = Max(r, x)
        return r
    if kind == "min":
        r = items[0]
        for x in items[1:]: r = Min(r, x)
        return r
    if kind == "any": return z3.Or(*[_b(x) for x in items]) if any(is_z3(x) for x in items) else any(items)
    if kind == "all": return z3.And(*[_b(x) for x in items]) if any(is_z3(x) for x in items) else all(items)
    if kind == "count":
        r = 0
        for x in items: r = binop_("Add", r, Ite(_b(x), 1, 0) if is_z3(x) else int(bool(x)))
        return r
    if kind == "argmax":
        best = 0; bv = items[0]
        for k in range(1, len(items)):
            c = toz3(items[k]) > toz3(bv) if (is_z3(items[k]) or is_z3(bv)) else items[k] > bv
            best = Ite(c, k, best); bv = Ite(c, items[k], bv)
        return best
    raise Unsupported(kind)
def _b(x):
    x = toz3(x); return x if z3.is_bool(x) else x != 0
def is_bool_arr(a):
    try:
        probe = a.get(tuple(z3.Int(f"%p{i}") for i in range(a.ndim)))
        return (is_z3(probe) and z3.is_bool(probe)) or isinstance(probe, bool)
    except Exception: return False
def asum(a, axis=None):
    if not isinstance(a, SArr): return a
    kind = "count" if is_bool_arr(a) else "sum"
    return reduce_all(kind, a) if axis is None else reduce_axis(kind, a, axis)
def amax(a, axis=None): return reduce_all("max", a) if axis is None else reduce_axis("max", a, axis)
def amin(a, axis=None): return reduce_all("min", a) if axis is None else reduce_axis("min", a, axis)
def aany(a, axis=None): return reduce_all("any", a) if axis is None else reduce_axis("any", a, axis)
def aall(a, axis=None): return reduce_all("all", a) if axis is None else reduce_axis("all", a, axis)
def argmax(a, axis=None):
    if axis is not None: return reduce_axis("argmax", a, axis)
    return reduce_all("argmax", a)
def dot(a, b):
    a, b = from_value(a), from_value(b)
    if not isinstance(a, SArr) or not isinstance(b, SArr): return binop_("Mult", a, b)
    if a.ndim == 1 and b.ndim == 1:
        n = a.shape[0]; cn = concrete_int(n)
        if cn is not None: return fold("sum", [binop_("Mult", a.get((i,)), b.get((i,))) for i in range(cn)])
        return R.mk("sum", n, lambda e: binop_("Mult", a.get((e,)), b.get((e,))))
    if a.ndim == 1 and b.ndim == 2:      # (n,) . (n,k) -> (k,)
        n = a.shape[0]
        return SArr((b.shape[1],), lambda idx: dot(a, SArr((n,), lambda j: b.get((j[0], idx[0])))))
    if a.ndim == 2 and b.ndim == 1:      # (m,n) . (n,) -> (m,)
        return SArr((a.shape[0],), lambda idx: dot(SArr((a.shape[1],), lambda j: a.get((idx[0], j[0]))), b))
    raise Unsupported("dot ranks")
def where(c, a, b):
    sh = ()
    for v in (c, a, b):
        if isinstance(v, SArr):
            from ..interp import bshape
            sh = bshape(sh, v.shape)
    if not sh: return Ite(c, a, b)
    return SArr(sh, lambda idx: Ite(_b(_el(c, idx)) if is_z3(_el(c, idx)) else _el(c, idx), _el(a, idx), _el(b, idx)))
def elementwise(fn):
    def f(a, *rest):
        if isinstance(a, SArr): return SArr(a.shape, lambda idx: fn(a.get(idx), *rest))
        return fn(a, *rest)
    return f
def aabs(x):
    if is_z3(x): return z3.If(x >= 0, x, -x)
    return abs(x)
def clip(x, lo=None, hi=None):
    if isinstance(x, SArr): return SArr(x.shape, lambda idx: clip(x.get(idx), _el(lo, idx) if isinstance(lo, SArr) else lo, _el(hi, idx) if isinstance(hi, SArr) else hi))
    if lo is not None: x = Max(x, lo)
    if hi is not None: x = Min(x, hi)
    return x
def take(a, idx, axis=0):
    if axis != 0: raise Unsupported("take axis")
    return arr_subscript(a, (idx,))
def diff(a):
    n = a.shape[0]; cn = concrete_int(n)
    m = cn - 1 if cn is not None else z3.simplify(toz3(n) - 1)
    return SArr((m,), lambda idx: binop_("Sub", a.get((plus(idx[0], 1),)), a.get((idx[0],))))
def outer(a, b): return SArr((a.shape[0], b.shape[0]), lambda idx: binop_("Mult", a.get((idx[0],)), b.get((idx[1],))))

# ---------------------------------------------------------------- scatter (.at[...])
class AtProxy:
    def __init__(self, arr, interp): self.arr, self.interp = arr, interp
class AtIndexed:
    def __init__(self, arr, idx, interp): self.arr, self.idx, self.interp = arr, idx, interp
    def add(self, v): return scatter(self.arr, self.idx, v, "add", self.interp)
    def set(self, v): return scatter(self.arr, self.idx, v, "set", self.interp)
def scatter(o, idx, v, mode, interp):
    if not isinstance(idx, tuple): idx = (idx,)
    if all(not isinstance(i, (SArr, slice)) for i in idx):
        idx = tuple(norm_index(i, n) for i, n in zip(idx, o.shape)); k = len(idx)
        def get(full):
            cond = z3.And(*[toz3(a) == toz3(b) for a, b in zip(full[:k], idx)])
            cur = o.get(tuple(full)); nv = _el(v, full[k:]) if isinstance(v, SArr) else v
            if mode == "add":
                nvz, zero = coerce_pair(nv, 0)
                return binop_("Add", cur, z3.If(cond, nvz, zero))
            return Ite(cond, nv, cur)
        return SArr(o.shape, get)
    # ints and FULL slices, e.g. x.at[i, :].add(v) / x.at[:, j].add(v): one update per position of the sliced axes, no duplicates
    if all((not isinstance(i, SArr)) and (not isinstance(i, slice) or (i.start is None and i.stop is None and i.step is None)) for i in idx) and any(isinstance(i, slice) for i in idx):
        idxn = tuple(i if isinstance(i, slice) else norm_index(i, n) for i, n in zip(idx, o.shape)); k = len(idxn)
        def gets(full):
            cond = z3.And(*[toz3(a) == toz3(b) for a, b in zip(full[:k], idxn) if not isinstance(b, slice)])
            free = tuple(a for a, b in zip(full[:k], idxn) if isinstance(b, slice)) + tuple(full[k:])
            cur = o.get(tuple(full)); nv = _el(v, free) if isinstance(v, SArr) else v
            if mode == "add":
                nvz, zero = coerce_pair(nv, 0); return binop_("Add", cur, z3.If(cond, nvz, zero))
            return Ite(cond, nv, cur)
        return SArr(o.shape, gets)
    # (int, arange, index-array): rows are distinct, so no duplicate-index semantics is involved
    if len(idx) == 3 and not isinstance(idx[0], (SArr, slice)) and isinstance(idx[1], SArr) and idx[1].tag and idx[1].tag[0] == "arange" \
            and concrete_int(idx[1].tag[1]) == 0 and isinstance(idx[2], SArr) and idx[2].ndim == 1 and o.ndim == 3:
        i0, ix = idx[0], idx[2]
        def get3(full):
            a_, s_, t_ = full
            cur = o.get(tuple(full))
            hit = z3.And(toz3(a_) == toz3(i0), toz3(ix.get((s_,))) == toz3(t_), toz3(s_) < toz3(idx[1].shape[0]))
            nv = _el(v, (s_,)) if isinstance(v, SArr) else v
            return Ite(hit, binop_("Add", cur, nv) if mode == "add" else nv, cur)
        return SArr(o.shape, get3)
    hook = getattr(interp, "scatter_rule", None)
    if hook is not None: return hook(o, idx, v, mode)
    raise Unsupported("array-index scatter without rule")


# ---------------------------------------------------------------- dtype casts
INTCAST_VEC = z3.Function("astype_int", VEC, VEC)            # integer cast of an opaque vector: the identity only for integer-valued vectors (nothing is assumed)
TRUNC = z3.Function("trunc_to_int", z3.RealSort(), z3.IntSort())
def astype(o, t):
    """x.astype(dtype): identity on values that are already of that kind; a cast of REAL (float) data to an integer dtype is a genuine
    operation (truncation), modelled by uninterpreted functions so that no proof can silently rely on it being the identity"""
    integer = isinstance(t, str) and t.startswith(("int", "uint"))
    if t == "dtype":
        # a cast to the dtype OF ANOTHER ARRAY (x.astype(y.dtype)): the engine does not know whether that is an integer or a float type, so real data and opaque
        # vectors go through an uninterpreted cast (no proof may rely on it being the identity); integers and booleans keep their value in either case
        if isinstance(o, SArr):
            if o.vec is not None: return vec_array(o.shape, lambda l: CASTU_VEC(o.vec(tuple(l))))
            return SArr(o.shape, lambda idx: _store_cast_for("dtype")(o.get(idx)))
        return _store_cast_for("dtype")(o)
    if not integer: return o
    bits = int("".join(ch for ch in t if ch.isdigit()) or 32)
    def narrow(x):
        """int32 / int64 are treated as mathematical integers (stated assumption); a cast to an 8- or 16-bit type WRAPS and is modelled exactly"""
        if bits >= 32: return x
        m = 2 ** bits
        if isinstance(x, int): return x % m if t.startswith("uint") else ((x + m // 2) % m) - m // 2
        return (toz3(x) % m) if t.startswith("uint") else ((toz3(x) + m // 2) % m) - m // 2
    def el(x):
        if isinstance(x, bool) or (is_z3(x) and z3.is_bool(x)): return Ite(x, 1, 0) if is_z3(x) else int(x)
        if isinstance(x, int) or (is_z3(x) and z3.is_int(x)): return narrow(x)
        if isinstance(x, float): return int(x)
        if is_z3(x) and z3.is_real(x): return TRUNC(x)
        return x
    if isinstance(o, SArr):
        if o.vec is not None:
            lead = o.shape[:-1]
            return vec_array(o.shape, lambda l: INTCAST_VEC(o.vec(tuple(l))))
        return SArr(o.shape, lambda idx: el(o.get(idx)))
    return el(o)

def swapaxes(o, i, j):
    """numpy/jax swapaxes: result[..., a_i, ..., a_j, ...] = o[..., a_j, ..., a_i, ...] (a view with the two axes exchanged; the vector/flat structure is dropped)"""
    i, j = _ci(i), _ci(j); n = o.ndim; i, j = i % n, j % n
    sh = list(o.shape); sh[i], sh[j] = sh[j], sh[i]
    def get(idx):
        idx = list(idx); idx[i], idx[j] = idx[j], idx[i]; return o.get(tuple(idx))
    r = SArr(tuple(sh), get)
    if o.vec is not None and i != n - 1 and j != n - 1:
        def vec(lidx):
            lidx = list(lidx); lidx[i], lidx[j] = lidx[j], lidx[i]; return o.vec(tuple(lidx))
        r.vec = vec
    return r
# ---------------------------------------------------------------- attribute access on values
def value_getattr(interp, o, a):
    B = _Builtin()
    if isinstance(o, SArr):
        if a == "shape": return o.shape
        if a == "ndim": return o.ndim
        if a == "dtype": return "dtype"
        if a == "reshape": return B(lambda *sh: reshape(o, sh))
        if a == "dot": return B(lambda other: dot(o, other))
        if a == "clip": return B(lambda lo=None, hi=None: clip(o, lo, hi))
        if a == "astype": return B(lambda t: astype(o, t))
        if a == "copy": return B(lambda: o)
        if a == "swapaxes": return B(lambda i, j: swapaxes(o, i, j))
        if a == "T" and o.ndim == 2: return swapaxes(o, 0, 1)
        if a == "sum": return B(lambda axis=None: asum(o, axis))
        if a == "max": return B(lambda axis=None: amax(o, axis))
        if a == "min": return B(lambda axis=None: amin(o, axis))
        if a == "at": return AtProxy(o, interp)
        if a == "any": return B(lambda axis=None: aany(o, axis))
        if a == "all": return B(lambda axis=None: aall(o, axis))
        if a == "argmax": return B(lambda axis=None: argmax(o, axis))
        if a in ("ravel", "flatten"): return B(lambda: reshape(o, (-1,)))
        if a == "size": return prod(list(o.shape))
        if a == "mean": return B(lambda axis=None: interp.models["jax.numpy"]["mean"].fn(o, axis) if isinstance(interp.models.get("jax.numpy"), dict) else NotImplemented)
        if a == "ptp": return B(lambda axis=None: interp.binop("Sub", amax(o, axis), amin(o, axis)))
        if a == "squeeze": return B(lambda axis=None: interp.models["jax.numpy"]["squeeze"].fn(o, axis))
        if a == "item" and o.ndim == 0: return B(lambda: o.get(()))
    if isinstance(o, AtProxy):
        raise Unsupported("at attr")
    if isinstance(o, AtIndexed):
        if a == "add": return B(o.add)
        if a == "set": return B(o.set)
    if is_z3(o) or isinstance(o, (int, float)):
        if a == "clip": return B(lambda lo=None, hi=None: clip(o, lo, hi))
        if a == "astype": return B(lambda t: astype(o, t))
        if a == "reshape": return B(lambda *sh: arr_from_list([o]))
        if a == "shape": return ()
        if a == "sum": return B(lambda axis=None: o)
    if isinstance(o, str):
        if a == "upper": return B(lambda: o.upper())
    return NotImplemented
def _Builtin():
    from ..values import Builtin
    return lambda fn: Builtin(fn)
_old_sub = subscript
def subscript(o, idx):        # AtProxy indexing
    if isinstance(o, AtProxy): return AtIndexed(o.arr, idx, o.interp)
    return _old_sub(o, idx)
