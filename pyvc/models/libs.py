"""Namespaces for jax / jax.numpy / numpy / itertools / loguru / misc (assumed library contracts)."""
import z3
from ..values import *
from ..values import _ci
from .. import reduce as R
from . import arrays as A

def lift_results(n, at, probe):
    """array (or tuple of arrays) with leading extent n from a per-index function"""
    if isinstance(probe, tuple):
        return tuple(lift_results(n, (lambda i, j=j: at(i)[j]), probe[j]) for j in range(len(probe)))
    if probe is None: return None
    if isinstance(probe, SArr):
        r = SArr((n,) + probe.shape, lambda idx: at(idx[0]).get(tuple(idx[1:])))
        if probe.vec is not None:
            r.vec = lambda lidx: at(lidx[0]).vec(tuple(lidx[1:]))
        return r
    return SArr((n,), lambda idx: at(idx[0]))

def tree_map_axis(x, ax, i):
    """slice pytree x at index i along axis 0 according to in_axes prefix ax"""
    if isinstance(ax, (tuple, list)) and isinstance(x, (tuple, list)):
        return tuple(tree_map_axis(xx, aa, i) for xx, aa in zip(x, ax))
    if ax is None: return x
    if ax == 0:
        if isinstance(x, (tuple, list)): return tuple(tree_map_axis(xx, 0, i) for xx in x)
        return A.arr_subscript(x, (i,))
    raise Unsupported(f"in_axes {ax}")
def tree_extent(x, ax):
    if isinstance(ax, (tuple, list)) and isinstance(x, (tuple, list)):
        for xx, aa in zip(x, ax):
            n = tree_extent(xx, aa)
            if n is not None: return n
        return None
    if ax == 0:
        if isinstance(x, (tuple, list)):
            for xx in x:
                n = tree_extent(xx, 0)
                if n is not None: return n
            return None
        return x.shape[0]
    return None

_probe = [0]
RAND = {}          # the PRNG model functions of the current interpreter (z3 function symbols; the same in every interpreter of a process)
def make(interp):
    B = lambda f, n="": Builtin(f, n)
    I_ = z3.IntSort()
    K1 = z3.Function("split_fst", KEY, KEY); K2 = z3.Function("split_snd", KEY, KEY); KEY0 = z3.Function("PRNGKey", I_, KEY)
    PERMF = z3.Function("permutation", KEY, I_, I_); POSF = z3.Function("permutation_inv", KEY, I_, I_)
    def rnd_permutation(key, x):
        """assumed contract of jax.random.permutation on arange(n): a bijection of [0,n) determined by the key"""
        if not (isinstance(x, SArr) and x.tag and x.tag[0] == "arange" and concrete_int(x.tag[1]) == 0): raise Unsupported("permutation of non-arange")
        return SArr(x.shape, lambda idx: PERMF(key, toz3(idx[0])), tag=("perm", key))
    def argsort(x):
        """argsort of a permutation of 0..n-1 is its inverse (Lean perm_argsort_inv)"""
        if isinstance(x, SArr) and x.tag and x.tag[0] == "perm":
            key = x.tag[1]; return SArr(x.shape, lambda idx: POSF(key, toz3(idx[0])), tag=("perm_inv", key))
        raise Unsupported("argsort of a non-permutation")
    random_ns = {"PRNGKey": B(lambda seed: KEY0(toz3(seed))), "split": B(lambda key, num=2: (K1(key), K2(key))), "permutation": B(rnd_permutation)}
    interp.rand = {"K1": K1, "K2": K2, "KEY0": KEY0, "PERMF": PERMF, "POSF": POSF}
    RAND.clear(); RAND.update(interp.rand)
    def vmap(f, in_axes=0, out_axes=0):
        def mapped(*args):
            axes = in_axes if isinstance(in_axes, (tuple, list)) else (in_axes,) * len(args)
            n = tree_extent(tuple(args), tuple(axes))
            def at(i): return interp.call(f, [tree_map_axis(a, ax, i) for a, ax in zip(args, axes)], {})
            _probe[0] += 1
            pidx = 0 if (concrete_int(n) or 0) > 0 else z3.Int(f"%probe{_probe[0]}")
            return lift_results(n, cached(at), at(pidx))
        return B(mapped, "vmapped")
    def cached(at):
        memo = {}
        def g(i):
            k = toz3(i).sexpr() if is_z3(i) else i
            if k not in memo: memo[k] = at(i)
            return memo[k]
        return g
    def pmap(f, in_axes=0, **kw):
        """assumed contract: map over the leading (device) axis; the device index is exposed as ghost state"""
        def mapped(*args):
            axes = in_axes if isinstance(in_axes, (tuple, list)) else (in_axes,) * len(args)
            n = tree_extent(tuple(args), tuple(axes))
            def at(i):
                old = interp.ghost.get("pmap_index"); interp.ghost["pmap_index"] = i
                try: return interp.call(f, [tree_map_axis(a, ax, i) for a, ax in zip(args, axes)], {})
                finally: interp.ghost["pmap_index"] = old
            _probe[0] += 1
            pidx = 0 if (concrete_int(n) or 0) > 0 else z3.Int(f"%probe{_probe[0]}")
            return lift_results(n, cached(at), at(pidx))
        return B(mapped, "pmapped")
    def jit(f=None, static_argnums=None, **kw):
        if f is None: return B(lambda g: g)
        return f
    def scan(f, init, xs, length=None, reverse=False):
        rule = getattr(interp, "scan_rule", None)
        n = tree_extent(xs, 0)
        cn = concrete_int(n)
        if cn is not None:                       # unroll
            order = range(cn - 1, -1, -1) if reverse else range(cn)
            ys = [None] * cn; c = init
            for k in order:
                c, y = interp.call(f, [c, tree_map_axis(xs, 0, k)], {}); ys[k] = y
            if cn == 0: return c, None
            return c, stack_results(ys)
        # symbolic extent: carry-invariant scan = map
        _probe[0] += 1
        pi = z3.Int(f"%probe{_probe[0]}")
        c1, y1 = interp.call(f, [init, tree_map_axis(xs, 0, pi)], {})
        if same_value(c1, init):
            def at(i): return interp.call(f, [init, tree_map_axis(xs, 0, i)], {})[1]
            return init, lift_results(n, cached(at), y1)
        if rule is not None: return rule(f, init, xs, reverse)
        raise Unsupported("scan with changing carry and no invariant")
    def stack_results(ys):
        if isinstance(ys[0], tuple): return tuple(stack_results([y[j] for y in ys]) for j in range(len(ys[0])))
        return arr_from_list(ys)
    def same_value(a, b):
        if a is b: return True
        if isinstance(a, tuple) and isinstance(b, tuple) and len(a) == len(b): return all(same_value(x, y) for x, y in zip(a, b))
        if is_z3(a) and is_z3(b): return z3.eq(a, b)
        return False
    def _concatenate(parts, axis=0):
        """the axis is normalised by the rank of the parts: -1 is the LAST axis (the old model sent -1 to axis 0 whatever the rank; conformance check)"""
        ps = [A.from_value(p) for p in parts]; nd = max([p.ndim for p in ps if isinstance(p, SArr)] + [1])
        ax = axis + nd if axis < 0 else axis
        if ax == 0: return A.concat(parts, 0)
        if ax == 1 and nd == 2: return A.concat_axis1(parts)
        raise Unsupported("concatenate along this axis")
    jnp = {
        "array": B(lambda x, dtype=None: A.astype(A.from_value(x), dtype) if dtype is not None else A.from_value(x)),
        "asarray": B(lambda x, dtype=None: A.astype(A.from_value(x), dtype) if dtype is not None else A.from_value(x)),
        "zeros": B(lambda shape, dtype=None: A.zeros(shape, dtype=dtype)), "ones": B(lambda shape, dtype=None: A.zeros(shape, dtype=dtype, fill=1)),
        "zeros_like": B(lambda a, dtype=None: A.zeros(a.shape) if isinstance(a, SArr) else 0),
        "full": B(lambda shape, v, dtype=None: A.zeros(shape, fill=v)),
        "arange": B(A.arange), "hstack": B(A.hstack), "vstack": B(A.vstack), "concatenate": B(lambda parts, axis=0: _concatenate(parts, axis)),
        "reshape": B(lambda a, sh: A.reshape(a, (sh,) if not isinstance(sh, (tuple, list)) else tuple(sh))),
        "max": B(A.amax), "min": B(A.amin), "sum": B(A.asum), "any": B(A.aany), "all": B(A.aall), "argmax": B(A.argmax),
        "abs": B(A.elementwise(A.aabs)), "maximum": B(lambda a, b: A.Max(a, b)), "minimum": B(lambda a, b: A.Min(a, b)),
        "where": B(A.where), "dot": B(A.dot), "outer": B(A.outer), "take": B(A.take), "diff": B(A.diff), "clip": B(A.clip),
        "int32": "int32", "float32": "float32", "float64": "float64", "ndarray": "ndarray", "inf": float("inf"),
        "int64": "int64", "int16": "int16", "int8": "int8", "uint8": "uint8", "uint16": "uint16", "uint32": "uint32", "uint64": "uint64", "float16": "float16", "bool_": "bool_",
    }
    def ravel_multi_index(multi, dims, mode="raise"):
        multi = [m for m in multi]; dims = interp.iterate(dims) if not isinstance(dims, (list, tuple)) else list(dims)
        if mode != "clip": raise Unsupported("ravel_multi_index mode")
        clipped = [A.clip(m, 0, interp.binop("Sub", d, 1)) for m, d in zip(multi, dims)]
        return A.ravel(clipped, dims)
    def unravel_index(k, shape):
        return tuple(A.unravel(k, tuple(shape)))
    def broadcast_to(x, shape):
        from ..interp import elem
        shape = tuple(shape) if isinstance(shape, (tuple, list)) else (shape,)
        return SArr(shape, lambda idx: elem(x, tuple(idx)))
    def average(a, axis=None, weights=None):
        """jnp.average: mean, or sum(w*a)/sum(w) with weights (the weights are NORMALISED by their sum)"""
        if axis is not None: raise Unsupported("average with axis")
        a = A.from_value(a)
        if weights is None: num, den = A.asum(a), A.prod(list(a.shape))
        else: num, den = A.dot(A.reshape(a, (-1,)) if a.ndim != 1 else a, A.reshape(A.from_value(weights), (-1,)) if A.from_value(weights).ndim != 1 else A.from_value(weights)), A.asum(A.from_value(weights))
        return interp.binop("Div", num, den)
    jnp["average"] = B(average, "jnp.average")
    def isclose(a, b, rtol=1e-05, atol=1e-08, equal_nan=False):
        """numpy/jax isclose: |a - b| <= atol + rtol * |b| (a TOLERANCE test, not equality)"""
        def one(x, y):
            x, y = toz3(x), toz3(y); x = z3.ToReal(x) if z3.is_int(x) else x; y = z3.ToReal(y) if z3.is_int(y) else y
            ab = lambda t: z3.If(t >= 0, t, -t)
            return ab(x - y) <= z3.RealVal(str(atol)) + z3.RealVal(str(rtol)) * ab(y)
        if isinstance(a, SArr) or isinstance(b, SArr):
            sh = a.shape if isinstance(a, SArr) else b.shape
            if isinstance(a, SArr) and a.ndim == 0 and not isinstance(b, SArr): return one(a.get(()), b)
            el = lambda v, idx: v.get(idx) if isinstance(v, SArr) and v.ndim else (v.get(()) if isinstance(v, SArr) else v)
            return SArr(sh, lambda idx: one(el(a, idx), el(b, idx)))
        return one(a, b)
    jnp["isclose"] = B(isclose, "jnp.isclose")
    jnp["broadcast_to"] = B(broadcast_to)
    jnp["ravel_multi_index"] = B(ravel_multi_index); jnp["unravel_index"] = B(unravel_index); jnp["argsort"] = B(argsort)
    def product(*ranges):
        """itertools.product: lexicographic order, last factor fastest (assumed library contract)"""
        from ..interp import SymRange
        ranges = [A.arange(r.lo, r.hi) if isinstance(r, SymRange) else r for r in ranges]
        ranges = [r if isinstance(r, SArr) else A.from_value(list(r)) for r in ranges]
        dims = tuple(r.shape[0] for r in ranges); rows = A.prod(dims); rows = z3.simplify(rows) if is_z3(rows) else rows
        def get(idx):
            digits = A.unravel(idx[0], dims)
            kc = concrete_int(idx[1])
            if kc is not None: return ranges[kc].get((digits[kc],))
            return select_list([ranges[k].get((digits[k],)) for k in range(len(ranges))], idx[1])
        return SArr((rows, len(ranges)), get, tag=("product", dims))
    LOG10 = z3.Function("log10", z3.RealSort(), z3.RealSort())
    def log10(x):
        x = toz3(x); x = z3.ToReal(x) if z3.is_int(x) else x
        t = LOG10(x)
        for j in range(-13, 8):          # instantiated monotonicity facts (assumed contract of log10)
            interp.assume((x >= z3.RealVal(10) ** j if j >= 0 else x >= 1 / (z3.RealVal(10) ** (-j))) == (t >= j))
        return t
    def floor(x):
        x = toz3(x); return z3.ToReal(z3.ToInt(x)) if z3.is_real(x) else x
    def tile(x, reps):
        xs = interp.iterate(A.from_value(x) if isinstance(x, (list, tuple)) else x); r = concrete_int(reps)
        if r is None: raise Unsupported("tile with symbolic repetitions")
        return arr_from_list(list(xs) * r)
    def repeat1(x, reps, axis=None):
        if axis is None and not isinstance(x, SArr): return arr_from_list([x] * _ci(reps))
        return A.repeat_rows(x, reps, axis)
    jnp["tile"] = B(tile)
    def cumprod(x):
        xs = interp.iterate(A.from_value(x)); out = []; acc = 1
        for v in xs: acc = interp.binop("Mult", acc, v); out.append(acc)
        return arr_from_list(out)
    def prod(x, axis=None, dtype=None):
        """np.prod / jnp.prod of a vector of concrete length: the finite product (mathematical integers, the stated assumption)"""
        if axis not in (None, 0, -1): raise Unsupported("prod with axis")
        acc = 1
        for v in interp.iterate(A.from_value(x)): acc = interp.binop("Mult", acc, v)
        return acc
    jnp["prod"] = B(prod, "numpy.prod")
    def append(a, v): return A.concat([A.from_value(a), A.from_value(v) if isinstance(v, (list, tuple, SArr)) else arr_from_list([v])], 0)
    class _R:                      # np.r_[a, b, ...]: concatenation of scalars and 1-D arrays
        pass
    r_obj = Obj("np.r_", {}, label="np.r_")
    jnp["cumprod"] = B(cumprod); jnp["append"] = B(append); jnp["r_"] = {"__r__": True}
    # ---- equivalents a refactoring may reach for; each is a composition of operations modelled above (nothing new is assumed)
    def _size(a): return A.prod(list(a.shape))
    def ptp(a, axis=None): return interp.binop("Sub", A.amax(a, axis), A.amin(a, axis))                 # peak-to-peak = max - min (the span)
    def mean(a, axis=None):
        a = A.from_value(a)
        if axis is not None: raise Unsupported("mean with axis")
        return interp.binop("Div", A.asum(a), _size(a))
    def stack(parts, axis=0):
        parts = [A.from_value(x) if not isinstance(x, SArr) else x for x in parts]
        if axis != 0: raise Unsupported("stack with axis != 0")
        if all(not isinstance(q, SArr) or q.ndim == 0 for q in parts): return arr_from_list([q.get(()) if isinstance(q, SArr) else q for q in parts])     # scalars -> a vector
        sh = parts[0].shape
        return SArr((len(parts),) + tuple(sh), lambda idx: select_list([q.get(tuple(idx[1:])) for q in parts], idx[0]) if concrete_int(idx[0]) is None else parts[concrete_int(idx[0])].get(tuple(idx[1:])))
    def ravel_(a): return A.reshape(A.from_value(a), (-1,))
    def squeeze(a, axis=None):
        a = A.from_value(a); keep = [d for i, d in enumerate(a.shape) if not (concrete_int(d) == 1 and (axis is None or i == (axis if axis >= 0 else a.ndim + axis)))]
        return A.reshape(a, tuple(keep))
    def expand_dims(a, axis):
        a = A.from_value(a); ax = axis if axis >= 0 else a.ndim + 1 + axis; sh = list(a.shape); sh.insert(ax, 1)
        return A.reshape(a, tuple(sh))
    def pad(a, pad_width, mode="constant", constant_values=0):
        """jnp.pad / np.pad with constant fill (default 0): the original block at offset `before`, the fill elsewhere"""
        if mode != "constant": raise Unsupported("pad mode")
        a = A.from_value(a); pw = pad_width
        if isinstance(pw, int): pw = [(pw, pw)] * a.ndim
        pw = [tuple(x) if isinstance(x, (tuple, list)) else (x, x) for x in pw]
        if len(pw) == 1 and a.ndim > 1: pw = pw * a.ndim
        if len(pw) == 2 and a.ndim == 1 and not isinstance(pad_width[0], (tuple, list)): pw = [tuple(pad_width)]
        sh = tuple(interp.binop("Add", interp.binop("Add", lo, d), hi) for (lo, hi), d in zip(pw, a.shape))
        def get(idx):
            inside = z3.And(*[z3.And(toz3(i) >= toz3(lo), toz3(i) < toz3(interp.binop("Add", lo, d))) for i, (lo, hi), d in zip(idx, pw, a.shape)])
            cb = concrete_bool(z3.simplify(inside))
            if cb is False: return constant_values
            inner = a.get(tuple(interp.binop("Sub", i, lo) for i, (lo, hi) in zip(idx, pw)))
            if cb is True: return inner
            return A.Ite(inside, inner, constant_values)
        return SArr(sh, get)
    def argmin(a, axis=None):
        a = A.from_value(a)
        return A.argmax(SArr(a.shape, lambda idx: interp.binop("Sub", 0, a.get(idx))), axis)      # first minimiser = first maximiser of the negation
    def count_nonzero(a, axis=None):
        a = A.from_value(a)
        return A.asum(SArr(a.shape, lambda idx: (a.get(idx) if z3.is_bool(toz3(a.get(idx))) else toz3(a.get(idx)) != 0)), axis)
    def norm(x, ord=None, axis=None):
        if axis is not None or ord not in (float("inf"), 1): raise Unsupported("linalg.norm other than the inf- / 1-norm of a whole vector")
        x = A.from_value(x); ab = A.elementwise(A.aabs)(x)
        return A.amax(ab) if ord == float("inf") else A.asum(ab)
    jnp.update({"ptp": B(ptp, "ptp"), "mean": B(mean, "mean"), "stack": B(stack, "stack"), "ravel": B(ravel_, "ravel"), "squeeze": B(squeeze, "squeeze"), "expand_dims": B(expand_dims, "expand_dims"),
                "pad": B(pad, "pad"), "argmin": B(argmin, "argmin"), "count_nonzero": B(count_nonzero, "count_nonzero"), "matmul": B(A.dot, "matmul"), "linalg": {"norm": B(norm, "linalg.norm")},
                "amax": B(A.amax), "amin": B(A.amin), "negative": B(lambda a: interp.binop("Sub", 0, a)), "subtract": B(lambda a, b: interp.binop("Sub", a, b)), "add": B(lambda a, b: interp.binop("Add", a, b)),
                "multiply": B(lambda a, b: interp.binop("Mult", a, b)), "size": B(lambda a: _size(A.from_value(a)))})
    np = dict(jnp)
    np["log10"] = B(log10); np["floor"] = B(floor); np["repeat"] = B(repeat1, "numpy.repeat")
    def dynamic_slice_in_dim(operand, start_index, slice_size, axis=0):
        """jax.lax.dynamic_slice_in_dim: the start index is CLAMPED so that the slice fits (documented JAX behaviour)"""
        if axis != 0: raise Unsupported("dynamic_slice_in_dim axis")
        n = operand.shape[0]; st = start_index.get(()) if isinstance(start_index, SArr) and start_index.ndim == 0 else start_index
        lo = A.Max(0, A.Min(st, interp.binop("Sub", n, slice_size)))
        r = SArr((slice_size,) + tuple(operand.shape[1:]), lambda idx: operand.get((interp.binop("Add", lo, idx[0]),) + tuple(idx[1:])))
        if operand.vec is not None: r.vec = lambda lidx: operand.vec((interp.binop("Add", lo, lidx[0]),) + tuple(lidx[1:]))
        return r
    def dynamic_slice(operand, start_indices, slice_sizes):
        starts = list(start_indices); sizes = list(slice_sizes)
        los = [A.Max(0, A.Min(st.get(()) if isinstance(st, SArr) and st.ndim == 0 else st, interp.binop("Sub", n, sz))) for st, sz, n in zip(starts, sizes, operand.shape)]
        return SArr(tuple(sizes), lambda idx: operand.get(tuple(interp.binop("Add", lo, i) for lo, i in zip(los, idx))))
    # Poisson pmf / cdf as uninterpreted mathematical functions (assumed contracts; numerics of jax.scipy trusted)
    POISPMF = z3.Function("PoissonPMF", z3.RealSort(), z3.IntSort(), z3.RealSort()); POISCDF = z3.Function("PoissonCDF", z3.RealSort(), z3.IntSort(), z3.RealSort())
    def _pois(F):
        def f(k, mu):
            mu_ = _real(mu)
            g = lambda x: F(mu_, toz3(x))
            return SArr(k.shape, lambda idx: g(k.get(idx))) if isinstance(k, SArr) else g(k)
        return f
    # binomial pmf (scipy.stats.binom.pmf(k, n, p)) as an uninterpreted mathematical function of (p, n, k)
    BINOMPMF = z3.Function("BinomialPMF", z3.RealSort(), z3.IntSort(), z3.IntSort(), z3.RealSort())
    def binom_pmf(k, n, p):
        p_ = _real(p); g = lambda kk, nn: BINOMPMF(p_, toz3(nn), toz3(kk))
        sh = k.shape if isinstance(k, SArr) else (n.shape if isinstance(n, SArr) else None)
        if sh is None: return g(k, n)
        el = lambda v, idx: v.get(idx) if isinstance(v, SArr) else v
        return SArr(sh, lambda idx: g(el(k, idx), el(n, idx)))
    scipy_ns = {"stats": {"poisson": {"pmf": B(_pois(POISPMF), "scipy.stats.poisson.pmf"), "cdf": B(_pois(POISCDF), "scipy.stats.poisson.cdf")}, "binom": {"pmf": B(binom_pmf, "scipy.stats.binom.pmf")}}}
    _early_dist = {"POISPMF": POISPMF, "POISCDF": POISCDF, "BINOMPMF": BINOMPMF}
    jscipy = {"stats": {"poisson": {"pmf": B(_pois(POISPMF)), "cdf": B(_pois(POISCDF))}}}
    jax = {"vmap": B(vmap, "vmap"), "pmap": B(pmap, "pmap"), "jit": B(jit, "jit"), "numpy": jnp, "scipy": jscipy,
           "lax": {"scan": B(scan, "scan"), "map": B(lambda f, xs: scan(Builtin(lambda c, x: (c, interp.call(f, [x], {})), "map-body"), None, xs)[1], "lax.map"),    # lax.map(f, xs) is scan with no carry (JAX's own definition)
                   "dynamic_slice_in_dim": B(dynamic_slice_in_dim), "dynamic_slice": B(dynamic_slice)},
           "devices": B(lambda: SArr((interp.env_device_count,), lambda idx: "device")),
           # placement only: values are unchanged (assumed contract; real device/sharding behaviour is exercised by the multi-device harness)
           "device_get": B(lambda x: x, "device_get"), "device_put": B(lambda x, device=None, **k: x, "device_put"),
           "config": {"update": B(lambda k, v: interp.ghost.__setitem__(k, v))},
           "Array": "Array", "random": random_ns}
    class Logger:
        pass
    logger = {k: B(lambda *a, **kw: None, k) for k in ("info", "debug", "warning", "error", "success", "trace", "remove", "add")}
    # numpyro distributions as uninterpreted mathematical functions (assumed contracts; numerics trusted)
    GCDF = z3.Function("GammaCDF", z3.RealSort(), z3.RealSort(), z3.RealSort(), z3.RealSort())
    def Gamma(a, b):
        a, b = toz3(a), toz3(b)
        def cdf(x):
            f = lambda v: GCDF(a, b, z3.ToReal(toz3(v)) if z3.is_int(toz3(v)) else toz3(v))
            return SArr(x.shape, lambda idx: f(x.get(idx))) if isinstance(x, SArr) else f(x)
        return Obj("GammaDist", {"cdf": B(cdf)})
    # log / exp only as inverse pair: exp(log_prob(x)) = pmf(x)   (assumed: numpyro's log_prob is the log of the mathematical pmf)
    LOGP = z3.Function("LOGP", z3.RealSort(), z3.RealSort()); EXPF = z3.Function("EXP", z3.RealSort(), z3.RealSort())
    def exp1(t):
        t = toz3(t)
        if z3.is_app(t) and t.decl().name() == "LOGP": return t.arg(0)
        return EXPF(z3.ToReal(t) if z3.is_int(t) else t)
    jnp["exp"] = B(A.elementwise(exp1))
    NBPMF = z3.Function("NegBinPMF", z3.RealSort(), z3.RealSort(), z3.IntSort(), z3.RealSort())     # (total_count, probs, k)
    def _real(v):
        v = v.get(tuple(0 for _ in v.shape)) if isinstance(v, SArr) and all(concrete_int(s_) == 1 for s_ in v.shape) else v
        v = toz3(v); return z3.ToReal(v) if z3.is_int(v) else v
    def _int(v):
        v = v.get(tuple(0 for _ in v.shape)) if isinstance(v, SArr) and all(concrete_int(s_) == 1 for s_ in v.shape) else v
        return toz3(v)
    def NegBin(total_count=None, probs=None):
        n, q = _real(total_count), _real(probs)
        def log_prob(x):
            f = lambda k: LOGP(NBPMF(n, q, toz3(k)))
            return SArr(x.shape, lambda idx: f(x.get(idx))) if isinstance(x, SArr) else f(x)
        return Obj("NegBinDist", {"log_prob": B(log_prob)})
    MULT = {}
    def Multinomial(logits=None, total_count=None):
        m = concrete_int(logits.shape[0]); assert m is not None
        if m not in MULT: MULT[m] = z3.Function(f"MultinomialPMF{m}", *([z3.RealSort()] * m + [z3.IntSort()] * (m + 1)), z3.RealSort())
        lg = [_real(logits.get((j,))) for j in range(m)]; tot = _int(total_count)
        def log_prob(x):
            return LOGP(MULT[m](*lg, tot, *[_int(x.get((j,))) for j in range(m)]))
        return Obj("MultinomialDist", {"log_prob": B(log_prob)})
    interp.dist = {"GCDF": GCDF, "NBPMF": NBPMF, "MULT": MULT, "LOGP": LOGP}; interp.dist.update(_early_dist)
    numpyro_ns = {"distributions": {"Gamma": B(Gamma), "NegativeBinomialProbs": B(NegBin), "Multinomial": B(Multinomial)}}
    return {"jax": jax, "jax.numpy": jnp, "jax.random": random_ns, "numpyro": numpyro_ns, "numpyro.distributions": numpyro_ns["distributions"], "numpy": np, "scipy": scipy_ns, "scipy.stats": scipy_ns["stats"], "loguru": {"logger": logger},
            "jaxtyping": {k: Unres(k) for k in ("Array", "Float", "Int")},
            "typing": {k: Unres(k) for k in ("Tuple", "Callable", "Any", "Literal", "TypeAlias")},
            "itertools": {"product": B(product)}, "functools": {"partial": B(lambda f, *a, **k: (lambda g: g) if f is jax["jit"] else f)},
            "abc": {"ABC": None, "abstractmethod": "abstractmethod"}, "contextlib": {"contextmanager": "contextmanager"},
            "pathlib": {}, "sys": {"stderr": "stderr"}, "chex": {"dataclass": B(lambda **k: (lambda c: c)), "Array": "Array",
                     "assert_shape": B(lambda x, sh: interp.oblige("chex.assert_shape", z3.And(len(x.shape) == len(sh), *[toz3(p) == toz3(q) for p, q in zip(x.shape, sh)]) if len(x.shape) == len(sh) else False))},
            "hydra.conf": {"MISSING": "???", "dataclass": "dataclass"}}
class DeviceList:
    def __init__(self, n): self.n = n
    def __len__(self): raise Unsupported("len of symbolic device list")
def Unres(k):
    from ..interp import Unresolved
    return Unresolved(k)
