"""Abstract models of pathlib / orbax.checkpoint / omegaconf / hydra (assumed contracts; ghost effect log)."""
import z3
from ..values import *

def make(interp):
    B = lambda f, n="": Builtin(f, n)
    def effect(kind, *a): interp.ghost.setdefault("effects", []).append((kind, a, list(interp.pc)))
    # ---- pathlib.Path: a path is an abstract token (string-like); only identity and joins matter
    class PathV:
        def __init__(self, s): self.s = s
        def __repr__(self): return f"Path({self.s})"
    def mkpath(x): return x if isinstance(x, PathV) else PathV(x if isinstance(x, str) else f"<{x}>")
    def path_attr(p, a):
        if a == "absolute": return B(lambda: PathV(p.s))
        if a == "mkdir": return B(lambda parents=False, exist_ok=False: effect("mkdir", p.s))
        if a == "exists": return B(lambda: interp.ghost.setdefault("fs_exists", {}).setdefault(p.s, z3.Bool(f"exists[{p.s}]")))
        raise PyRaise(_exc("AttributeError"), a)
    interp.path_attr = path_attr; interp.PathV = PathV
    # ---- orbax CheckpointManager ADT (assumed): steps, keep; save skipped when step <= latest
    def cm_new(directory, options=None):
        o = Obj("CheckpointManager", {"directory": mkpath(directory), "options": options}, label=f"CM[{mkpath(directory).s}]")
        o.attrs["__ghost_latest"] = interp.ghost.get("dir_latest", {}).get(mkpath(directory).s, z3.Int(f"latest[{mkpath(directory).s}]"))   # -1 = none
        def save(step, args=None):
            lat = o.attrs["__ghost_latest"]; accepted = toz3(step) > toz3(lat)
            effect("cm.save", o.label, step, accepted, args)
            o.attrs["__ghost_latest"] = z3.If(accepted, toz3(step), toz3(lat))
            return accepted
        o.attrs["save"] = B(save); o.attrs["wait_until_finished"] = B(lambda: None)
        o.attrs["latest_step"] = B(lambda: LatestStep(o.attrs["__ghost_latest"]))
        def restore(step, args=None):
            effect("cm.restore", o.label, step)
            template = args[1] if isinstance(args, tuple) else None
            def rebuild(x, path):
                if isinstance(x, Obj): return Obj(x.cls, {k: rebuild(v, path + (k,)) for k, v in x.attrs.items()}, label="restored:" + ".".join(path))
                if x is None: return None                      # a None leaf in the template stays None (assumed StandardRestore behaviour)
                return ("restored", o.label, step, path)
            return rebuild(template, ())
        o.attrs["restore"] = B(restore)
        effect("cm.new", o.label, options.attrs if isinstance(options, Obj) else options)
        return o
    class LatestStep:      # int-or-None value: None iff latest == -1
        def __init__(self, t): self.t = t
    class RestoredTree:
        def __init__(self, cm, step, args): self.cm, self.step, self.args = cm, step, args
    interp.LatestStep = LatestStep; interp.RestoredTree = RestoredTree
    ckpt = {"CheckpointManager": B(cm_new), "CheckpointManagerOptions": B(lambda **k: Obj("CMOptions", dict(k))),
            "args": {"StandardSave": B(lambda x: ("StandardSave", x)), "StandardRestore": B(lambda x: ("StandardRestore", x))}}
    omega = {"OmegaConf": {"save": B(lambda cfg, path: effect("omegaconf.save", mkpath(path).s, cfg)),
                           "load": B(lambda path: (effect("omegaconf.load", mkpath(path).s), interp.ghost["saved_config"])[1])}}
    hydra_utils = {"instantiate": B(lambda cfg, **k: interp.ghost["instantiate"](cfg))}
    return {"pathlib": {"Path": B(mkpath)}, "orbax.checkpoint": ckpt, "omegaconf": omega, "hydra.utils": hydra_utils,
            "datetime": {"datetime": {"now": B(lambda: Obj("dt", {"strftime": B(lambda f: "<now>")}))}}}
def _exc(n):
    from ..interp import EXC
    return EXC[n]
