"""AST symbolic interpreter over the real mdpax sources (scratch engine v0)."""
from __future__ import annotations
import ast, os, operator
import z3
from .values import *
from . import reduce as R
from . import smt
from . import derive

SRC_ROOT = os.environ.get("MDPAX_SRC", "/repo/src")

EXC_NAMES = ["Exception", "ValueError", "TypeError", "NotImplementedError", "FileNotFoundError", "NameError",
             "AttributeError", "KeyError", "AssertionError", "OverflowError", "UnboundLocalError", "ZeroDivisionError", "IndexError"]
EXC = {n: ExcClass(n) for n in EXC_NAMES}

class Module:
    def __init__(self, name, path): self.name, self.path = name, path; self.globals = {}; self.tree = None

class Activation:
    def __init__(self, func): self.func = func; self.reads = set(); self.writes = set()

class SuperProxy:
    def __init__(self, obj, after_cls): self.obj, self.after_cls = obj, after_cls

class Interp:
    def __init__(self, models, contracts=None):
        self.models = models                 # dict: external module name -> namespace dict
        self.contracts = contracts or {}     # qualname -> Contract
        self.modules = {}
        self.reset_path()
        self.verifying = None                # qualname currently verified (its body is executed, not its contract)
        self.inline = set()                  # qualnames forced inline
        self.events = []                     # notes (assumed library facts used, etc.)
        self.lib_log = set(); self.executed = set()
        self.call_hook = None
        self.no_pre_inline = set()           # callees whose body could not be executed when a call-site precondition failed (persists over the paths of a unit)
    # ------------------------------------------------------------------ path state
    def reset_path(self, decisions=None):
        self.pc = []; self.decisions = list(decisions or []); self.dpos = 0; self.pending = []
        self.obligations = []; self.stack = []; self.lib_used = set(); self.fstrings = []
        self.derived_used = set()            # attributes of scenario objects obtained by construction-constant derivation on this path (pyvc/derive.py)
    def assume(self, c):
        c = toz3(c)
        if not z3.is_true(z3.simplify(c)): self.pc.append(c)
    def oblige(self, name, goal, **meta):
        self.obligations.append((name, list(self.pc), toz3(goal) if not isinstance(goal, bool) else z3.BoolVal(goal), meta))
    def truth(self, v):
        if isinstance(v, SArr):
            if v.ndim == 0: v = v.get(())
            elif v.is_concrete_shape() and all(s == 1 for s in v.cshape()): v = v.get(tuple(0 for _ in v.shape))
            else: raise Unsupported("truth value of an array")
        if v is None: return False
        if hasattr(self, "LatestStep") and isinstance(v, self.LatestStep): v = toz3(v.t) > 0     # steps start at 1; None or 0 are falsy
        if isinstance(v, (bool, int, float, str, tuple, list, dict)): return bool(v)
        if is_z3(v):
            if not z3.is_bool(v): v = v != 0
            cb = concrete_bool(v)
            if cb is not None: return cb
            s = z3.Solver(); s.set("timeout", 5000); s.add(*self.pc)
            s.push(); s.add(z3.Not(v)); r1 = smt.guarded_check(s, 5000); s.pop()
            if r1 == z3.unsat: return True
            s.push(); s.add(v); r2 = smt.guarded_check(s, 5000); s.pop()
            if r2 == z3.unsat: return False
            if self.dpos < len(self.decisions): d = self.decisions[self.dpos]
            else:
                d = True; self.decisions.append(True); self.pending.append(self.decisions[:self.dpos] + [False])
            self.dpos += 1
            self.pc.append(v if d else z3.Not(v))
            return d
        return True   # objects, functions
    # ------------------------------------------------------------------ module loading
    def load_module(self, name):
        if name in self.modules: return self.modules[name]
        path = os.path.join(SRC_ROOT, *name.split("."))
        if os.path.isdir(path): path = os.path.join(path, "__init__.py")
        else: path += ".py"
        m = Module(name, path); self.modules[name] = m
        m.tree = ast.parse(open(path).read(), filename=path)
        g = m.globals
        for node in m.tree.body:
            if isinstance(node, ast.Import):
                for a in node.names:
                    top = a.name.split(".")[0]
                    if a.asname: g[a.asname] = self.resolve_external(a.name)
                    else: g[top] = self.resolve_external(top)
            elif isinstance(node, ast.ImportFrom):
                modname = node.module or ""
                if node.level:   # relative import
                    base = name.split(".")[: -node.level] if not path.endswith("__init__.py") else name.split(".")[: len(name.split(".")) - node.level + 1]
                    modname = ".".join(base + ([node.module] if node.module else []))
                for a in node.names:
                    g[a.asname or a.name] = self.resolve_from(modname, a.name)
            elif isinstance(node, ast.ClassDef):
                g[node.name] = self.make_class(node, m)
            elif isinstance(node, ast.FunctionDef):
                g[node.name] = Func(node, g, None, f"{name}.{node.name}", m)
            elif isinstance(node, (ast.Assign, ast.AnnAssign)):
                try: self.exec_stmt(node, g, m)
                except EngineError: pass
            elif isinstance(node, ast.Expr): pass
        return m
    def resolve_external(self, name):
        if name.startswith("mdpax"): return self.load_module(name).globals
        if name in self.models: return self.models[name]
        return Unresolved(name)
    def resolve_from(self, modname, attr):
        if modname.startswith("mdpax"):
            sub = f"{modname}.{attr}"
            p = os.path.join(SRC_ROOT, *sub.split("."))
            if os.path.isdir(p) or os.path.exists(p + ".py"): return self.load_module(sub).globals
            g = self.load_module(modname).globals
            if attr in g: return g[attr]
            return Unresolved(f"{modname}.{attr}")
        ns = self.models.get(modname)
        if ns is not None and attr in ns: return ns[attr]
        return Unresolved(f"{modname}.{attr}")
    def make_class(self, node, m):
        bases = []
        for b in node.bases:
            try: bv = self.ev(b, m.globals, m)
            except Exception: bv = None
            if isinstance(bv, ClassRef): bases.append(bv)
        c = ClassRef(node.name, m, node, bases)
        for d in node.decorator_list:
            dn = ast.unparse(d)
            if "dataclass" in dn: c.is_dataclass = True
        for st in node.body:
            if isinstance(st, ast.FunctionDef): c.methods[st.name] = st
            elif isinstance(st, ast.AnnAssign) and isinstance(st.target, ast.Name):
                c.fields.append((st.target.id, st.value));
                if st.value is not None: c.class_attrs[st.target.id] = st.value
            elif isinstance(st, ast.Assign) and isinstance(st.targets[0], ast.Name):
                c.class_attrs[st.targets[0].id] = st.value
        return c
    def mro(self, c):
        # C3 linearisation
        def merge(seqs):
            res = []
            seqs = [list(s) for s in seqs if s]
            while seqs:
                for s in seqs:
                    h = s[0]
                    if not any(h in t[1:] for t in seqs): break
                else: raise EngineError("MRO conflict")
                res.append(h)
                seqs = [[x for x in t if x is not h] for t in seqs]; seqs = [t for t in seqs if t]
            return res
        return [c] + merge([self.mro(b) for b in c.bases] + [list(c.bases)])
    def find_method(self, cls, name, after=None):
        chain = self.mro(cls)
        if after is not None: chain = chain[chain.index(after) + 1:]
        for k in chain:
            if name in k.methods: return k, k.methods[name]
        return None, None
    def find_class_attr(self, cls, name):
        for k in self.mro(cls):
            if name in k.class_attrs: return k, k.class_attrs[name]
        return None, None
    def all_fields(self, cls):
        out = {}
        for k in reversed(self.mro(cls)):
            for n, d in k.fields: out[n] = (k, d)
        return out
    def assigned_somewhere(self, cls, attr):
        for k in self.mro(cls):
            for node in k.methods.values():
                for n in ast.walk(node):
                    if isinstance(n, ast.Attribute) and n.attr == attr and isinstance(n.ctx, ast.Store) and isinstance(n.value, ast.Name) and n.value.id == "self": return True
        return False
    def qualname(self, cls, mname): return f"{cls.module.name}.{cls.name}.{mname}"
    def get_func(self, dotted):
        """'mdpax.utils.spaces.create_range_space' or 'mdpax.x.Class.method' -> Func (unbound)"""
        parts = dotted.split(".")
        for k in range(len(parts) - 1, 0, -1):
            modname = ".".join(parts[:k])
            p = os.path.join(SRC_ROOT, *parts[:k])
            if os.path.exists(p + ".py") or os.path.isdir(p):
                g = self.load_module(modname).globals; rest = parts[k:]
                v = g[rest[0]]
                if isinstance(v, ClassRef) and len(rest) == 2:
                    k2, node = self.find_method(v, rest[1])
                    return Func(node, k2.module.globals, None, self.qualname(k2, rest[1]), k2.module, k2)
                return v
        raise KeyError(dotted)
    # ------------------------------------------------------------------ statements
    def exec_block(self, stmts, env, mod):
        for s in stmts: self.exec_stmt(s, env, mod)
    def exec_stmt(self, s, env, mod):
        t = type(s)
        if t is ast.Expr:
            if isinstance(s.value, ast.Constant): return
            self.ev(s.value, env, mod)
        elif t is ast.Assign:
            v = self.ev(s.value, env, mod)
            for tg in s.targets: self.assign(tg, v, env, mod)
        elif t is ast.AnnAssign:
            if s.value is not None: self.assign(s.target, self.ev(s.value, env, mod), env, mod)
        elif t is ast.AugAssign:
            cur = self.ev(ast.copy_location(self._as_load(s.target), s.target), env, mod)
            v = self.binop(type(s.op).__name__, cur, self.ev(s.value, env, mod))
            self.assign(s.target, v, env, mod)
        elif t is ast.Return:
            raise ReturnExc(self.ev(s.value, env, mod) if s.value is not None else None)
        elif t is ast.If:
            if self.truth(self.ev(s.test, env, mod)): self.exec_block(s.body, env, mod)
            else: self.exec_block(s.orelse, env, mod)
        elif t is ast.FunctionDef:
            env[s.name] = Func(s, env, None, f"<local>.{s.name}", mod)
        elif t is ast.Pass: pass
        elif t is ast.Raise:
            exc = self.ev(s.exc, env, mod) if s.exc is not None else None
            if isinstance(exc, ExcClass): raise PyRaise(exc)
            if isinstance(exc, Obj) and isinstance(exc.cls, ExcClass): raise PyRaise(exc.cls, exc.attrs.get("msg"))
            raise Unsupported(f"raise {ast.unparse(s)}")
        elif t is ast.Try:
            try: self.exec_block(s.body, env, mod)
            except PyRaise as pr:
                for h in s.handlers:
                    ht = self.ev(h.type, env, mod) if h.type is not None else EXC["Exception"]
                    names = [x.name for x in (ht if isinstance(ht, tuple) else (ht,))]
                    if pr.exc.name in names or "Exception" in names:
                        if h.name: env[h.name] = Obj(pr.exc, {"msg": pr.msg})
                        self.exec_block(h.body, env, mod); break
                else: raise
            else: self.exec_block(s.orelse, env, mod)
            finally:
                if s.finalbody: self.exec_block(s.finalbody, env, mod)
        elif t is ast.For: self.exec_for(s, env, mod)
        elif t is ast.Break: raise BreakExc()
        elif t is ast.Continue: raise ContinueExc()
        elif t is ast.Assert:
            c = self.ev(s.test, env, mod)
            if not self.truth(c): raise PyRaise(EXC["AssertionError"])
        elif t is ast.Import or t is ast.ImportFrom:
            for a in s.names:
                if t is ast.Import: env[a.asname or a.name.split(".")[0]] = self.resolve_external(a.name if a.asname else a.name.split(".")[0])
                else: env[a.asname or a.name] = self.resolve_from(s.module, a.name)
        elif t is ast.With:
            raise Unsupported("with")
        else: raise Unsupported(f"statement {t.__name__}")
    def _as_load(self, tg):
        n = ast.parse(ast.unparse(tg), mode="eval").body; return n
    def exec_for(self, s, env, mod):
        it = self.ev(s.iter, env, mod)
        if isinstance(it, SymRange):
            hook = getattr(self, "loop_rule", None)
            if hook is None: raise Unsupported("symbolic-range loop without loop rule")
            return hook(self, s, it, env, mod)
        if isinstance(it, SArr): it = [subscript(it, i) for i in range(_need_int(it.shape[0]))]
        try:
            for x in it:
                self.assign(s.target, x, env, mod)
                try: self.exec_block(s.body, env, mod)
                except ContinueExc: continue
            else: self.exec_block(s.orelse, env, mod)
        except BreakExc: pass
    def assign(self, t, v, env, mod):
        if isinstance(t, ast.Name): env[t.id] = v
        elif isinstance(t, (ast.Tuple, ast.List)):
            vs = list(v) if not isinstance(v, SArr) else [subscript(v, i) for i in range(_need_int(v.shape[0]))]
            if len(vs) != len(t.elts): raise PyRaise(EXC["ValueError"], "unpack")
            for tt, vv in zip(t.elts, vs): self.assign(tt, vv, env, mod)
        elif isinstance(t, ast.Attribute):
            o = self.ev(t.value, env, mod)
            if not isinstance(o, Obj): raise Unsupported(f"setattr on {o!r}")
            self.note_write(o, t.attr); o.attrs[t.attr] = v
        elif isinstance(t, ast.Subscript):
            o = self.ev(t.value, env, mod); idx = self.ev_index(t.slice, env, mod)
            if isinstance(o, (dict, list)): o[idx] = v; return
            if o is None: raise PyRaise(EXC["TypeError"], "'NoneType' object does not support item assignment")
            if isinstance(o, SArr):
                new = setitem(o, idx, v)
                # in-place mutation of a numpy array: rebind wherever the target expression lives
                self.assign(t.value, new, env, mod) if isinstance(t.value, (ast.Name, ast.Attribute)) else None
                return
            raise Unsupported(f"subscript store on {o!r}")
        else: raise Unsupported(ast.dump(t)[:60])
    def note_write(self, o, attr):
        for a in self.stack: a.writes.add((o.oid, o.label, attr))
    def note_read(self, o, attr):
        for a in self.stack:
            if (o.oid, o.label, attr) not in a.writes: a.reads.add((o.oid, o.label, attr))
    # ------------------------------------------------------------------ expressions
    def ev(self, e, env, mod):
        m = getattr(self, "ev_" + type(e).__name__, None)
        if m is None: raise Unsupported(f"expression {type(e).__name__}: {ast.unparse(e)[:60]}")
        return m(e, env, mod)
    def ev_Constant(self, e, env, mod): return e.value
    def ev_Name(self, e, env, mod):
        if e.id in env:
            v = env[e.id]
            if type(v).__name__ == "HavocVal": raise Unsupported(f"local '{e.id}' is assigned in a loop body, read afterwards, and not described by the loop invariant")
            return v
        g = mod.globals if mod else {}
        if e.id in g: return g[e.id]
        if e.id in PY_BUILTINS: return PY_BUILTINS[e.id]
        if e.id in EXC: return EXC[e.id]
        import builtins as _bi
        if hasattr(_bi, e.id):
            # a genuine Python builtin the engine has no model of (sorted, divmod, an exception class ...): engine limitation, NOT a NameError of the program
            # (found by the conformance check: `sorted(...)` was reported as an undefined name)
            raise Unsupported(f"Python builtin '{e.id}' has no model (engine limitation, not a program error)")
        raise PyRaise(EXC["NameError"], f"name '{e.id}' is not defined")
    def ev_Tuple(self, e, env, mod):
        out = []
        for x in e.elts:
            if isinstance(x, ast.Starred): out.extend(self.iterate(self.ev(x.value, env, mod)))
            else: out.append(self.ev(x, env, mod))
        return tuple(out)
    def ev_List(self, e, env, mod): return list(self.ev_Tuple(e, env, mod))
    def ev_Dict(self, e, env, mod): return {self.ev(k, env, mod): self.ev(v, env, mod) for k, v in zip(e.keys, e.values)}
    def ev_Lambda(self, e, env, mod): return Func(e, env, None, "<lambda>", mod)
    def iterate(self, v):
        if isinstance(v, (tuple, list)): return list(v)
        if isinstance(v, SArr): return [subscript(v, i) for i in range(_need_int(v.shape[0]))]
        if isinstance(v, range): return list(v)
        if isinstance(v, dict): return list(v)
        raise Unsupported(f"iterate {v!r}")
    def ev_ListComp(self, e, env, mod): return self.comp(e, env, mod)
    def ev_GeneratorExp(self, e, env, mod): return self.comp(e, env, mod)
    def comp(self, e, env, mod):
        out = []
        def rec(gi, env2):
            if gi == len(e.generators): out.append(self.ev(e.elt, env2, mod)); return
            g = e.generators[gi]
            for x in self.iterate(self.ev(g.iter, env2, mod)):
                env3 = dict(env2); self.assign(g.target, x, env3, mod)
                if all(self.truth(self.ev(c, env3, mod)) for c in g.ifs): rec(gi + 1, env3)
        rec(0, dict(env)); return out
    def ev_JoinedStr(self, e, env, mod):
        parts = []; vals = []
        self.fstrings = getattr(self, "fstrings", [])
        for v in e.values:
            if isinstance(v, ast.Constant): parts.append(str(v.value))
            else:
                val = self.ev(v.value, env, mod); vals.append(val)
                if v.format_spec is not None:
                    spec = self.ev(v.format_spec, env, mod)
                    self.check_format_spec(spec, val)
                parts.append("{" + (str(val) if isinstance(val, (str, int, float)) else "?") + "}")
        self.fstrings.append(vals)                       # interpolated values of every f-string evaluated on this path (contracts on messages)
        if len(parts) == 1 and isinstance(e.values[0], ast.FormattedValue):
            val = self.ev(e.values[0].value, env, mod)
            if isinstance(val, FormatSpec): return val
        # f".{decimal_places}f" -> FormatSpec
        if len(e.values) == 3 and isinstance(e.values[0], ast.Constant) and e.values[0].value == "." and isinstance(e.values[2], ast.Constant) and e.values[2].value == "f":
            return FormatSpec(self.ev(e.values[1].value, env, mod))
        return "".join(parts)
    def check_format_spec(self, spec, val):
        if isinstance(spec, FormatSpec):
            d = spec.decimals
            ok = (d >= 0) if not is_z3(d) else d >= 0
            if not self.truth(ok): raise PyRaise(EXC["ValueError"], "Format specifier missing precision")
    def ev_Attribute(self, e, env, mod):
        o = self.ev(e.value, env, mod)
        return self.getattr(o, e.attr)
    def getattr(self, o, a):
        if isinstance(o, SuperProxy):
            k, node = self.find_method(o.obj.cls, a, after=o.after_cls)
            if node is None: raise PyRaise(EXC["AttributeError"], a)
            return Func(node, k.module.globals, o.obj, self.qualname(k, a), k.module, k)
        if isinstance(o, Obj):
            if a in o.attrs: self.note_read(o, a); derive.log_read(self, o, a); return o.attrs[a]
            if a in getattr(o, "derived", ()): derive.log_read(self, o, a); return o.derived[a]
            if isinstance(o.cls, ClassRef):
                k, node = self.find_method(o.cls, a)
                if node is not None:
                    f = Func(node, k.module.globals, o, self.qualname(k, a), k.module, k)
                    decs = [ast.unparse(d) for d in node.decorator_list]
                    if "property" in decs: return self.call(f, [], {})
                    if "classmethod" in decs: f.self_obj = o.cls
                    if "staticmethod" in decs: f.self_obj = None          # no implicit first argument (found by a benign refactoring: a static helper was called with `self` prepended)
                    return f
                k, cv = self.find_class_attr(o.cls, a)
                if cv is not None: return self.ev(cv, dict(k.module.globals), k.module)
            if "__getattr__" in o.attrs: return o.attrs["__getattr__"](a)
            if isinstance(o.cls, ClassRef) and self.assigned_somewhere(o.cls, a):
                # the class does assign this attribute (e.g. in a constructor phase), but the contract's hand-built pre-state does not provide it:
                # the CONTRACT no longer covers the code -> engine limitation (undecided / bounded fallback), never a property violation
                # ... unless it is a construction constant whose value the real source determines (pyvc/derive.py)
                derive.log_read(self, o, a)
                return derive.derive_attr(self, o, a)
            if not isinstance(o.cls, ClassRef) and o.label in ("config", "cfg"):
                # hand-built partial stub of a configuration object: a field the code now reads is missing from the CONTRACT's scenario
                raise Unsupported(f"scenario stub {o.label} lacks field '{a}': the contract must be extended")
            raise PyRaise(EXC["AttributeError"], f"{o.label} has no attribute {a}")
        if isinstance(o, ClassRef):
            k, node = self.find_method(o, a)
            if node is not None:
                f = Func(node, k.module.globals, None, self.qualname(k, a), k.module, k)
                if "classmethod" in [ast.unparse(d) for d in node.decorator_list]: f.self_obj = o
                return f
            k, cv = self.find_class_attr(o, a)
            if cv is not None: return self.ev(cv, dict(k.module.globals), k.module)
            raise PyRaise(EXC["AttributeError"], f"class {o.name} has no attribute {a}")
        if o is None: raise PyRaise(EXC["AttributeError"], f"'NoneType' object has no attribute '{a}'")
        if isinstance(o, dict):
            if a in o: return o[a]
            if a == "items": return Builtin(lambda: list(o.items()))
            raise Unsupported(f"library attribute '{a}' has no model (engine limitation, not a program error)")
        if isinstance(o, Unresolved): return Unresolved(f"{o.name}.{a}")
        if hasattr(self, "PathV") and isinstance(o, self.PathV): return self.path_attr(o, a)
        v = value_getattr(self, o, a)
        if v is not NotImplemented: return v
        raise Unsupported(f"getattr {type(o).__name__}.{a}")
    def ev_BinOp(self, e, env, mod): return self.binop(type(e.op).__name__, self.ev(e.left, env, mod), self.ev(e.right, env, mod))
    def binop(self, op, a, b):
        if hasattr(self, "PathV") and isinstance(a, self.PathV) and op == "Div": return self.PathV(f"{a.s}/{b}")
        return binop(op, a, b)
    def ev_UnaryOp(self, e, env, mod):
        v = self.ev(e.operand, env, mod)
        if isinstance(e.op, ast.USub): return binop("Sub", 0, v)
        if isinstance(e.op, ast.UAdd): return v
        if isinstance(e.op, ast.Not):
            if is_z3(v): return z3.Not(v if z3.is_bool(v) else v != 0)
            if isinstance(v, SArr): return SArr(v.shape, lambda idx: z3.Not(toz3(v.get(idx))))
            return not self.truth(v)
        raise Unsupported("unary")
    def ev_BoolOp(self, e, env, mod):
        isand = isinstance(e.op, ast.And); acc = []; last = None; n = len(e.values)
        for i, x in enumerate(e.values):
            v = self.ev(x, env, mod)
            if is_z3(v) and z3.is_bool(v) and concrete_bool(v) is None:
                acc.append(v); last = v; continue
            if i == n - 1 and not acc: return v
            t = self.truth(v)
            if isand and not t: return False if acc else v
            if (not isand) and t: return True if acc else v
            last = v
        if acc: return z3.And(*acc) if isand else z3.Or(*acc)
        return last
    def ev_Compare(self, e, env, mod):
        l = self.ev(e.left, env, mod); res = None
        for op, r in zip(e.ops, e.comparators):
            r = self.ev(r, env, mod); c = self.cmpop(type(op).__name__, l, r)
            if res is None: res = c
            elif is_z3(res) or is_z3(c): res = z3.And(toz3(res), toz3(c))
            elif isinstance(res, SArr) or isinstance(c, SArr): res = binop("BitAnd", res, c)
            else: res = res and c
            l = r
        return res
    def cmpop(self, op, a, b):
        if op in ("Is", "IsNot") and hasattr(self, "LatestStep") and isinstance(a, self.LatestStep) and b is None:
            r = toz3(a.t) < 0; return r if op == "Is" else z3.Not(r)
        if op in ("Is", "IsNot"):
            same = (a is b) or (a is None and b is None) or (isinstance(a, (bool, int, str)) and isinstance(b, (bool, int, str)) and a == b and type(a) == type(b))
            return same if op == "Is" else not same
        if op in ("In", "NotIn"):
            if isinstance(a, EnumSym):
                r = z3.Or(*[a.eq(x) for x in b])
            elif isinstance(b, (list, tuple, dict, str)) and not is_z3(a):
                def sym(x): return is_z3(x) or isinstance(x, SArr) or (isinstance(x, (tuple, list)) and any(sym(y) for y in x))
                if isinstance(b, dict) and (sym(a) or any(sym(k) for k in b)): raise Unsupported("membership test of a symbolic key in a dictionary (caches keyed by parameters are outside the supported subset)")
                r = a in b
            else: raise Unsupported("in")
            return r if op == "In" else (z3.Not(r) if is_z3(r) else not r)
        return cmpop(op, a, b)
    def ev_IfExp(self, e, env, mod):
        c = self.ev(e.test, env, mod)
        return self.ev(e.body, env, mod) if self.truth(c) else self.ev(e.orelse, env, mod)
    def ev_Subscript(self, e, env, mod):
        o = self.ev(e.value, env, mod)
        if o is None: raise PyRaise(EXC["TypeError"], "'NoneType' object is not subscriptable")
        if isinstance(o, Unresolved): return o           # typing subscripts such as Float[Array, "n"]
        idx = self.ev_index(e.slice, env, mod)
        if isinstance(o, dict) and o.get("__r__"):        # np.r_[a, b, ...]
            from .models import arrays as _A
            parts = idx if isinstance(idx, tuple) else (idx,)
            return _A.concat([(_A.from_value(p_) if isinstance(p_, (list, tuple, SArr)) else arr_from_list([p_])) for p_ in parts], 0)
        if isinstance(o, dict) and is_z3(idx):           # symbolic key into a literal dict: one path per key, KeyError otherwise
            for k in o:
                if isinstance(k, int) and not isinstance(k, bool) and self.truth(idx == k): return o[k]
            raise PyRaise(EXC["KeyError"], str(idx))
        return subscript(o, idx)
    def ev_index(self, s, env, mod):
        if isinstance(s, ast.Slice):
            return slice(*(self.ev(x, env, mod) if x is not None else None for x in (s.lower, s.upper, s.step)))
        if isinstance(s, ast.Tuple): return tuple(self.ev_index(x, env, mod) for x in s.elts)
        return self.ev(s, env, mod)
    def ev_Call(self, e, env, mod):
        # super()
        if isinstance(e.func, ast.Name) and e.func.id == "super" and not e.args:
            return SuperProxy(env[self.stack[-1].func.node.args.args[0].arg], self.stack[-1].func.defcls)
        f = self.ev(e.func, env, mod)
        args = []
        for a in e.args:
            if isinstance(a, ast.Starred): args.extend(self.iterate(self.ev(a.value, env, mod)))
            else: args.append(self.ev(a, env, mod))
        kw = {}
        for k in e.keywords:
            if k.arg is None: kw.update(self.ev(k.value, env, mod))
            else: kw[k.arg] = self.ev(k.value, env, mod)
        return self.call(f, args, kw)
    # ------------------------------------------------------------------ calls
    def call(self, f, args, kw):
        if isinstance(f, Builtin):
            if f.name and "." in f.name: self.lib_log.add(f.name)        # which assumed library contracts this verification actually used
            return f.fn(*args, **kw)
        if isinstance(f, Func):
            q = f.qualname
            c = self.contracts.get(q)
            if c is not None and q != self.verifying and q not in self.inline and (c.returns is not None or c.effects is not None):
                return self.call_contract(c, f, args, kw)          # modular: callers see the contract, not the body
            # a contract without a functional `returns` cannot stand in for the body: the (real) body is inlined instead
            return self.call_body(f, args, kw)
        if isinstance(f, ClassRef): return self.instantiate(f, args, kw)
        if isinstance(f, ExcClass): return Obj(f, {"msg": args[0] if args else None})
        if isinstance(f, Unresolved): raise Unsupported(f"call to unmodelled {f.name}")
        if callable(f): return f(*args, **kw)
        if f is None or isinstance(f, (bool, int, float, str, tuple, list, SArr)) or is_z3(f): raise PyRaise(EXC["TypeError"], f"{f!r} not callable")
        raise Unsupported(f"call of an engine-level value {type(f).__name__} (abstract library object or namespace without a call model): engine limitation, not a program error")
    def bind_args(self, f, args, kw):
        node = f.node; a = node.args
        params = [x.arg for x in a.posonlyargs + a.args]
        env = dict(f.env) if (f.qualname or "").startswith("<") else {}
        bound = {}
        args = list(args)
        if f.self_obj is not None: args = [f.self_obj] + args
        for i, p in enumerate(params):
            if i < len(args): bound[p] = args[i]
        if len(args) > len(params):
            if a.vararg: bound[a.vararg.arg] = tuple(args[len(params):])
            else: raise PyRaise(EXC["TypeError"], "too many positional arguments")
        elif a.vararg: bound[a.vararg.arg] = ()
        kw = dict(kw)
        for p in params + [x.arg for x in a.kwonlyargs]:
            if p in kw:
                if p in bound: raise PyRaise(EXC["TypeError"], f"multiple values for {p}")
                bound[p] = kw.pop(p)
        if a.kwarg: bound[a.kwarg.arg] = kw
        elif kw: raise PyRaise(EXC["TypeError"], f"unexpected keyword {list(kw)}")
        defaults = a.defaults
        for i, p in enumerate(params):
            if p not in bound:
                di = i - (len(params) - len(defaults))
                if di < 0: raise PyRaise(EXC["TypeError"], f"missing argument {p}")
                bound[p] = self.ev(defaults[di], env, f.module)
        for x, d in zip(a.kwonlyargs, a.kw_defaults):
            if x.arg not in bound:
                if d is None: raise PyRaise(EXC["TypeError"], f"missing kw-only {x.arg}")
                bound[x.arg] = self.ev(d, env, f.module)
        env.update(bound)
        return env, bound
    def call_body(self, f, args, kw):
        env, _ = self.bind_args(f, args, kw)
        if isinstance(f.node, ast.Lambda): return self.ev(f.node.body, env, f.module)
        act = Activation(f); self.stack.append(act)
        if f.qualname and not f.qualname.startswith("<"): self.executed.add(f.qualname)      # real bodies symbolically executed (target or inlined)
        try:
            self.exec_block(f.node.body, env, f.module)
            return None
        except ReturnExc as r: return r.v
        finally:
            self.stack.pop()
            f.last_activation = act
    def call_contract(self, c, f, args, kw):
        if not hasattr(self, "applied"): self.applied = set()
        self.applied.add(c.target)                       # modularity audit: every contract used at a call site must itself be proved in the same property
        env, bound = self.bind_args(f, args, kw)
        if c.requires is not None and not os.environ.get("PYVC_NO_PRE_FALLBACK"):
            # A contract's `requires` is MY summary of what the callee's current body needs.  If it cannot be established at this call site the modular
            # shortcut simply does not apply here: the callee's REAL body is executed instead (a benign refactoring may have made the precondition
            # unnecessary; a real defect shows in the caller's own postconditions, now computed from the real body).  Never a violation by itself.
            from .contract import Ctx, Q
            try:
                q = Q("goal"); pre = c.requires(Ctx(bound), q)
                v = smt.prove(list(self.pc) + q.hyps, toz3(pre), 6000)
                ok = v.status == "proved"
            except (Unsupported, PyRaise): raise
            except Exception: ok = True           # the contract's own evaluation failed: leave it to apply(), which reports it
            if not ok and c.target not in self.no_pre_inline:
                mark = f"call-site precondition of {c.target.split('.')[-1]} not established: body inlined"
                self.derived_used.add(mark)
                self.events.append(f"precondition-not-established: {c.target} at {getattr(self.stack[-1].func, 'qualname', '?') if self.stack else '?'}: real body inlined")
                depth = len(self.stack)
                try:
                    return self.call_body(f, args, kw)
                except (PyRaise, ReturnExc, BreakExc, ContinueExc, RestartPath): raise
                except Exception as ex:
                    if type(ex).__name__ in ("PathEnd", "PreFailed"): raise
                    # the real body is outside the engine's reach (Unsupported / engine-internal error): the question cannot be settled through the body, so the
                    # path is re-executed with the contract applied at this call site and the unestablished precondition REPORTED as the failing obligation
                    # (an obligation that held on the unchanged tree and fails now - e.g. M03, M23, S64, S84)
                    self.no_pre_inline.add(c.target); del self.stack[depth:]
                    raise RestartPath()
        return c.apply(self, f, bound)
    def instantiate(self, cls, args, kw):
        if cls.is_dataclass:
            fields = self.all_fields(cls); o = Obj(cls, {})
            names = list(fields)
            for i, v in enumerate(args): kw[names[i]] = v
            for n in kw:
                if n not in fields: raise PyRaise(EXC["TypeError"], f"unexpected keyword argument '{n}'")
            for n, (k, d) in fields.items():
                if n in kw: o.attrs[n] = kw[n]
                elif d is not None: o.attrs[n] = self.ev(d, dict(k.module.globals), k.module)
                else: raise PyRaise(EXC["TypeError"], f"missing field {n}")
            k, node = self.find_method(cls, "__post_init__")
            if node is not None: self.call(Func(node, k.module.globals, o, self.qualname(k, "__post_init__"), k.module, k), [], {})
            return o
        o = Obj(cls, {})
        k, node = self.find_method(cls, "__init__")
        if node is not None: self.call(Func(node, k.module.globals, o, self.qualname(k, "__init__"), k.module, k), args, kw)
        return o

class Unresolved:
    def __init__(self, name): self.name = name
    def __repr__(self): return f"<unresolved {self.name}>"
    def __call__(self, *a, **k): raise Unsupported(f"call to unmodelled {self.name}")

class SymRange:
    def __init__(self, lo, hi): self.lo, self.hi = lo, hi

class FormatSpec:
    def __init__(self, decimals): self.decimals = decimals
    def __repr__(self): return f"FormatSpec(.{self.decimals}f)"

class EnumSym:
    """symbolic string drawn from a finite set plus 'other'"""
    def __init__(self, name, options):
        self.name = name; self.options = list(options); self.var = z3.Int(name)   # index; len(options) = other
    def eq(self, s):
        return self.var == self.options.index(s) if s in self.options else z3.BoolVal(False)

def _need_int(x):
    c = concrete_int(x)
    if c is None: raise Unsupported(f"symbolic length {x} where a concrete one is needed")
    return c

# ---------------------------------------------------------------------- generic ops (extended by models.arrays)
def elem(v, idx):
    if isinstance(v, SArr):
        k = v.ndim
        if k == 0: return v.get(())
        sub = tuple(idx[len(idx) - k:])
        # broadcasting of size-1 dims
        sub = tuple(0 if concrete_int(s) == 1 else i for i, s in zip(sub, v.shape))
        return v.get(sub)
    return v
def bshape(sa, sb):
    out = []
    for i in range(max(len(sa), len(sb))):
        a = sa[len(sa) - 1 - i] if i < len(sa) else 1
        b = sb[len(sb) - 1 - i] if i < len(sb) else 1
        out.append(b if concrete_int(a) == 1 else a)
    return tuple(reversed(out))
def scalar_binop(op, x, y):
    if op in ("BitAnd", "BitOr"):
        x, y = toz3(x), toz3(y); return z3.And(x, y) if op == "BitAnd" else z3.Or(x, y)
    if op == "Pow":
        from .models import stdlib
        return stdlib.power(x, y)
    x, y = coerce_pair(x, y)
    if op == "Add": return x + y
    if op == "Sub": return x - y
    if op == "Mult": return x * y
    if op == "Div":
        if z3.is_int(x): x, y = z3.ToReal(x), z3.ToReal(y)
        if DIV_HOOK[0] is not None: DIV_HOOK[0](y)
        return x / y
    if op == "FloorDiv":
        if z3.is_int(x): return x / y
        raise Unsupported("float floor-div")
    if op == "Mod": return x % y
    raise Unsupported(op)
PYOPS = {"Add": operator.add, "Sub": operator.sub, "Mult": operator.mul, "Div": operator.truediv, "FloorDiv": operator.floordiv,
         "Mod": operator.mod, "Pow": operator.pow, "BitAnd": operator.and_, "BitOr": operator.or_}
def binop(op, a, b):
    if op == "MatMult":
        from .models import arrays as _A
        return _A.dot(a, b)               # `a @ b` for the 1-D / 2-D shapes dot() supports
    if isinstance(a, SArr) or isinstance(b, SArr):
        sa = a.shape if isinstance(a, SArr) else (); sb = b.shape if isinstance(b, SArr) else ()
        sh = bshape(sa, sb)
        return SArr(sh, lambda idx: binop(op, elem(a, idx), elem(b, idx)))
    if is_z3(a) or is_z3(b): return scalar_binop(op, a, b)
    if isinstance(a, (tuple, list)) and op == "Add": return a + b
    if isinstance(a, str) or isinstance(b, str): return PYOPS[op](a, b)
    if op == "Div" and b == 0: raise PyRaise(EXC["ZeroDivisionError"])
    return PYOPS[op](a, b)
def cmpop(op, a, b):
    if isinstance(a, SArr) or isinstance(b, SArr):
        sa = a.shape if isinstance(a, SArr) else (); sb = b.shape if isinstance(b, SArr) else ()
        return SArr(bshape(sa, sb), lambda idx: cmpop(op, elem(a, idx), elem(b, idx)))
    if isinstance(a, EnumSym) or isinstance(b, EnumSym):
        e, s = (a, b) if isinstance(a, EnumSym) else (b, a)
        r = e.eq(s); return r if op == "Eq" else z3.Not(r)
    if is_z3(a) or is_z3(b):
        if isinstance(a, str) or isinstance(b, str) or a is None or b is None: return op == "NotEq"
        a, b = coerce_pair(a, b)
        return {"Lt": lambda: a < b, "LtE": lambda: a <= b, "Gt": lambda: a > b, "GtE": lambda: a >= b, "Eq": lambda: a == b, "NotEq": lambda: a != b}[op]()
    try:
        return {"Lt": operator.lt, "LtE": operator.le, "Gt": operator.gt, "GtE": operator.ge, "Eq": operator.eq, "NotEq": operator.ne}[op](a, b)
    except TypeError:
        if all(x is None or isinstance(x, (bool, int, float, str, tuple, list)) for x in (a, b)): raise PyRaise(EXC["TypeError"], f"'{op}' not supported between {type(a).__name__} and {type(b).__name__}")
        raise Unsupported(f"comparison '{op}' of engine-level values {type(a).__name__}, {type(b).__name__} (abstract library objects): engine limitation, not a program error")

def subscript(o, idx):
    from .models import arrays
    return arrays.subscript(o, idx)
def setitem(o, idx, v):
    from .models import arrays
    return arrays.setitem(o, idx, v)
def value_getattr(interp, o, a):
    from .models import arrays
    return arrays.value_getattr(interp, o, a)

PY_BUILTINS = {}
DIV_HOOK = [None]
