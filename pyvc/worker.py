"""Verify ONE unit (a contracted function of the real source) in its own process; print a JSON report on stdout.

usage: python3-vt -m pyvc.worker '<json spec>'
spec: {"modules": [contract modules to import], "target": qualified name, "timeout_ms": int,
       "pop": [targets whose contracts are removed so that their real bodies are inlined],
       "prepare": "module:function" (optional hook run after imports), "only": [scenario prefixes], "known": [...]}
"""
import sys, os, json, time, ast, hashlib, importlib, traceback

sys.path.insert(0, os.path.dirname(os.path.dirname(os.path.abspath(__file__))))
sys.setrecursionlimit(20000)


def model_json(m, limit=60):
    import z3
    out = {}
    if m is None:
        return out
    for d in m.decls():
        nm = d.name()
        try:
            if d.arity() == 0:
                v = m[d]
                if z3.is_int_value(v): out[nm] = v.as_long()
                elif z3.is_rational_value(v):
                    fr = v.as_fraction(); out[nm] = float(fr) if fr.denominator != 1 else int(fr.numerator)
                    if fr.denominator != 1: out[nm + "#exact"] = str(fr)
                elif z3.is_true(v): out[nm] = True
                elif z3.is_false(v): out[nm] = False
                else: out[nm] = str(v)[:200]
            else:
                out["fn:" + nm] = str(m[d])[:400]
        except Exception:
            pass
        if len(out) >= limit * 4: break
    return out


def main(spec):
    t0 = time.time()
    from pyvc import contract as C, interp as PI
    from pyvc.session import new_interp
    rep = {"target": spec["target"], "modules": spec["modules"], "results": [], "error": None, "src_root": PI.SRC_ROOT}
    try:
        for m in spec["modules"]:
            importlib.import_module(m)
        if spec.get("prepare"):
            mod, fn = spec["prepare"].split(":"); getattr(importlib.import_module(mod), fn)()
        for p in spec.get("pop", []):
            C.REGISTRY.pop(p, None)
        C.KNOWN[:] = spec.get("known", [])
        from pyvc import smt as SMT
        SMT.EXPORT[0] = bool(spec.get("export_all"))
        if os.environ.get("PYVC_UNIT_DEADLINE_S"): SMT.UNIT_DEADLINE[0] = t0 + float(os.environ["PYVC_UNIT_DEADLINE_S"])
        I = new_interp()
        res, npaths = C.verify(I, spec["target"], timeout_ms=spec.get("timeout_ms", 10000), only=spec.get("only"))
        f = I.get_func(spec["target"]); src = ast.unparse(f.node)
        rep["function"] = {"name": spec["target"], "defined_in": getattr(f, "qualname", spec["target"]), "file": os.path.relpath(f.module.path, PI.SRC_ROOT) if getattr(f, "module", None) else None,
                           "lines": [f.node.lineno, f.node.end_lineno], "sha256": hashlib.sha256(src.encode()).hexdigest()[:16]}
        rep["paths"] = npaths; rep["pruned"] = getattr(I, "last_counts", {}).get("pruned", 0)
        rep["lib_used"] = sorted(getattr(I, "lib_log", set())); rep["executed"] = sorted(getattr(I, "executed", set()))
        rep["contracts_applied"] = sorted(getattr(I, "applied", set()))
        rep["derived_attributes"] = sorted({e for e in I.events if isinstance(e, str) and e.startswith("derived-attribute:")})
        for r in res:
            v = r.verdict
            rep["results"].append({"name": r.name, "path": r.path, "status": v.status, "backend": v.backend, "secs": round(v.secs, 4), "lemmas": v.lemmas,
                                   "detail": v.detail, "model": model_json(v.model) if v.status == "refuted" else None,
                                   "canary": "CANARY" in r.name, "guard": bool(r.meta.get("guard")),
                                   "known_finding": r.meta.get("known_finding"), "smt2": r.meta.get("smt2"), "deciding_query": (v.smt2() if v.status == "proved" and v.query is not None else None),
                                   "meta": {k: (v2 if isinstance(v2, (str, int, float, bool, list, type(None))) else str(v2)) for k, v2 in r.meta.items() if k not in ("smt2", "known_finding", "guard")}})
    except Exception as ex:
        rep["error"] = f"{type(ex).__name__}: {ex}"; rep["traceback"] = traceback.format_exc()[-3000:]
        if type(ex).__name__ not in ("Unsupported", "EngineError", "PreFailed") and "/pyvc/" in rep["traceback"]:
            # a Python exception raised INSIDE the engine's own code while it interprets source it was never run on (an unforeseen shape of value in a
            # library model, say) is an engine limitation like any other: the unit is undecided and the run-time harness decides; the traceback is kept
            rep["error"] = f"Unsupported: engine-internal {type(ex).__name__} while interpreting this unit ({str(ex)[:160]}); undecided"
    rep["wall_s"] = round(time.time() - t0, 3)
    return rep


if __name__ == "__main__":
    spec = json.loads(sys.argv[1]) if not sys.argv[1].startswith("@") else json.load(open(sys.argv[1][1:]))
    rep = main(spec)
    sys.stdout.write("\n@@REPORT@@" + json.dumps(rep) + "\n")
