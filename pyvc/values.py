"""Value model for the symbolic interpreter."""
from __future__ import annotations
import z3

VEC = z3.DeclareSort("Vec")          # opaque state/action/event vectors
KEY = z3.DeclareSort("PRNGKey")

def is_z3(x): return isinstance(x, z3.ExprRef)
def is_sym(x): return is_z3(x)
def toz3(x):
    if is_z3(x): return x
    if isinstance(x, bool): return z3.BoolVal(x)
    if isinstance(x, int): return z3.IntVal(x)
    if isinstance(x, float):
        if x == float("inf"): return PINF
        return z3.RealVal(repr(x))
    if type(x).__name__ == "SArr" and x.shape == (): return toz3(x.get(()))          # 0-dimensional array: its single element
    raise TypeError(f"cannot lift {x!r}")
PINF = z3.Real("+inf")               # constrained > every finite real only where compared (see models.stdlib)

def simp(x):
    return z3.simplify(x) if is_z3(x) else x
def concrete_int(x):
    """python int if x is (or simplifies to) a literal, else None"""
    if isinstance(x, bool): return int(x)
    if isinstance(x, int): return x
    if is_z3(x):
        s = z3.simplify(x)
        if z3.is_int_value(s): return s.as_long()
    return None
def concrete_bool(x):
    if isinstance(x, bool): return x
    if is_z3(x):
        s = z3.simplify(x)
        if z3.is_true(s): return True
        if z3.is_false(s): return False
    return None
def coerce_pair(a, b):
    a, b = toz3(a), toz3(b)
    if a.sort() == b.sort(): return a, b
    if z3.is_int(a) and z3.is_real(b): return z3.ToReal(a), b
    if z3.is_real(a) and z3.is_int(b): return a, z3.ToReal(b)
    if z3.is_bool(a) and not z3.is_bool(b): return coerce_pair(z3.If(a, 1, 0), b)
    if z3.is_bool(b) and not z3.is_bool(a): return coerce_pair(a, z3.If(b, 1, 0))
    return a, b

class SArr:
    """Lazy array: shape (python ints or z3 Ints; rank concrete) + element getter.
    `flat`: optional getter on the row-major flat index of the *leading block* `flat_lead` dims."""
    __slots__ = ("shape", "get", "name", "flat", "vec", "tag", "store_cast", "vflat")
    def __init__(self, shape, get, name=None, flat=None, vec=None, tag=None):
        # vec: for "vector arrays" (last axis = vector components): leading-index tuple -> z3 Vec term
        # tag: ("arange", lo) for aranges (identity gathers), etc.
        self.shape = tuple(shape); self.get = get; self.name = name; self.flat = flat; self.vec = vec; self.tag = tag
    @property
    def ndim(self): return len(self.shape)
    def __repr__(self): return f"SArr{tuple(str(s) for s in self.shape)}"
    def is_concrete_shape(self): return all(concrete_int(s) is not None for s in self.shape)
    def cshape(self): return tuple(concrete_int(s) for s in self.shape)
    def tolist(self):
        """nested python lists for concrete shapes"""
        sh = self.cshape(); assert None not in sh, f"symbolic shape {self.shape}"
        def rec(prefix, dims):
            if not dims: return self.get(tuple(prefix))
            return [rec(prefix + [i], dims[1:]) for i in range(dims[0])]
        return rec([], list(sh))

def arr_from_list(xs):
    """1-D (or nested) python list -> SArr"""
    xs = list(xs)
    if xs and isinstance(xs[0], (list, tuple)):
        rows = [arr_from_list(r) for r in xs]
        return SArr((len(rows),) + rows[0].shape, lambda idx, rows=rows: _rowget(rows, idx))
    if xs and isinstance(xs[0], SArr) and xs[0].ndim >= 1:
        rows = xs
        return SArr((len(rows),) + rows[0].shape, lambda idx, rows=rows: _rowget(rows, idx))
    def get(idx, xs=xs):
        i = concrete_int(idx[0])
        if i is not None: return xs[i]
        return select_list(xs, idx[0])
    return SArr((len(xs),), get)
def _rowget(rows, idx):
    c = concrete_int(idx[0])
    if c is not None: return rows[c].get(tuple(idx[1:]))
    return select_list([r.get(tuple(idx[1:])) for r in rows], idx[0])
def _ci(i):
    c = concrete_int(i); assert c is not None, f"symbolic row index {i} into concrete list"; return c
def select_list(xs, i):
    """symbolic index into a python list (clamped like a JAX gather)"""
    xs = [x.get(()) if isinstance(x, SArr) and x.ndim == 0 else x for x in xs]
    r = xs[-1]
    for k in range(len(xs) - 2, -1, -1):
        a, b = coerce_pair(xs[k], r)
        r = z3.If(toz3(i) <= k, a, b)
    return r

class Obj:
    """instance of a repo class (or abstract external object)"""
    _n = 0
    def __init__(self, cls, attrs=None, label=None):
        self.cls = cls; self.attrs = dict(attrs or {}); Obj._n += 1; self.oid = Obj._n; self.label = label or f"{cls}#{self.oid}"
    def __repr__(self): return f"<{self.label}>"

class Func:
    def __init__(self, node, env, self_obj=None, qualname=None, module=None, defcls=None):
        self.node, self.env, self.self_obj, self.qualname, self.module, self.defcls = node, env, self_obj, qualname, module, defcls
    def bind(self, obj): return Func(self.node, self.env, obj, self.qualname, self.module, self.defcls)
    def __repr__(self): return f"<Func {self.qualname}>"

class Builtin:
    def __init__(self, fn, name=""): self.fn = fn; self.name = name
    def __repr__(self): return f"<Builtin {self.name}>"

class ClassRef:
    """reference to a repo class loaded from source"""
    def __init__(self, name, module, node, bases):
        self.name, self.module, self.node, self.bases = name, module, node, bases
        self.methods = {}; self.class_attrs = {}; self.fields = []   # dataclass fields: (name, default_node|None)
        self.is_dataclass = False
    def __repr__(self): return f"<class {self.name}>"

class ExcClass:
    """python exception classes used by repo code"""
    def __init__(self, name): self.name = name
    def __repr__(self): return f"<exc {self.name}>"

class PyRaise(Exception):
    def __init__(self, exc, msg=None): self.exc = exc; self.msg = msg
class ReturnExc(Exception):
    def __init__(self, v): self.v = v
class BreakExc(Exception): pass
class ContinueExc(Exception): pass
class RestartPath(Exception): pass
class EngineError(Exception): pass
class Unsupported(EngineError): pass

COMP = z3.Function("comp", VEC, z3.IntSort(), z3.IntSort())     # component c of a vector
ZVEC = z3.Const("ZEROVEC", VEC)                                  # all-zero padding row
def vec_array(shape, vec, name=None):
    """array of opaque vectors: shape = lead + (dim,), vec(lead_idx) -> Vec term"""
    return SArr(shape, lambda idx, vec=vec: COMP(vec(tuple(idx[:-1])), toz3(idx[-1])), name=name, vec=vec)
def as_vec(x):
    """Vec term of a 1-D vector value"""
    if is_z3(x) and x.sort() == VEC: return x
    if isinstance(x, SArr) and x.vec is not None and x.ndim == 1: return x.vec(())
    raise TypeError(f"not an opaque vector: {x!r}")
