"""Fresh interpreter with all library models installed (one per verification unit)."""
from .interp import Interp, PY_BUILTINS
from .models import libs, stdlib, external
from . import interp as _PI
from .values import concrete_bool


def new_interp():
    I = Interp({})
    I.ghost = {}
    I.models = libs.make(I)
    I.models.update(external.make(I))
    I.env_device_count = 1
    stdlib.install(I, PY_BUILTINS)
    _name_models(I.models)

    def div_hook(y):
        # every `/` whose divisor is not syntactically non-zero becomes a safety obligation
        g = y != 0
        if concrete_bool(g) is not True:
            I.oblige("safe.div_nonzero", g)
    _PI.DIV_HOOK[0] = div_hook
    from .models import arrays as _A
    import z3 as _z3
    def nonneg(e):
        sv = _z3.Solver(); sv.set("timeout", 300); sv.add(*[p for p in I.pc if not _z3.is_quantifier(p)]); sv.add(e < 0)
        from .smt import guarded_check
        return guarded_check(sv, 300) == _z3.unsat
    _A.NONNEG_ORACLE[0] = nonneg
    return I


def _name_models(models, prefix=""):
    """give every library-model builtin its dotted name so that the worker can report which assumed contracts a proof used"""
    from .values import Builtin
    seen = set()
    def rec(ns, pre, depth):
        if id(ns) in seen or depth > 3: return
        seen.add(id(ns))
        for k, v in list(ns.items()):
            if isinstance(v, Builtin) and (not v.name or "." not in v.name): v.name = f"{pre}.{k}"
            elif isinstance(v, dict): rec(v, f"{pre}.{k}" if pre else k, depth + 1)
    for modname, ns in models.items():
        if isinstance(ns, dict): rec(ns, modname, 0)
