"""Fresh interpreter with all library models installed (one per verification unit)."""
from .interp import Interp, PY_BUILTINS
from .models import libs, stdlib, external
from . import interp as _PI
from .values import concrete_bool


def new_interp():
    I = Interp({})
    I.ghost = {}
    I.models = libs.make(I)
    I.models.update(external.make(I))
    I.env_device_count = 1
    stdlib.install(I, PY_BUILTINS)

    def div_hook(y):
        # every `/` whose divisor is not syntactically non-zero becomes a safety obligation
        g = y != 0
        if concrete_bool(g) is not True:
            I.oblige("safe.div_nonzero", g)
    _PI.DIV_HOOK[0] = div_hook
    return I
