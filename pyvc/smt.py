"""Discharge obligations: z3 with reduction congruence lemmas; verdicts proved / refuted / unknown."""
import time, z3
from . import reduce as R
from .values import toz3

EXPORT = [False]          # thorough tier: keep the deciding query (assumptions incl. lemmas, goal) so that a second solver can re-check it
class Verdict:
    def __init__(self, status, backend, secs, model=None, lemmas=0, detail="", query=None):
        self.status, self.backend, self.secs, self.model, self.lemmas, self.detail = status, backend, secs, model, lemmas, detail
        self.query = query if EXPORT[0] else None
    def smt2(self):
        if self.query is None: return None
        sv = z3.Solver(); sv.add(*self.query[0]); sv.add(z3.Not(self.query[1])); return sv.to_smt2()
    def __repr__(self): return f"{self.status}[{self.backend},{self.secs:.2f}s,lem={self.lemmas}]"

UNIT_DEADLINE = [None]
DEADLINE = [None]        # wall-clock cap per obligation (set by the outer prove): 6 x the per-query budget; past it every further query answers `unknown`
def _left_ms(timeout_ms):
    if DEADLINE[0] is None: return timeout_ms
    return int(max(0, min(timeout_ms, (DEADLINE[0] - time.time()) * 1000)))
import threading
def guarded_check(s, timeout_ms):
    """s.check() with a watchdog: z3's own `timeout` is not honoured inside some preprocessing steps (seen: > 15 min on a 30 s budget),
    so a timer interrupts the context 3 s past the budget; an interrupted query answers `unknown`, never anything else"""
    ctx = s.ctx      # the timer thread must hold the (global, never freed) context only: a reference to the solver would be released from that thread, and z3 is not thread-safe
    t = threading.Timer(timeout_ms / 1000.0 + 3.0, ctx.interrupt); t.daemon = True; t.start()
    try: return s.check()
    except z3.Z3Exception: return z3.unknown
    finally: t.cancel()
def _check(assumptions, goal, timeout_ms):
    timeout_ms = _left_ms(timeout_ms)
    if timeout_ms <= 0: return z3.unknown, None
    s = z3.Solver(); s.set("timeout", timeout_ms)
    s.add(*assumptions); s.add(z3.Not(goal))
    r = guarded_check(s, timeout_ms)
    if r == z3.unknown and _nonlinear(list(assumptions) + [goal]):
        # second attempt with products of variables treated as opaque terms (no nonlinear arithmetic reasoning): only `unsat` is taken from it -
        # it is a weaker theory, so unsat there is unsat in the integers; the facts about products then come from the instantiated (Lean-proved) lemmas alone
        if _left_ms(timeout_ms) <= 0: return r, None
        s2 = z3.Solver(); s2.set("timeout", _left_ms(timeout_ms)); s2.set("arith.nl", False)
        s2.add(*assumptions); s2.add(z3.Not(goal))
        if guarded_check(s2, _left_ms(timeout_ms)) == z3.unsat: return z3.unsat, None
    return r, (s.model() if r == z3.sat else None)
def _nonlinear(terms):
    seen = set()
    def rec(t):
        if t.get_id() in seen: return False
        seen.add(t.get_id())
        if z3.is_quantifier(t): return rec(t.body())
        if z3.is_app(t) and t.decl().kind() == z3.Z3_OP_MUL and sum(1 for c in t.children() if not (z3.is_int_value(c) or z3.is_rational_value(c))) >= 2: return True
        return any(rec(c) for c in t.children())
    return any(rec(t) for t in terms)

def _qf(pc): return [p for p in pc if not _has_quant(p)]
def _has_quant(t):
    if z3.is_quantifier(t): return True
    return any(_has_quant(c) for c in t.children())
def congruence_lemmas(pc, terms, timeout_ms, depth=0, cache=None):
    if depth == 0: pc = _qf(pc); timeout_ms = min(timeout_ms, 3000)
    """pairwise congruence between reduction applications of the same kind occurring in `terms`"""
    if cache is None: cache = {}
    apps = {}
    for t in terms: R.collect(t, apps)
    apps = list(apps.values()); lemmas = []
    if depth > 4: return lemmas
    for i in range(len(apps)):
        for j in range(i + 1, len(apps)):
            if DEADLINE[0] is not None and time.time() > DEADLINE[0]: return lemmas
            a1, a2 = apps[i], apps[j]
            e1, e2 = R.entry_of(a1), R.entry_of(a2)
            if e1.kind != e2.kind or a1.sort() != a2.sort(): continue
            key = (a1.sexpr(), a2.sexpr())
            if key in cache:
                if cache[key]: lemmas.append(a1 == a2)
                continue
            x = R.fresh_int("x")
            k1, n1, b1 = R.instantiate(a1, x); k2, n2, b2 = R.instantiate(a2, x)
            ok = False
            if b1.sort() == b2.sort():
                inapps = {}
                for t_ in (b1, b2, n1, n2): R.collect(t_, inapps)
                infacts = R.qf_facts(list(inapps.values())) if inapps else []
                inner = infacts + congruence_lemmas(pc + [x >= 0, x < n1] + infacts, [b1, b2, n1, n2] + infacts, timeout_ms, depth + 1, cache)
                r1, _ = _check(pc + inner, n1 == n2, timeout_ms)
                if r1 == z3.unsat:
                    r2, _ = _check(pc + inner + [x >= 0, x < n1], b1 == b2, timeout_ms)
                    ok = r2 == z3.unsat
            cache[key] = ok
            if ok: lemmas.append(a1 == a2)
    return lemmas

def _ground_int_args(terms, fnames):
    """ground Int terms occurring as arguments of the given function symbols (E-matching style instantiation candidates)"""
    out = {}; seen = set()
    def rec(t, bound):
        if t.get_id() in seen: return
        seen.add(t.get_id())
        if z3.is_quantifier(t): return
        if z3.is_app(t):
            if t.decl().name() in fnames:
                for a in t.children():
                    if z3.is_int(a) and not _has_var(a): out[a.sexpr()] = a
            for ch in t.children(): rec(ch, bound)
    for t in terms: rec(t, False)
    return list(out.values())
def _has_var(t):
    if z3.is_var(t): return True
    return any(_has_var(c) for c in t.children())
def _fnames(t, acc):
    if z3.is_app(t):
        if t.decl().kind() == z3.Z3_OP_UNINTERPRETED and t.num_args() > 0: acc.add(t.decl().name())
        for ch in t.children(): _fnames(ch, acc)
    elif z3.is_quantifier(t): _fnames(t.body(), acc)
def instantiate_hyps(pc, goal):
    """instances of the single-variable universally quantified hypotheses (loop invariants such as 'no earlier stop') at the
    ground integer terms the goal applies the same function symbols to, and at its Skolem constants.  Instances are implied
    by the hypotheses, so adding them is sound; the quantified hypotheses themselves stay in the path condition."""
    inst = []
    qs = [p for p in pc if z3.is_quantifier(p) and p.is_forall() and p.num_vars() == 1 and p.var_sort(0) == z3.IntSort()]
    if not qs: return inst
    sk = {}
    def consts(t):
        if z3.is_const(t) and t.decl().kind() == z3.Z3_OP_UNINTERPRETED and z3.is_int(t) and "!" in t.decl().name(): sk[t.sexpr()] = t
        for ch in t.children(): consts(ch)
    consts(goal)
    for qf in qs:
        fn = set(); _fnames(qf.body(), fn)
        cands = {t.sexpr(): t for t in _ground_int_args([goal] + [p for p in pc if not z3.is_quantifier(p)], fn)}
        cands.update(sk)
        for t in list(cands.values())[:24]:
            inst.append(z3.substitute_vars(qf.body(), t))
    return inst

def prove(pc, goal, timeout_ms=10000, axioms=True):
    """pc: list of z3 Bool; goal: z3 Bool. Returns Verdict.
    Proof attempt uses congruence lemmas + (quantified) defining axioms of reductions.
    If that is not `unsat`, the quantifier-free core (lemmas only) is asked for a model: a candidate
    counter-model (to be replayed); `unknown` only if that is unknown too."""
    t0 = time.time()
    goal = toz3(goal); pc = [toz3(p) for p in pc]
    if z3.is_true(z3.simplify(goal)): return Verdict("proved", "trivial", time.time() - t0)
    pc = pc + instantiate_hyps(pc, goal)
    r0, _ = _check(pc, goal, min(timeout_ms, 3000))                 # fast path: no lemmas needed
    if r0 == z3.unsat: return Verdict("proved", "z3", time.time() - t0, query=(pc, goal))
    apps0 = R.collect_deep(pc + [goal])
    facts = R.qf_facts(list(apps0.values()))
    pc = pc + facts
    lem = congruence_lemmas(pc, pc + [goal], timeout_ms)
    r, m = _check(pc + lem, goal, timeout_ms)
    if r == z3.unsat: return Verdict("proved", "z3", time.time() - t0, lemmas=len(lem), query=(pc + lem, goal))
    ax = []
    if axioms:
        apps = {}
        for t in pc + [goal]: R.collect(t, apps)
        for a in apps.values(): ax += R.defining_axioms(a)
        if ax:
            lem2 = lem
            r2, _ = _check(pc + lem2 + ax, goal, timeout_ms)
            if r2 == z3.unsat: return Verdict("proved", "z3", time.time() - t0, lemmas=len(lem2), detail="with reduction axioms", query=(pc + lem2 + ax, goal))
    if r != z3.unsat:
        # before a model of the abstraction (reduction nodes are uninterpreted) is reported as a refutation: instantiate the nodes' bound
        # facts at the query's Skolem constants / ground index terms, two levels deep (nested max/min/all/any)
        cands = {}
        def sk(t):
            if z3.is_const(t) and t.decl().kind() == z3.Z3_OP_UNINTERPRETED and z3.is_int(t) and "!" in t.decl().name(): cands[t.sexpr()] = t
            for ch in t.children(): sk(ch)
        for t_ in pc + [goal]:
            if not z3.is_quantifier(t_): sk(t_)
        for a_ in list(R.collect_deep(pc + [goal]).values()):
            if R.entry_of(a_).kind == "argmax": cands[a_.sexpr()] = a_
        if cands and len(cands) <= 12:
            inst = R.instance_axioms(pc + [goal], list(cands.values()))
            if inst:
                lem3 = lem + congruence_lemmas(pc + inst, pc + inst + [goal], timeout_ms) if len(inst) < 120 else lem
                r3, m3 = _check(pc + lem3 + inst, goal, timeout_ms)
                if r3 == z3.unsat: return Verdict("proved", "z3", time.time() - t0, lemmas=len(lem3), detail="with instantiated reduction bounds", query=(pc + lem3 + inst, goal))
                if r3 == z3.sat: r, m = r3, m3
    if DEADLINE[0] is not None and time.time() > DEADLINE[0]:
        return Verdict("unknown", "z3", time.time() - t0, lemmas=len(lem), detail="wall-clock cap of this obligation reached before all instantiation stages ran: a model of the abstraction is not reported as a refutation")
    if r == z3.sat: return Verdict("refuted", "z3", time.time() - t0, model=m, lemmas=len(lem), detail="model of the quantifier-free core")
    return Verdict("unknown", "z3", time.time() - t0, lemmas=len(lem))

def _ite_conditions(t, acc, limit=8):
    if len(acc) >= limit: return
    if z3.is_app(t):
        if t.decl().kind() == z3.Z3_OP_ITE:
            c = t.arg(0)
            if not any(z3.eq(c, x) for x in acc): acc.append(c)
        for ch in t.children(): _ite_conditions(ch, acc, limit)

_inner_prove = prove
def _strip(pc, goal):
    """pc |- (A -> B)  iff  pc, A |- B ;   pc |- (G1 and (A -> B)) is split by the caller only for the single-implication form"""
    goal = toz3(goal); pc = list(pc)
    while z3.is_implies(goal):
        pc.append(goal.arg(0)); goal = goal.arg(1)
    return pc, goal
def prove(pc, goal, timeout_ms=10000, axioms=True):
    """prove with one level of case splitting on ite-conditions of the goal (congruence lemmas may hold only per case)"""
    top = DEADLINE[0] is None
    if top:
        DEADLINE[0] = time.time() + 6 * timeout_ms / 1000.0      # 6 x the per-query budget: the slowest obligation of the unchanged tree needs 1.8 x (C17 accepted_only_within_tolerance, 36 s on a 20 s budget), so a machine three times slower still decides it
        if UNIT_DEADLINE[0] is not None:
            # the unit's wall-clock budget (set by the worker): past it every remaining obligation of the unit is left undecided at once,
            # so that the verdicts obtained so far (incl. refutations with their counter-models) are reported instead of a worker timeout
            if time.time() >= UNIT_DEADLINE[0]:
                DEADLINE[0] = None
                g = toz3(goal)
                if z3.is_true(z3.simplify(g)): return Verdict("proved", "trivial", 0.0)
                return Verdict("unknown", "z3", 0.0, detail="unit wall-clock budget exhausted before this obligation was tried")
            DEADLINE[0] = min(DEADLINE[0], UNIT_DEADLINE[0])
    try: return _prove_outer(pc, goal, timeout_ms, axioms)
    finally:
        if top: DEADLINE[0] = None
def _prove_outer(pc, goal, timeout_ms=10000, axioms=True):
    pc, goal = _strip([toz3(p) for p in pc], goal)
    if z3.is_and(goal) and any(z3.is_implies(ch) for ch in goal.children()):
        # conjunction with guarded conjuncts (several bounded quantifiers in one clause): prove each conjunct under its own guard
        t0 = time.time(); worst = None; lem = 0
        for ch in goal.children():
            save = DEADLINE[0]; DEADLINE[0] = None                    # every conjunct is an obligation of its own: own wall-clock cap
            try: v = prove(pc, ch, timeout_ms, axioms)
            finally: DEADLINE[0] = save
            lem += v.lemmas
            if v.status != "proved": return Verdict(v.status, v.backend, time.time() - t0, model=v.model, lemmas=lem, detail=v.detail + f" [conjunct {str(ch)[:60]}]")
            worst = v if worst is None or v.backend != "trivial" else worst
        return Verdict("proved", worst.backend if worst else "trivial", time.time() - t0, lemmas=lem, detail="conjuncts proved separately")
    v = _inner_prove(pc, goal, timeout_ms, axioms)
    if v.status == "proved": return v
    conds = []; _ite_conditions(z3.simplify(toz3(goal)), conds)
    t0 = time.time()
    for c in conds:
        v1 = _inner_prove(list(pc) + [c], goal, timeout_ms, axioms)
        if v1.status != "proved": continue
        v2 = _inner_prove(list(pc) + [z3.Not(c)], goal, timeout_ms, axioms)
        if v2.status == "proved":
            return Verdict("proved", "z3", v.secs + time.time() - t0, lemmas=v1.lemmas + v2.lemmas, detail=f"case split on {str(c)[:40]}")
    return v

def satisfiable(pc, timeout_ms=5000):
    s = z3.Solver(); s.set("timeout", timeout_ms); s.add(*[toz3(p) for p in pc]); return guarded_check(s, timeout_ms)
