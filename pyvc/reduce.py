"""Reduction nodes over symbolic extents: hash-consed uninterpreted applications with binders."""
import z3
from .values import toz3, is_z3, coerce_pair

class Entry:
    __slots__ = ("f", "kind", "n", "var", "fv", "body")
    def __init__(self, f, kind, n, var, fv, body): self.f, self.kind, self.n, self.var, self.fv, self.body = f, kind, n, var, fv, body

TABLE = {}      # key -> Entry
BYNAME = {}     # decl name -> Entry
_depth = [0]
KINDS = ("sum", "max", "min", "argmax", "count", "any", "all")

def _free_binders(t, own, acc):
    if z3.is_const(t) and t.decl().kind() == z3.Z3_OP_UNINTERPRETED:
        nm = t.decl().name()
        if nm.startswith("%") and nm != own: acc[nm] = t
    for c in t.children(): _free_binders(c, own, acc)

def binder(prefix="b"):
    return z3.Int(f"%{prefix}{_depth[0]}")

def _mentions(t, var):
    if z3.is_const(t): return z3.eq(t, var)
    return any(_mentions(c, var) for c in t.children())

def mk(kind, n, body):
    """Reduce(kind, n, λi. body(i)); returns a z3 term. Sums are normalised by linearity:
    Σ(f+g)=Σf+Σg and Σ c·f = c·Σf for c independent of the bound variable (sound for finite sums)."""
    assert kind in KINDS
    var = z3.Int(f"%b{_depth[0]}")
    _depth[0] += 1
    try: b = body(var)
    finally: _depth[0] -= 1
    b = toz3(b)
    if kind in ("count", "any", "all") and not z3.is_bool(b): b = b != 0
    if kind == "sum" and (z3.is_real(b) or z3.is_int(b)):
        bs = z3.simplify(b, som=True)
        terms = list(bs.children()) if z3.is_add(bs) else [bs]
        if len(terms) > 1 or (z3.is_mul(bs) and any(not _mentions(f, var) for f in bs.children())):
            total = None
            for t in terms:
                factors = list(t.children()) if z3.is_mul(t) else [t]
                dep = [f for f in factors if _mentions(f, var)]; ind = [f for f in factors if not _mentions(f, var)]
                if dep:
                    d = dep[0]
                    for f in dep[1:]: d = d * f
                    kd = _kronecker(d, var, n)
                    node = kd if kd is not None else _mk_raw("sum", n, var, d)
                else:
                    node = z3.ToReal(toz3(n)) if z3.is_real(t) else toz3(n)
                for f in ind:
                    node, f = _co(node, f); node = f * node
                total = node if total is None else _add(total, node)
            return total
    if kind == "sum":
        kd = _kronecker(b, var, n)
        if kd is not None: return kd
    return _mk_raw(kind, n, var, b)
def _kronecker(d, var, n):
    """Σ_{var<n} ite(var == t, v, 0) = ite(0 <= t < n, v, 0) when t and v do not mention var"""
    d = z3.simplify(d)
    if z3.is_app(d) and d.decl().kind() == z3.Z3_OP_ITE:
        c, x, y = d.children()
        if z3.is_eq(c) and (z3.is_int_value(y) or z3.is_rational_value(y)) and str(y) in ("0", "0.0"):
            l, r = c.children()
            t = r if z3.eq(l, var) else (l if z3.eq(r, var) else None)
            if t is not None and not _mentions(t, var) and not _mentions(x, var):
                return z3.If(z3.And(t >= 0, t < toz3(n)), x, y)
    return None
def _co(a, b):
    from .values import coerce_pair
    return coerce_pair(a, b)
def _add(a, b):
    a, b = _co(a, b); return a + b

def _mk_raw(kind, n, var, b):
    b = z3.simplify(b); nz = z3.simplify(toz3(n))
    if z3.is_int_value(nz) and nz.as_long() <= 0:           # empty range
        if kind == "sum": return z3.RealVal(0) if z3.is_real(b) else z3.IntVal(0)
        if kind == "count": return z3.IntVal(0)
        if kind == "any": return z3.BoolVal(False)
        if kind == "all": return z3.BoolVal(True)
    free = {}; _free_binders(b, str(var), free); _free_binders(nz, str(var), free)
    fv = [free[k] for k in sorted(free)]
    key = (kind, nz.sexpr(), b.sexpr(), str(var))
    e = TABLE.get(key)
    if e is None:
        sort = {"argmax": z3.IntSort(), "count": z3.IntSort(), "any": z3.BoolSort(), "all": z3.BoolSort()}.get(kind, b.sort())
        f = z3.Function(f"{kind}#{len(TABLE)}", *[v.sort() for v in fv], sort)
        e = Entry(f, kind, nz, var, fv, b); TABLE[key] = e; BYNAME[f.name()] = e
    return e.f(*fv) if fv else e.f()

def entry_of(app):
    return BYNAME.get(app.decl().name()) if z3.is_app(app) else None

def collect(t, acc=None, seen=None):
    """all reduction applications in term t (dict sexpr->app)"""
    if acc is None: acc = {}
    if seen is None: seen = set()
    if t.get_id() in seen: return acc
    seen.add(t.get_id())
    if z3.is_app(t):
        if t.decl().name() in BYNAME: acc[t.sexpr()] = t
        for c in t.children(): collect(c, acc, seen)
    elif z3.is_quantifier(t):
        collect(t.body(), acc, seen)
    return acc

_fresh = [0]
def fresh_int(prefix="x"):
    _fresh[0] += 1; return z3.Int(f"{prefix}!{_fresh[0]}")

def instantiate(app, x):
    """(kind, extent, body at index x) for a reduction application with its actual arguments"""
    e = entry_of(app)
    subs = list(zip(e.fv, app.children()))
    n = z3.substitute(e.n, *subs) if subs else e.n
    body = z3.substitute(e.body, (e.var, x), *subs)
    return e.kind, n, body

def defining_axioms(app):
    """sound facts about one reduction application (instantiated, quantifier-free where possible)"""
    kind, n, _ = instantiate(app, z3.IntVal(0))
    ax = []
    if kind in ("max", "min"):
        w = fresh_int("w")
        _, _, bw = instantiate(app, w)
        ax.append(z3.Implies(n > 0, z3.And(w >= 0, w < n, app == bw)))
        i = fresh_int("i")                       # bounded universal fact
        _, _, bi = instantiate(app, i)
        ax.append(z3.ForAll([i], z3.Implies(z3.And(i >= 0, i < n), (app >= bi) if kind == "max" else (app <= bi))))
    elif kind == "argmax":
        _, _, bj = instantiate(app, app)
        i = fresh_int("i"); _, _, bi = instantiate(app, i)
        ax.append(z3.Implies(n > 0, z3.And(app >= 0, app < n)))
        ax.append(z3.ForAll([i], z3.Implies(z3.And(i >= 0, i < n), bj >= bi)))
        # first maximiser (jnp.argmax tie-break)
        ax.append(z3.ForAll([i], z3.Implies(z3.And(i >= 0, i < app), bj > bi)))
    elif kind == "count":
        ax.append(z3.And(app >= 0, app <= z3.If(n >= 0, n, 0)))
        i = fresh_int("i"); _, _, bi = instantiate(app, i)
        ax.append((app == 0) == z3.ForAll([i], z3.Implies(z3.And(i >= 0, i < n), z3.Not(bi))))
    elif kind == "any":
        i = fresh_int("i"); _, _, bi = instantiate(app, i)
        ax.append(app == z3.Exists([i], z3.And(i >= 0, i < n, bi)))
    elif kind == "all":
        i = fresh_int("i"); _, _, bi = instantiate(app, i)
        ax.append(app == z3.ForAll([i], z3.Implies(z3.And(i >= 0, i < n), bi)))
    return ax


def signature(app):
    """(extent, body-with-actual-args) signature used to match max/argmax/min over the same function"""
    x = z3.Int("%sig")
    kind, n, body = instantiate(app, x)
    return (n.sexpr(), body.sexpr())

def qf_facts(apps, depth=1):
    """quantifier-free facts: argmax range, argmax attains the max over the same body, witnesses of max/min
    (and, one level deeper, of the closed max/min nodes that appear in a witness instance: nested maxima over several axes)"""
    facts = _qf_facts(apps)
    if depth > 0:
        inner = {}
        for f in facts: collect(f, inner)
        known = {a.sexpr() for a in apps}
        new = [b for k, b in inner.items() if k not in known and not _has_binder(b) and entry_of(b).kind in ("max", "min", "argmax")]
        if new: facts += qf_facts(new, depth - 1)
    return facts
def _qf_facts(apps):
    facts = []
    bysig = {}
    for a in apps: bysig.setdefault(signature(a), []).append(a)
    for a in apps:
        e = entry_of(a)
        kind, n, _ = instantiate(a, z3.IntVal(0))
        if kind == "argmax":
            facts.append(z3.Implies(n > 0, z3.And(a >= 0, a < n)))
            _, _, ba = instantiate(a, a)
            for m in bysig.get(signature(a), []):
                if entry_of(m).kind == "max": facts.append(z3.Implies(n > 0, ba == m))
        elif kind in ("max", "min"):
            w = fresh_int("w"); _, _, bw = instantiate(a, w)
            facts.append(z3.Implies(n > 0, z3.And(w >= 0, w < n, a == bw)))
        elif kind in ("any", "count"):
            # duality with the universally quantified node over the negated body (same binder, same free variables):
            #   any(n, b) == not all(n, not b)        count(n, b) == 0  <=>  all(n, not b);   0 <= count <= max(n, 0)
            dual = _mk_raw("all", e.n, e.var, z3.Not(e.body))
            subs = list(zip(e.fv, a.children()))
            dual = z3.substitute(dual, *subs) if subs else dual
            if kind == "any": facts.append(a == z3.Not(dual))
            else:
                facts.append((a == 0) == dual); facts.append(a >= 0); facts.append(a <= z3.If(n >= 0, n, 0))
    return facts


def _has_binder(t):
    if z3.is_const(t) and t.decl().kind() == z3.Z3_OP_UNINTERPRETED and t.decl().name().startswith("%"): return True
    if z3.is_var(t): return True
    return any(_has_binder(c) for c in t.children())

def collect_deep(terms):
    """reduction apps in the terms, plus closed reduction apps hidden inside their bodies"""
    acc = {}
    for t in terms: collect(t, acc)
    work = list(acc.values()); seen = set(acc)
    while work:
        a = work.pop()
        x = z3.Int("%inner")
        _, n, body = instantiate(a, x)
        inner = {}
        collect(body, inner); collect(n, inner)
        for k, b in inner.items():
            if k not in seen and not _has_binder(b):
                seen.add(k); acc[k] = b; work.append(b)
    return acc


def instance_axioms(terms, cands, depth=2, limit=400):
    """bound facts of max / min / argmax / all / any nodes instantiated at candidate index terms (Skolem constants and ground index
    arguments of the query), recursively for the closed reduction nodes that appear in the instantiated bodies.
    Every fact is an instance of the node's defining property, hence sound."""
    facts = []; seen = set(); work = []
    acc = {}
    for t in terms: collect(t, acc)
    work = [(a, depth) for a in acc.values()]
    while work and len(facts) < limit:
        a, d = work.pop()
        key = a.sexpr()
        if key in seen: continue
        seen.add(key)
        e = entry_of(a)
        if e is None or e.kind not in ("max", "min", "argmax", "all", "any"): continue
        for t in cands:
            kind, n, bt = instantiate(a, t)
            rng = z3.And(t >= 0, t < n)
            if kind == "max": facts.append(z3.Implies(rng, a >= bt))
            elif kind == "min": facts.append(z3.Implies(rng, a <= bt))
            elif kind == "all": facts.append(z3.Implies(z3.And(rng, a), bt))
            elif kind == "any": facts.append(z3.Implies(z3.And(rng, bt), a))
            elif kind == "argmax":
                _, _, ba = instantiate(a, a); facts.append(z3.Implies(rng, ba >= bt))
            if d > 0:
                inner = {}; collect(bt, inner)
                for b in inner.values():
                    if not _has_binder(b): work.append((b, d - 1))
    return facts
