"""Construction-constant derivation.

A contract's scenario pre-state is hand-built.  When the code under verification reads an attribute `self.a` that the scenario does not
provide but the class assigns, the unit used to end in `Unsupported` (bounded fallback).  For one well-delimited case the value can be
taken from the real source instead, without weakening anything:

  * `self.a` has exactly ONE store site in the whole class hierarchy, a plain unconditional top-level assignment `self.a = <expr>` in a
    method M that runs only during construction (M is `__init__` or every textual reference to M's name in the package lies inside such
    a method), and `a` is never mutated in place (`self.a[...] = `, augmented assignment, `del`, mutator calls);
  * `<expr>` names no local of M (only `self`, globals, library functions, names it binds itself);
  * every attribute of the same object READ while `<expr>` is evaluated (logged by the interpreter, so helper methods and properties are
    included) is itself a construction constant: all its store sites are plain assignments in construction-only methods, none mutates it,
    and they all precede the assignment of `a` (all in M with smaller line numbers, or all in one other method that neither calls M nor
    is called by it - otherwise `a` may have been computed from a value that was replaced later in the constructor).

Then at every later moment `self.a` equals `<expr>` evaluated over the (unchanged) constants, which is what the interpreter computes in
the scenario pre-state.  Anything else (a counter, a cache, a value that `_restore_state_from_checkpoint` overwrites, a second store
site) stays `Unsupported`, i.e. undecided -> bounded fallback.  The rule is applied to the real source on every run.
"""
import ast, os
from .values import Obj, ClassRef, Unsupported

MUTATORS = {"append", "extend", "insert", "pop", "remove", "clear", "update", "setdefault", "sort", "reverse", "add", "discard", "popitem", "fill", "resize", "put", "itemset"}

def _is_self_attr(n):
    return isinstance(n, ast.Attribute) and isinstance(n.value, ast.Name) and n.value.id == "self"

class _Info:
    def __init__(self, I, cls):
        self.I = I; self.cls = cls
        self.sites = {}        # attr -> [(klass, mname, mnode, stmt|None, kind, lineno)]   kind: assign-top | assign-nested | mutate
        self.poison = None
        self.selfcalls = {}    # mname -> set of method names called as self.m(...) / super().m(...)
        for k in I.mro(cls):
            for mname, mnode in k.methods.items():
                calls = self.selfcalls.setdefault(mname, set())
                top = {id(s): s for s in mnode.body}
                for st in ast.walk(mnode):
                    if isinstance(st, (ast.Assign, ast.AnnAssign)):
                        tgts = st.targets if isinstance(st, ast.Assign) else [st.target]
                        flat = []
                        for t in tgts: flat += list(t.elts) if isinstance(t, (ast.Tuple, ast.List)) else [t]
                        for t in flat:
                            if _is_self_attr(t):
                                plain = id(st) in top and len(flat) == 1 and getattr(st, "value", None) is not None
                                self._add(t.attr, k, mname, mnode, st, "assign-top" if plain else "assign-nested", st.lineno)
                            elif isinstance(t, ast.Subscript) and _is_self_attr(t.value): self._add(t.value.attr, k, mname, mnode, None, "mutate", st.lineno)
                            elif isinstance(t, ast.Attribute) and _is_self_attr(t.value): self._add(t.value.attr, k, mname, mnode, None, "mutate", st.lineno)
                    elif isinstance(st, ast.AugAssign):
                        t = st.target
                        if _is_self_attr(t): self._add(t.attr, k, mname, mnode, None, "mutate", st.lineno)
                        elif isinstance(t, ast.Subscript) and _is_self_attr(t.value): self._add(t.value.attr, k, mname, mnode, None, "mutate", st.lineno)
                    elif isinstance(st, ast.Delete):
                        for t in st.targets:
                            if _is_self_attr(t): self._add(t.attr, k, mname, mnode, None, "mutate", st.lineno)
                            elif isinstance(t, ast.Subscript) and _is_self_attr(t.value): self._add(t.value.attr, k, mname, mnode, None, "mutate", st.lineno)
                    elif isinstance(st, (ast.For, ast.With, ast.NamedExpr)):
                        for t in ast.walk(getattr(st, "target", None) or ast.Pass()):
                            if _is_self_attr(t) and isinstance(t.ctx, ast.Store): self._add(t.attr, k, mname, mnode, None, "mutate", st.lineno)
                    elif isinstance(st, ast.Call):
                        f = st.func
                        if isinstance(f, ast.Name) and f.id in ("setattr", "delattr", "vars") : self.poison = f"{k.name}.{mname} uses {f.id}()"
                        if isinstance(f, ast.Attribute):
                            if f.attr in ("__dict__", "__setattr__"): self.poison = f"{k.name}.{mname} uses {f.attr}"
                            if f.attr in MUTATORS and _is_self_attr(f.value): self._add(f.value.attr, k, mname, mnode, None, "mutate", st.lineno)
                            if isinstance(f.value, ast.Name) and f.value.id == "self": calls.add(f.attr)
                            if isinstance(f.value, ast.Call) and isinstance(f.value.func, ast.Name) and f.value.func.id == "super": calls.add(f.attr)
                    elif isinstance(st, ast.Attribute) and st.attr == "__dict__": self.poison = f"{k.name}.{mname} touches __dict__"
        self.ctor_only = _ctor_only_names(I)
    def _add(self, attr, k, mname, mnode, stmt, kind, lineno):
        self.sites.setdefault(attr, []).append((k, mname, mnode, stmt, kind, lineno))
    def reaches(self, m1, m2, seen=None):
        """m1 (transitively) calls m2 through self / super calls"""
        seen = seen or set()
        for c in self.selfcalls.get(m1, ()):
            if c == m2: return True
            if c not in seen:
                seen.add(c)
                if self.reaches(c, m2, seen): return True
        return False

_CTOR_CACHE = {}
def _ctor_only_names(I):
    """names of methods that only ever run during construction: least fixed point over textual references in the whole package"""
    from . import interp as PI
    root = PI.SRC_ROOT
    if root in _CTOR_CACHE: return _CTOR_CACHE[root]
    refs = {}    # method name -> set of enclosing function names ('<module>' for module level)
    defined = set()
    for dp, _, fns in os.walk(os.path.join(root, "mdpax")):
        for fn in fns:
            if not fn.endswith(".py"): continue
            try: tree = ast.parse(open(os.path.join(dp, fn)).read())
            except SyntaxError: continue
            def visit(node, encl):
                for ch in ast.iter_child_nodes(node):
                    e = encl
                    if isinstance(ch, (ast.FunctionDef, ast.AsyncFunctionDef, ast.Lambda)):
                        # code inside a lambda or nested function may run long after the enclosing method returned: never construction-only
                        if isinstance(ch, ast.Lambda) or not isinstance(node, (ast.ClassDef, ast.Module)): e = "<closure>"
                        else: defined.add(ch.name); e = ch.name
                    if isinstance(ch, ast.Attribute):
                        # only an immediate call `x.m(...)` keeps m inside the enclosing method; a bare reference (stored, jitted, passed on) escapes
                        called = isinstance(node, ast.Call) and node.func is ch
                        if not (called and ch.attr == encl): refs.setdefault(ch.attr, set()).add(encl if called else "<escapes>")
                    if isinstance(ch, ast.Constant) and isinstance(ch.value, str) and ch.value.isidentifier(): refs.setdefault(ch.value, set()).add("<escapes>")   # getattr(self, "name")
                    visit(ch, e)
            visit(tree, "<module>")
    co = {"__init__"}
    changed = True
    while changed:
        changed = False
        for m in defined:
            if m in co or not m.startswith("_") or m.startswith("__"): continue      # public methods can be called by the user at any time
            r = refs.get(m)
            if r and all(x in co for x in r): co.add(m); changed = True
    _CTOR_CACHE[root] = co
    return co

def _info(I, cls):
    c = I.__dict__.setdefault("_derive_info", {})
    if cls.name not in c: c[cls.name] = _Info(I, cls)
    return c[cls.name]

def _call_lines(info, mnode, target):
    """line numbers of the self/super calls in method body `mnode` that (transitively) run a method named `target`"""
    out = []
    for n in ast.walk(mnode):
        if isinstance(n, ast.Call) and isinstance(n.func, ast.Attribute):
            f = n.func
            own = (isinstance(f.value, ast.Name) and f.value.id == "self") or (isinstance(f.value, ast.Call) and isinstance(f.value.func, ast.Name) and f.value.func.id == "super")
            if own and (f.attr == target or info.reaches(f.attr, target)): out.append(n.lineno)
    return out

def _constant_before(info, x, K, M, mnode_a, line_a):
    """every store site of attribute x is a plain assignment in a construction-only method and precedes the assignment at (K.M, line_a)"""
    ss = info.sites.get(x)
    if not ss: return f"'{x}' has no store site in the class hierarchy"
    for (k, mname, mnode, st, kind, ln) in ss:
        if kind == "mutate": return f"'{x}' is mutated in place in {k.name}.{mname}"
        if mname not in info.ctor_only: return f"'{x}' is assigned in {k.name}.{mname}, which does not run only during construction"
    ms = {(k.name, mname) for (k, mname, *_r) in ss}
    if len(ms) != 1: return f"'{x}' is assigned in several methods ({sorted(ms)})"
    (k2name, m2) = next(iter(ms)); node2 = ss[0][2]
    if (k2name, m2) == (K.name, M):
        if all(ln < line_a for (*_r, ln) in ss): return None
        return f"'{x}' is assigned again after the derived attribute in {K.name}.{M}"
    inner = _call_lines(info, node2, M)          # the method assigning x (transitively) calls the one assigning the derived attribute
    outer = _call_lines(info, mnode_a, m2)       # or the other way round
    if inner and outer: return f"'{x}': {k2name}.{m2} and {K.name}.{M} call each other"
    if inner:
        if all(ln < min(inner) for (*_r, ln) in ss): return None
        return f"'{x}' is assigned in {k2name}.{m2} after the call that computes the derived attribute"
    if outer:
        if max(outer) < line_a: return None
        return f"'{x}' is (re)assigned by a call that follows the derived attribute's assignment in {K.name}.{M}"
    return None        # unrelated construction-only methods: x has a single assigning method, so it held its final value (or the constructor raises AttributeError, which the constructor unit reports)


def _resolve_locals(info, expr, mnode, line_a, depth=0):
    """rewrite `expr` (right-hand side at line `line_a` of method `mnode`) so that it names no local of the method:
    a local assigned exactly once, unconditionally and earlier, is replaced by its own (resolved) definition; a parameter that is never
    re-assigned and is stored verbatim by `self.x = <parameter>` (x's only store site) is replaced by `self.x`.
    Returns (new expression, attributes introduced for parameters, reason-or-None)."""
    import copy
    if depth > 8: return expr, set(), "local definitions nested too deeply", line_a
    params = {x.arg for x in mnode.args.args + mnode.args.kwonlyargs + mnode.args.posonlyargs}
    if mnode.args.vararg: params.add(mnode.args.vararg.arg)
    if mnode.args.kwarg: params.add(mnode.args.kwarg.arg)
    stores = {}
    for n in ast.walk(mnode):
        if isinstance(n, ast.Name) and isinstance(n.ctx, (ast.Store, ast.Del)): stores.setdefault(n.id, []).append(n)
    top_defs = {}
    for stt in mnode.body:
        if isinstance(stt, ast.Assign) and len(stt.targets) == 1 and isinstance(stt.targets[0], ast.Name): top_defs.setdefault(stt.targets[0].id, []).append(stt)
        elif isinstance(stt, ast.AnnAssign) and isinstance(stt.target, ast.Name) and stt.value is not None: top_defs.setdefault(stt.target.id, []).append(stt)
    bound_inside = {n.id for n in ast.walk(expr) if isinstance(n, ast.Name) and isinstance(n.ctx, ast.Store)}
    for lam in ast.walk(expr):
        if isinstance(lam, ast.Lambda): bound_inside |= {x.arg for x in lam.args.args}
    param_attr = {}
    for x, ss in info.sites.items():
        if len(ss) == 1 and ss[0][4] == "assign-top" and ss[0][2] is mnode and isinstance(ss[0][3].value, ast.Name) and ss[0][3].value.id in params and ss[0][3].value.id not in stores:
            param_attr.setdefault(ss[0][3].value.id, x)
    used = set(); fail = []; minline = [line_a]
    class T(ast.NodeTransformer):
        def visit_Name(self, n):
            if not isinstance(n.ctx, ast.Load) or n.id == "self" or n.id in bound_inside: return n
            if n.id in params and n.id not in stores:
                if n.id in param_attr:
                    used.add(param_attr[n.id]); return ast.copy_location(ast.Attribute(value=ast.Name(id="self", ctx=ast.Load()), attr=param_attr[n.id], ctx=ast.Load()), n)
                fail.append(f"its defining expression reads the parameter '{n.id}' of {mnode.name}, which is not kept as an attribute"); return n
            if n.id in stores or n.id in params:
                ds = top_defs.get(n.id, [])
                if len(stores.get(n.id, [])) == 1 and len(ds) == 1 and ds[0].lineno < line_a and n.id not in params:
                    sub, u2, w2, ml2 = _resolve_locals(info, ds[0].value, mnode, ds[0].lineno, depth + 1)
                    if w2: fail.append(w2); return n
                    used.update(u2); minline[0] = min(minline[0], ml2); return copy.deepcopy(sub)
                fail.append(f"its defining expression reads the local '{n.id}' of {mnode.name}, which is not a single unconditional earlier assignment"); return n
            return n      # a global / builtin / library name
    new = T().visit(copy.deepcopy(expr)); ast.fix_missing_locations(new)
    return new, used, (fail[0] if fail else None), minline[0]

def derive_attr(I, o, a):
    """value of the missing attribute `a` of scenario object `o`, or raise Unsupported with the reason it is not a construction constant"""
    def no(why): raise Unsupported(f"scenario pre-state of {o.label} lacks attribute '{a}', which the class assigns ({why}): the contract must be extended")
    if os.environ.get("PYVC_NO_DERIVE"): no("derivation switched off for this run")
    d = o.__dict__.setdefault("derived", {})
    if a in d: return d[a]
    info = _info(I, o.cls)
    if info.poison: no(info.poison)
    ss = info.sites.get(a, [])
    if len(ss) != 1: no(f"{len(ss)} store sites")
    k, M, mnode, st, kind, line_a = ss[0]
    if kind != "assign-top": no("its only store site is conditional, nested or part of a tuple assignment")
    if M not in info.ctor_only: no(f"assigned in {k.name}.{M}, which does not run only during construction")
    # line_use: the earliest line at which a part of the (inlined) definition was evaluated - every attribute it reads must be final by then
    expr, param_attrs, why, line_use = _resolve_locals(info, st.value, mnode, line_a)
    if why: no(why)
    stack = I.__dict__.setdefault("_derive_stack", [])
    if (o.oid, a) in [(s[0], s[1]) for s in stack]: no("cyclic definition")
    reads = set(); stack.append((o.oid, a, reads))
    try:
        val = I.ev(expr, {"self": o}, k.module)
    finally:
        stack.pop()
    for x in sorted(reads):
        if x == a or x in param_attrs: continue       # self.x = <parameter>: the parameter's value, whatever the position of that assignment
        why = _constant_before(info, x, k, M, mnode, line_use)
        if why: no(f"defined as `{ast.unparse(expr)[:80]}`, but {why}")
    for s in stack: s[2].update(reads)          # an enclosing derivation depends on what this one read
    d[a] = val
    I.__dict__.setdefault("derived_used", set()).add(f"{o.cls.name}.{a}")
    I.events.append(f"derived-attribute: {o.cls.name}.{a} := {ast.unparse(expr)[:120]}  (unique construction-time assignment in {k.name}.{M}; reads {sorted(reads)})")
    return val

def log_read(I, o, a):
    for (oid, _a, reads) in I.__dict__.get("_derive_stack", ()):
        if oid == o.oid: reads.add(a)
