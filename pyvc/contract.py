"""Contracts, obligations and the per-function verification driver."""
import z3, time, ast
from .values import *
from . import smt
from .models import arrays as A

class PreFailed(Exception):
    def __init__(self, target): self.target = target

class Ctx(dict):
    """argument/ghost bindings available to contract clauses"""
    __getattr__ = dict.__getitem__

class Q:
    """quantifier helper: goal mode Skolemises, assume mode builds z3 quantifiers"""
    def __init__(self, mode): self.mode = mode; self.hyps = []; self._n = 0
    def forall(self, lo, hi, body, name="i"):
        if self.mode == "goal":
            # the range guard stays INSIDE the goal (an implication): a Q object may be shared by several goals (loop / scan invariants),
            # and an empty range of one goal must not become a contradictory assumption of the others.  smt.prove moves the
            # antecedent of an implication goal into the assumptions of that goal only.
            Q._c = getattr(Q, "_c", 0) + 1
            i = z3.Int(f"{name}!sk{Q._c}")
            return z3.Implies(z3.And(i >= toz3(lo), i < toz3(hi)), toz3(body(i)))
        Q._c = getattr(Q, "_c", 0) + 1
        i = z3.Int(f"%q{Q._c}"); self._n += 1
        return z3.ForAll([i], z3.Implies(z3.And(i >= toz3(lo), i < toz3(hi)), toz3(body(i))))
    def arr_eq(self, a, b):
        """pointwise equality of two lazy arrays (shapes must match)"""
        conj = [toz3(x) == toz3(y) for x, y in zip(a.shape, b.shape)] if a.ndim == b.ndim else [z3.BoolVal(False)]
        idx = []; rng = []
        for ax, n in enumerate(a.shape):
            if self.mode == "goal":
                Q._c = getattr(Q, "_c", 0) + 1
                i = z3.Int(f"ix!sk{Q._c}"); rng.append(z3.And(i >= 0, i < toz3(n)))
            else: raise NotImplementedError
            idx.append(i)
        x, y = coerce_pair(a.get(tuple(idx)), b.get(tuple(idx)))
        return z3.And(*conj, z3.Implies(z3.And(*rng), x == y))

class Contract:
    def __init__(self, target, requires=None, ensures=None, returns=None, modifies=None, raises=None, setup=None, effects=None, scenarios=None):
        self.target = target; self.requires = requires; self.ensures = ensures or {}; self.returns = returns
        self.modifies = modifies; self.raises = raises or []; self.setup = setup; self.effects = effects; self.scenarios = scenarios or [("", setup)]
    def apply(self, interp, f, bound):
        """call-site use of the contract"""
        ctx = Ctx(bound)
        if self.requires is not None:
            q = Q("goal"); pre = self.requires(ctx, q)
            interp.obligations.append((f"call.{self.target}.pre", list(interp.pc) + q.hyps, toz3(pre), {"site": getattr(interp.stack[-1].func, 'qualname', '?') if interp.stack else '?'}))
            if concrete_bool(z3.simplify(toz3(pre))) is False: raise PreFailed(self.target)
        if self.returns is None and self.effects is None: raise Unsupported(f"contract {self.target} has no functional 'returns'")
        ret = self.returns(ctx) if self.returns is not None else None      # result is a function of the PRE-state
        if self.effects is not None: self.effects(interp, ctx)
        return ret

REGISTRY = {}
def contract(target, **kw):
    c = Contract(target, **kw); REGISTRY[target] = c; return c

class Result:
    def __init__(self, name, verdict, path, meta): self.name, self.verdict, self.path, self.meta = name, verdict, path, meta
    def __repr__(self): return f"{self.name}: {self.verdict}"

KNOWN = []          # known-finding entries (dicts) visible to the prover: see excluded_by_known
def _consts(terms):
    out = {}; seen = set()
    def rec(t):
        if t.get_id() in seen: return
        seen.add(t.get_id())
        if z3.is_quantifier(t): rec(t.body()); return
        if z3.is_const(t) and t.decl().kind() == z3.Z3_OP_UNINTERPRETED: out[t.decl().name()] = t
        for ch in t.children(): rec(ch)
    for t in terms: rec(toz3(t))
    return out
def excluded_by_known(name, tag, pc, goal, timeout_ms):
    """A refuted obligation matches a known finding iff it is provable once the finding's identifying predicate is excluded,
    i.e. every counter-model lies inside the recorded class.  Returns the matching entry or None."""
    import fnmatch
    for k in KNOWN:
        if k.get("status", "open") != "open" or "obligation" not in k: continue
        if not fnmatch.fnmatch(name, k["obligation"]): continue
        if k.get("path") and not fnmatch.fnmatch(tag, k["path"]): continue
        pred = k.get("identified_by_smt")
        if pred in (None, "always"): return dict(k, _restricted=False)
        env = {"z3": z3, "And": z3.And, "Or": z3.Or, "Not": z3.Not, "Implies": z3.Implies}
        env.update(_consts(list(pc) + [goal]))
        try: P = eval(pred, env)
        except Exception: continue
        v = smt.prove(list(pc) + [z3.Not(toz3(P))], goal, timeout_ms)
        if v.status == "proved": return dict(k, _restricted=True)
    return None

def verify(interp, target, timeout_ms=10000, verbose=False, only=None):
    """Verify one contracted function: every path, every ensures clause, call-site preconditions, frame."""
    c = REGISTRY[target]; interp.contracts = REGISTRY
    results = []; npaths = 0; pruned = 0
    def discharge(name, pc, goal, tag, meta):
        import os, sys, time as _t
        _t0 = _t.time()
        # a unit that already has three undischarged obligations is decided (refuted / undecided) whatever the rest yields: the remaining
        # obligations get a short budget so that a broken unit reports in minutes, not after (number of obligations) x (full budget)
        nfail = sum(1 for r_ in results if r_.verdict.status != "proved" and "CANARY" not in r_.name)
        v = smt.prove(pc, goal, timeout_ms if nfail < 3 else min(timeout_ms, 4000))
        if os.environ.get("PYVC_TRACE"): print(f"[trace] {name} {tag} {v!r} wall={_t.time() - _t0:.1f}s", file=sys.stderr, flush=True)
        if v.status == "proved" and v.backend != "trivial" and "CANARY" not in name:
            # vacuity guard per obligation: the assumptions it was proved under must be satisfiable
            if smt.satisfiable(pc, 3000) == z3.unsat:
                v = smt.Verdict("unknown", "z3", v.secs, detail="VACUOUS: the assumptions of this obligation are contradictory (engine/contract error)")
        meta = dict(meta or {})
        if v.status != "proved" and "CANARY" not in name:
            hv = sorted(n for n in _consts(list(pc) + [toz3(goal)]) if "!loop" in n)
            if hv:
                # the failed proof involves a local that is assigned in a loop body and carried out of it without being described by the loop invariant:
                # that is "needs contract" (undecided), never a violation - the property's bounded harness, if any, decides
                v = smt.Verdict("unknown", "z3", v.secs, detail="NEEDS-CONTRACT: depends on loop-carried local(s) " + ", ".join(h.split("!")[0] for h in hv) + " not described by the loop invariant")
                meta["needs_contract"] = True
        if v.status == "unknown" and "unit wall-clock budget exhausted" in (v.detail or ""): meta["needs_contract"] = True      # undecided for lack of time: the bounded harness decides
        if getattr(interp, "derived_used", None): meta["derived_attrs"] = sorted(interp.derived_used)
        r = Result(f"{target}.{name}", v, tag, meta)
        if v.status != "proved" and "CANARY" not in name and not meta.get("needs_contract"):
            k = excluded_by_known(r.name, tag, pc, toz3(goal), timeout_ms)
            if k is not None: r.meta["known_finding"] = k.get("id") or k.get("what_fails"); r.meta["known_restricted"] = k["_restricted"]
        if v.status != "proved" or len(results) < 3:
            try: r.meta["smt2"] = _smt2(pc, goal)
            except Exception: pass
        results.append(r)
    for scen_name, scen_setup in c.scenarios:
      if only and not any(scen_name.startswith(o) for o in only): continue
      paths = [[]]
      while paths:
          dec = paths.pop()
          interp.reset_path(dec); interp.verifying = target
          A.SIDE.clear(); A._unravel_cache.clear()
          ctx = scen_setup(interp); install_loop_rule(interp, lambda ctx=ctx: ctx); install_scan_rule(interp, lambda ctx=ctx: ctx); install_scatter_rule(interp)                       # fresh symbolic arguments + pre-state (adds assumptions)
          f = interp.get_func(target)
          if ctx.get("self") is not None: f = f.bind(ctx["self"])
          q = Q("assume")
          if c.requires is not None:
              _, bound = interp.bind_args(f, ctx.get("_args", []), ctx.get("_kwargs", {}))
              interp.assume(c.requires(Ctx(ctx, **bound), q))
          if npaths == 0 or not dec:
              # vacuity guard: the precondition (with the scenario's assumptions) must be satisfiable
              sat0 = smt.satisfiable(list(interp.pc))
              results.append(Result(f"{target}.vacuity.pre_satisfiable", smt.Verdict("proved" if sat0 == z3.sat else ("refuted" if sat0 == z3.unsat else "unknown"), "z3", 0.0,
                                    detail="requires + scenario assumptions have a model" if sat0 == z3.sat else "CONTRADICTORY PRECONDITION"), f"{scen_name}pre", {"guard": True}))
          old = {k: (dict(v.attrs) if isinstance(v, Obj) else v) for k, v in ctx.items()}
          outcome = ("return", None)
          try:
              args = ctx.get("_args", []); kw = ctx.get("_kwargs", {})
              res = interp.call_body(f, args, kw); outcome = ("return", res)
          except PyRaise as pr: outcome = ("raise", pr)
          except PreFailed as pf: outcome = ("prefail", pf)
          except PathEnd: outcome = ("pathend", None)
          except RestartPath: paths.append(dec); continue          # same path again, now with the contract applied where inlining the callee's body failed
          paths += interp.pending; npaths += 1
          pc = list(interp.pc) + list(A.SIDE)
          if smt.satisfiable(pc) == z3.unsat: pruned += 1; continue        # infeasible path (pruned, counted)
          tag = f"{scen_name}path{npaths}"
          for (name, opc, goal, meta) in interp.obligations:
              discharge(name, opc + list(A.SIDE), goal, tag, meta)
          if outcome[0] in ("prefail", "pathend"): continue
          if outcome[0] == "raise":
              pr = outcome[1]; allowed = False
              for item in c.raises:
                  exc_name, when = item[0], item[1]; label = item[2] if len(item) > 2 else "when"
                  if exc_name == pr.exc.name:
                      allowed = True
                      if when is not None:
                          qg = Q("goal"); g = when(Ctx(ctx, old=old), qg)
                          discharge(f"raises.{exc_name}.{label}", pc + qg.hyps, g, tag, {})
              if not allowed:
                  v = smt.Verdict("refuted", "z3", 0.0, model=_model(pc), detail=f"unexpected {pr.exc.name}: {pr.msg}")
                  r = Result(f"{target}.safe.no_{pr.exc.name}", v, tag, {"msg": str(pr.msg)})
                  k = excluded_by_known(r.name, tag, pc, z3.BoolVal(False), timeout_ms)
                  if k is not None: r.meta["known_finding"] = k.get("id") or k.get("what_fails"); r.meta["known_restricted"] = k["_restricted"]
                  results.append(r)
              continue
          cx = Ctx(ctx, result=outcome[1], old=old)
          for name, clause in c.ensures.items():
              qg = Q("goal"); g = clause(cx, qg)
              discharge(f"post.{name}", pc + qg.hyps + list(A.SIDE), g, tag, {})
          if c.modifies is not None and ctx.get("self") is not None and isinstance(ctx["self"], Obj):
              act = getattr(f, "last_activation", None) or getattr(interp, "last_activation", None)
              if act is not None:
                  so = ctx["self"]
                  extra = sorted(a for (oid, lbl, a) in act.writes if oid == so.oid and a not in c.modifies)
                  results.append(Result(f"{target}.frame.modifies", smt.Verdict("proved" if not extra else "refuted", "frame-log", 0.0, detail=f"unlisted writes: {extra}" if extra else ""), tag, {"unlisted_writes": extra}))
    # ---- contract self-consistency: what CALLERS are told (`returns`) must satisfy what is PROVED about the body (`ensures`)
    if c.returns is not None and c.effects is None and c.ensures:
        for scen_name, scen_setup in c.scenarios:
            if scen_setup is None or (only and not any(scen_name.startswith(o) for o in only)): continue
            try:
                interp.reset_path([]); interp.verifying = target; A.SIDE.clear(); A._unravel_cache.clear()
                ctx = scen_setup(interp); install_loop_rule(interp, lambda ctx=ctx: ctx); install_scan_rule(interp, lambda ctx=ctx: ctx); install_scatter_rule(interp)
                f = interp.get_func(target)
                if ctx.get("self") is not None: f = f.bind(ctx["self"])
                _, bound = interp.bind_args(f, ctx.get("_args", []), ctx.get("_kwargs", {}))
                if c.requires is not None: interp.assume(c.requires(Ctx(ctx, **bound), Q("assume")))
                ret = c.returns(Ctx(bound))
                cx = Ctx(ctx, result=ret, old={})
                for name, clause in c.ensures.items():
                    if "CANARY" in name: continue
                    qg = Q("goal"); g = clause(cx, qg)
                    discharge(f"contract.returns_satisfies.{name}", list(interp.pc) + qg.hyps + list(A.SIDE), g, f"{scen_name}contract", {})
            except (PyRaise, EngineError, PathEnd, PreFailed, KeyError, AttributeError, TypeError) as ex:
                results.append(Result(f"{target}.contract.returns_evaluable", smt.Verdict("unknown", "z3", 0.0, detail=f"returns/ensures not evaluable on the pre-state: {type(ex).__name__}: {ex}"), f"{scen_name}contract", {"skipped": True}))
            break          # one scenario suffices: returns is the same function in all of them
    interp.last_counts = {"paths": npaths, "pruned": pruned}
    return results, npaths

def _smt2(pc, goal):
    s = z3.Solver(); s.add(*[toz3(p) for p in pc]); s.add(z3.Not(toz3(goal)))
    t = s.to_smt2()
    return t if len(t) < 6000 else t[:6000] + "\n; ... truncated"

def _model(pc):
    from .smt import guarded_check
    s = z3.Solver(); s.set("timeout", 20000); s.add(*pc)
    return s.model() if guarded_check(s, 20000) == z3.sat else None


# ---------------------------------------------------------------------- loops
class PathEnd(Exception): pass
LOOPS = {}
class LoopSpec:
    """havoc(interp, env, ctx, k): install state satisfying the invariant at trip count k (by construction) and
    return extra hypotheses; check(ctx, env, k, q): dict name->goal that the state satisfies Inv(k)."""
    def __init__(self, target, ordinal, havoc, check, defs=None, modifies=None):
        # modifies: names the body may write: "self.attr" / "local"; everything written must be listed AND havoc'd (frame check)
        self.target, self.ordinal, self.havoc, self.check, self.defs, self.modifies = target, ordinal, havoc, check, defs, modifies
        LOOPS[(target, ordinal)] = self
_havoc_n = [0]
class HavocVal:
    """a local assigned in a loop body whose value the invariant does not describe and whose sort is unknown: any use is an engine limitation"""
    def __init__(self, name): self.name = name
    def __repr__(self): return f"<value of '{self.name}' after a loop: not described by the invariant>"
def _arbitrary_like(v, name):
    _havoc_n[0] += 1; nm = f"{name}!{_havoc_n[0]}"
    if isinstance(v, bool): return z3.Bool(nm)
    if isinstance(v, int): return z3.Int(nm)
    if isinstance(v, float): return z3.Real(nm)
    if is_z3(v):
        return z3.Const(nm, v.sort())
    if isinstance(v, SArr):
        sh = v.shape; probe = None
        try: probe = v.get(tuple(z3.Int(f"%hv{i}") for i in range(v.ndim)))
        except Exception: pass
        srt = toz3(probe).sort() if probe is not None and (is_z3(probe) or isinstance(probe, (bool, int, float))) else z3.RealSort()
        F = z3.Function(nm, *([z3.IntSort()] * max(v.ndim, 1)), srt)
        return SArr(sh, (lambda idx, F=F: F(*[toz3(i) for i in idx])) if v.ndim else (lambda idx, F=F: F(z3.IntVal(0))))
    return HavocVal(name)
def install_loop_rule(interp, ctx_of):
    from .interp import SymRange
    from .values import BreakExc, ContinueExc
    counters = {}
    def rule(I, node, rng, env, mod):
        target = I.verifying
        fnode = I.stack[-1].func.node if I.stack else None
        fors = [x for x in ast.walk(fnode) if isinstance(x, ast.For)] if fnode is not None else []
        ordinal = fors.index(node) if node in fors else 0
        spec = LOOPS.get((target, ordinal))
        if spec is None: raise Unsupported(f"loop {ordinal} of {target} has no invariant")
        ctx = ctx_of()
        n = toz3(rng.hi) - toz3(rng.lo)
        # 1. initiation
        q = Q("goal")
        for name, g in spec.check(ctx, env, z3.IntVal(0), q).items():
            I.obligations.append((f"loop{ordinal}.init.{name}", list(I.pc) + q.hyps, toz3(g), {}))
        mode = z3.Bool(f"loopmode!{ordinal}")
        tnames = {x.id for x in ast.walk(node.target) if isinstance(x, ast.Name)}
        body_locals = sorted({x.id for st in node.body for x in ast.walk(st) if isinstance(x, ast.Name) and isinstance(x.ctx, ast.Store)} - tnames)
        def havoc_all(kk):
            """the invariant's own havoc, then: every OTHER local the body assigns holds an arbitrary value of its sort at the loop head / after the loop
            (locals are not observable, so they are havoc'd rather than reported as frame violations; what matters is what the code does with them afterwards)"""
            before = {k_: id(v) for k_, v in env.items()}
            hs = list(spec.havoc(I, env, ctx, kk))
            for nm in body_locals:
                if nm in env and before.get(nm) == id(env[nm]) and not (spec.modifies is not None and nm in spec.modifies and False):
                    env[nm] = _arbitrary_like(env[nm], f"{nm}!loop{ordinal}")
            return hs
        if I.truth(mode):
            # 2. arbitrary iteration
            k = z3.Int(f"k!{ordinal}"); I.assume(z3.And(k >= 0, k < n))
            for h in havoc_all(k): I.assume(h)
            I.assign(node.target, toz3(rng.lo) + k, env, mod)
            act = I.stack[-1] if I.stack else None
            w0 = set(act.writes) if act else set(); env0 = {k_: id(v) for k_, v in env.items()}
            def frame_check():
                if spec.modifies is None: return
                written = {f"self.{a}" for (_, lbl, a) in (act.writes - w0)} if act else set()
                # (locals are havoc'd, see havoc_all; the frame obligation is about object state)
                extra = sorted(x for x in written if x not in spec.modifies and x != getattr(node.target, "id", None))
                I.obligations.append((f"loop{ordinal}.frame", list(I.pc), z3.BoolVal(not extra), {"unlisted_writes": extra}))
            try:
                I.exec_block(node.body, env, mod)
            except BreakExc:
                frame_check()
                return                                  # continue after the loop from the break state
            except ContinueExc:
                pass                                    # `continue`: this trip ends here; the invariant must hold for the next one like after a complete body
            frame_check()
            q = Q("goal")
            hyps = list(spec.defs(ctx, env, k)) if spec.defs else []
            for name, g in spec.check(ctx, env, k + 1, q).items():
                I.obligations.append((f"loop{ordinal}.preserve.{name}", list(I.pc) + q.hyps + hyps, toz3(g), {}))
            raise PathEnd()
        else:
            # 3. exit without break after n trips
            I.assume(n >= 0)
            for h in havoc_all(n): I.assume(h)
            I.exec_block(node.orelse, env, mod)
            return
    interp.loop_rule = rule


# ---------------------------------------------------------------------- scan with a changing carry
SCANS = {}
class ScanSpec:
    """carry_at(interp, ctx, k) -> (carry value satisfying Inv(k) by construction, hypotheses);
    check(ctx, carry, k, q) -> dict name->goal that `carry` satisfies Inv(k)."""
    def __init__(self, target, ordinal, carry_at, check):
        self.target, self.ordinal, self.carry_at, self.check = target, ordinal, carry_at, check
        SCANS[(target, ordinal)] = self
def install_scan_rule(interp, ctx_of):
    from .models import libs
    count = {}
    def rule(f, init, xs, reverse):
        target = interp.verifying; ordinal = count.get(target, 0); count[target] = ordinal + 1
        spec = SCANS.get((target, ordinal))
        if spec is None: raise Unsupported(f"scan {ordinal} of {target} changes its carry and has no invariant")
        if reverse: raise Unsupported("reverse scan with invariant")
        ctx = ctx_of(); n = libs.tree_extent(xs, 0)
        q = Q("goal")
        for name, g in spec.check(ctx, init, z3.IntVal(0), q).items():
            interp.obligations.append((f"scan{ordinal}.init.{name}", list(interp.pc) + q.hyps, toz3(g), {}))
        k = z3.Int(f"kscan!{ordinal}")
        ck, hyps = spec.carry_at(interp, ctx, k)
        saved_pc = list(interp.pc)
        interp.assume(z3.And(k >= 0, k < toz3(n)))
        for h in hyps: interp.assume(h)
        c2, y = interp.call(f, [ck, libs.tree_map_axis(xs, 0, k)], {})
        q = Q("goal")
        for name, g in spec.check(ctx, c2, k + 1, q).items():
            interp.obligations.append((f"scan{ordinal}.preserve.{name}", list(interp.pc) + q.hyps, toz3(g), {}))
        interp.pc = saved_pc
        def at(i):
            ci, hy = spec.carry_at(interp, ctx, i)
            for h in hy: interp.assume(h)
            return interp.call(f, [ci, libs.tree_map_axis(xs, 0, i)], {})[1]
        cn, hy = spec.carry_at(interp, ctx, n)
        probe = z3.Int(f"%probe_scan{ordinal}")
        return cn, libs.lift_results(n, at, at(probe))
    interp.scan_rule = rule


# ---------------------------------------------------------------------- scatter with an index array (duplicates: unspecified winner)
def install_scatter_rule(interp):
    n = [0]
    def rule(o, idx, v, mode):
        if not (len(idx) == 1 and isinstance(idx[0], SArr) and idx[0].ndim == 1 and o.ndim == 1 and mode == "set"):
            raise Unsupported("scatter pattern")
        ix = idx[0]; m = ix.shape[0]; n[0] += 1
        HIT = z3.Function(f"hit!{n[0]}", z3.IntSort(), z3.BoolSort()); J = z3.Function(f"win!{n[0]}", z3.IntSort(), z3.IntSort())
        # scatter semantics as on-demand instances (ghost lemma calls), recorded for the contract:
        #   won(i):    HIT(i) => 0<=J(i)<m and ix[J(i)] == i          (some update with index i wins; which one is unspecified)
        #   hits(i,j): 0<=j<m and ix[j] == i => HIT(i)
        rec = {"HIT": HIT, "J": J, "ix": ix, "m": m,
               "won": lambda i: z3.Implies(HIT(i), z3.And(J(i) >= 0, J(i) < toz3(m), toz3(ix.get((J(i),))) == i)),
               "hits": lambda i, j: z3.Implies(z3.And(toz3(j) >= 0, toz3(j) < toz3(m), toz3(ix.get((j,))) == i), HIT(i))}
        interp.ghost.setdefault("scatters", []).append(rec)
        def get(full):
            t = toz3(full[0])
            newv = v.get((J(t),)) if isinstance(v, SArr) else v
            return A.Ite(z3.And(t >= 0, t < toz3(o.shape[0]), HIT(t)), newv, o.get((t,)))      # out-of-range updates are dropped
        return SArr(o.shape, get)
    interp.scatter_rule = rule
