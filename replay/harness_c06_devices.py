"""C06 on several (emulated) devices: each sweep of the semi-asynchronous solver, driven by solve(1), against a device-aware block
Gauss-Seidel reference - a state's backup uses the already-updated values of the states in EARLIER BATCHES ON THE SAME DEVICE and the previous
sweep's values of all other states; the documented layout puts position i of the (possibly permuted) state order on device i // (B*bs), batch
(i % (B*bs)) // bs, padding last.  Geometries incl. padding that exceeds one batch / reaches into several devices, with and without shuffling.
BOUNDED (real code under XLA_FLAGS=--xla_force_host_platform_device_count=D); never counted as proved."""
import os, sys, json, subprocess
import numpy as np
from hlib import args, Report
CHILD = r'''
import os, sys, json, numpy as np
os.environ["XLA_FLAGS"] = "--xla_force_host_platform_device_count=%s" % sys.argv[1]
import jax, jax.numpy as jnp, jax.random as jr; jax.config.update("jax_enable_x64", True)
sys.path.insert(0, sys.argv[4])
from tabular import Tab, rand_mdp, bellman, optimal_values
from mdpax.solvers import SemiAsyncValueIteration as SA
D = int(sys.argv[1]); assert len(jax.devices()) == D
cfg = json.loads(sys.argv[2]); out = []
def close(x, y): return np.allclose(np.asarray(x, dtype=float), np.asarray(y, dtype=float), rtol=1e-9, atol=1e-9)
for case in cfg:
    N, bs, seed = case["n"], case["bs"], case["seed"]; rng = np.random.default_rng(seed); ns, r, p = rand_mdp(rng, N, 2, 2); v0 = rng.normal(0, 5, N); g = 0.9
    for shuffle in (False, True):
        rec = dict(devices=D, n_states=N, max_batch_size=bs, shuffle=shuffle, seed=seed)
        try:
            s = SA(Tab(ns, r, p, v0), gamma=g, epsilon=1e-12, verbose=0, max_batch_size=bs, shuffle_states=shuffle, random_seed=seed)
            B, bsz = int(s.batch_processor.n_batches), int(s.batch_processor.batch_size); rec.update(n_batches=B, batch_size=bsz, n_pad=int(s.n_pad))
            key = jr.PRNGKey(seed); cur = np.array(v0)
            for sweep in range(4):
                if shuffle: key, sub = jr.split(key); perm = np.asarray(jr.permutation(sub, jnp.arange(N)))
                else: perm = np.arange(N)
                new = np.zeros(N)
                for d in range(D):
                    carry = cur.copy()
                    for b in range(B):
                        lo = (d * B + b) * bsz; rows = perm[lo:lo + bsz]
                        if len(rows) == 0: continue
                        vals = bellman(ns, r, p, g, carry)[rows]; new[rows] = vals; carry[rows] = vals
                got = np.asarray(s.solve(1).values)
                if got.shape != (N,) or not close(got, new):
                    rec["fail"] = dict(check="c06.sweep_is_block_gauss_seidel", what=f"sweep {sweep + 1} on {D} devices differs from the per-device block Gauss-Seidel reference", sweep=sweep + 1,
                                       max_abs_deviation=float(np.abs(got - new).max()) if got.shape == (N,) else None, shape=list(got.shape)); break
                cur = new
            if "fail" not in rec:
                vstar = optimal_values(ns, r, p, g); sv = SA(Tab(ns, r, p, vstar), gamma=g, epsilon=1e-6, verbose=0, max_batch_size=bs, shuffle_states=shuffle, random_seed=seed)
                got = np.asarray(sv.solve(1).values)
                if not np.allclose(got, vstar, rtol=1e-8, atol=1e-8): rec["fail"] = dict(check="c06.fixed_point", what="a sweep started at the optimal values does not return them", max_abs_deviation=float(np.abs(got - vstar).max()))
        except Exception as ex:
            rec["fail"] = dict(check="c06.sweep_runs", what=f"{type(ex).__name__}: {str(ex)[:200]}")
        out.append(rec)
json.dump(out, open(sys.argv[3], "w"))
'''
a = args(); TH = a.tier == "thorough"; here = os.path.dirname(os.path.abspath(__file__)); scratch = os.environ.get("VERIF_SCRATCH", "/tmp")
devs = [2, 3, 4, 8] if TH else [2, 4]
# (n_states, max_batch_size): padding larger than one batch with real states in the last device's last batch (121 on 4 devices: 4x3x12, pad 23; 4x7x5, pad 19), whole devices of padding, one state per batch, no padding
cases = [dict(n=n, bs=bs, seed=a.seed + 7 * n + bs) for n, bs in ([(121, 12), (121, 5), (29, 4), (13, 2), (16, 4), (5, 1), (3, 2), (70, 64)] if TH else [(121, 12), (29, 4), (13, 2), (16, 4)])]
R = Report("c06_multidevice", "C06", "emulated host devices x (n_states, max_batch_size) x {natural order, shuffled}: 4 sweeps driven by solve(1) vs the per-device block Gauss-Seidel reference; fixed point; distinct = (devices, n, max_batch_size, shuffle)")
procs = []
for D in devs:
    out = os.path.join(scratch, f"c06dev_{D}.json")
    procs.append((D, out, subprocess.Popen([sys.executable, "-c", CHILD, str(D), json.dumps(cases), out, here], env=dict(os.environ, JAX_PLATFORMS="cpu"), stdout=subprocess.PIPE, stderr=subprocess.PIPE, text=True)))
for D, out, p in procs:
    so, se = p.communicate()
    try: recs = json.load(open(out))
    except Exception: R.fail("c06.harness_child", f"child for {D} devices failed", dict(devices=D), se[-600:]); R.failures[-1]["engine"] = True; continue
    for rec in recs:
        fl = rec.pop("fail", None); R.case((rec["devices"], rec["n_states"], rec["max_batch_size"], rec["shuffle"]), rec)
        if fl: R.fail(fl.pop("check"), fl.pop("what"), rec, fl)
R.write(a.out)
