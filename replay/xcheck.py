"""CPython cross-check of the pyvc interpreter (validates the trusted library models): the real Forest / ValueIteration constructors,
_update_values and _extract_policy run natively under JAX and through the interpreter in concrete mode; results must agree."""
import os, sys, json, subprocess, shutil
import numpy as np, jax, jax.numpy as jnp
jax.config.update("jax_enable_x64", True)
from hlib import args, Report, ROOT
from mdpax.problems import Forest
from mdpax.solvers import ValueIteration
a = args(); R = Report("interpreter_cross_check", a.prop or "C02", "Forest(S) x max_batch_size configurations: constructor, one sweep from an injected value vector, policy extraction; native JAX vs pyvc concrete mode", label="conformance")
cfgs = [(5, 2), (7, 3), (4, 8)] + ([(1, 1), (9, 4), (12, 5)] if a.tier == "thorough" else [])
exp = {}
for S, bs in cfgs:
    p = Forest(S=S, r1=4.5, r2=2.5, p=0.25); s = ValueIteration(p, gamma=0.9, epsilon=0.01, verbose=0, max_batch_size=bs)
    V = jnp.array([float(i * i % 7) - 2.5 for i in range(S)])
    new = s._update_values(s.batched_states, p.action_space, p.random_event_space, s.gamma, V); s.values = V; pol = s._extract_policy()
    exp[f"{S},{bs}"] = {"new": np.asarray(new).tolist(), "policy": np.asarray(pol).tolist(), "shape": list(s.batch_processor.batch_shape), "n_pad": int(s.n_pad), "thr": float(s.conv_threshold)}
scratch = os.environ.get("VERIF_SCRATCH", "/tmp"); fe, fo = os.path.join(scratch, "xc_exp.json"), os.path.join(scratch, "xc_out.json")
json.dump(exp, open(fe, "w"))
vt = shutil.which("python3-vt") or "/opt/veriftools/pyvenv/bin/python"
env = {k: v for k, v in os.environ.items() if k not in ("PYTHONPATH",)}
pr = subprocess.run([vt, os.path.join(ROOT, "tools", "xcheck_interp.py"), fe, fo], capture_output=True, text=True, env=env)
try: got = json.load(open(fo))
except Exception: got = {}; R.fail("xcheck.interpreter_ran", "interpreter side failed", {}, pr.stderr[-600:])
for k, e in exp.items():
    g = got.get(k, {"error": "missing"}); R.case(k, dict(config=k, expected_shape=e["shape"]))
    if "error" in g:
        if "Unsupported" in g["error"]: continue            # source outside the interpreter's subset: nothing to cross-check (not a property matter)
        R.fail("xcheck.interpreter_ran", "interpreter raised on real source", dict(config=k), g["error"]); continue
    ok = len(g["new"]) == len(e["new"]) and np.allclose(g["new"], e["new"], atol=1e-9) and g["policy"] == e["policy"] and g["shape"] == e["shape"] and g["n_pad"] == e["n_pad"] and abs(g["thr"] - e["thr"]) < 1e-6
    if not ok: R.fail("xcheck.models_agree_with_jax", "pyvc's concrete execution of the real source disagrees with JAX", dict(config=k), g, e)
for f in R.failures: f["engine"] = True                  # a disagreement here means the ENGINE's library models are wrong, not the repository
R.write(a.out)
