"""Replay of C20 counter-models on the real code: format spec, config-only route, gamma boundary, validators."""
import sys, json, traceback
path = sys.argv[1]; r = json.load(open(path)); m = r.get("model") or {}; ob = r["obligation"]
def num(k, d):
    v = m.get(k, d)
    return float(v) if isinstance(v, (int, float)) and not isinstance(v, bool) else d
from mdpax.problems import Forest
from mdpax.problems.forest import ForestConfig
from mdpax.solvers import ValueIteration
from mdpax.solvers.value_iteration import ValueIterationConfig
inp = obs = None; fails = False
try:
    if "get_convergence_format" in ob and "decimals" in ob:
        from mdpax.utils.logging import get_convergence_format
        eps = num("epsilon", 100.0); fmt = get_convergence_format(float(eps)); inp = {"epsilon": eps}
        try: txt = f"{1.25:{fmt}}"; obs = {"format": fmt, "formatted": txt}
        except ValueError as ex: obs = {"format": fmt, "error": f"ValueError: {ex}"}; fails = True
        if fails:   # the consequence a user sees: every progress message of solve() raises
            try: ValueIteration(Forest(S=3), gamma=1.0, epsilon=float(eps), verbose=0).solve(2)
            except ValueError as ex: obs["solve"] = f"ValueError: {ex}"
    elif "_setup_config" in ob:
        inp = {"route": "config only: ValueIteration(config=ValueIterationConfig(problem=ForestConfig(S=3), gamma=0.9))"}
        try:
            s = ValueIteration(config=ValueIterationConfig(problem=ForestConfig(S=3), gamma=0.9, verbose=0)); st = s.solve(3); obs = {"iteration": int(st.info.iteration)}
        except Exception as ex: obs = {"error": f"{type(ex).__name__}: {ex}"}; fails = True
    elif "_setup_convergence_testing" in ob or "get_convergence_format.pre" in ob:
        g = num("gamma", 0.0); eps = num("epsilon", 0.5); inp = {"gamma": g, "epsilon": eps, "problem": "Forest(S=3)"}
        try:
            st = ValueIteration(Forest(S=3), gamma=g, epsilon=eps, verbose=0).solve(5); obs = {"iteration": int(st.info.iteration)}
        except Exception as ex: obs = {"error": f"{type(ex).__name__}: {ex}"}; fails = True
except Exception as ex:
    obs = {"replayer_error": traceback.format_exc()[-800:]}
r["concrete_input"], r["observed"] = inp, obs; r["expected"] = "construction and solve() complete normally for every accepted parameter set"
r["verdict"] = "confirmed-on-real-code" if fails else "no-failing-input-found"
json.dump(r, open(path, "w"), indent=1); print(r["verdict"], inp, obs)
