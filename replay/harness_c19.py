"""Run-time contract check of create_range_space on the real code (bounded; also conformance of the product / ravel_multi_index models)."""
import argparse, json, time, itertools
import numpy as np
from mdpax.utils.spaces import create_range_space
ap = argparse.ArgumentParser(); ap.add_argument("--tier"); ap.add_argument("--seed", type=int, default=0); ap.add_argument("--out")
a = ap.parse_args(); t0 = time.time(); rng = np.random.default_rng(a.seed)
cases = [([0], [3]), ([0, 0], [1, 2]), ([0, 0, 0], [2, 0, 3]), ([1], [2]), ([-2], [0]), ([1, -2], [2, 0]), ([3, 3], [3, 5]), ([-1, 0, 2], [1, 1, 3])]
for _ in range(12 if a.tier == "quick" else 80):
    d = int(rng.integers(1, 5)); lo = rng.integers(-3, 4, size=d); w = rng.integers(0, 4 if d < 4 else 3, size=d); cases.append((lo.tolist(), (lo + w).tolist()))
fails = []; samples = []; nontriv = set()
for mins, maxs in cases:
    space, index_fn = create_range_space(np.array(mins), np.array(maxs)); sp = np.asarray(space)
    ref = np.array(list(itertools.product(*[range(x, y + 1) for x, y in zip(mins, maxs)]))).reshape(-1, len(mins))
    inp = {"mins": mins, "maxs": maxs}; nontriv.add((tuple(mins), tuple(maxs)))
    if sp.shape != ref.shape or not (sp == ref).all():
        fails.append({"check": "c19.enumerates", "what": "space is not the row-major enumeration of the box", "input": inp, "observed": sp.tolist()[:6], "expected": ref.tolist()[:6]}); continue
    idx = [int(index_fn(sp[i])) for i in range(len(sp))]
    bad = [i for i, j in enumerate(idx) if i != j]
    if bad:
        fails.append({"check": "c19.index_inverts", "what": "index_fn(space[i]) != i", "input": dict(inp, row=bad[0], vector=sp[bad[0]].tolist()), "observed": idx[bad[0]], "expected": bad[0]})
    for _ in range(5):
        v = (np.array(mins) + rng.integers(-3, 6, size=len(mins))); near = np.clip(v, mins, maxs)
        x, y = int(index_fn(v)), int(index_fn(near))
        if x != y or not 0 <= x < len(sp):
            fails.append({"check": "c19.clip_total", "what": "out-of-box vector not mapped to its nearest box vector", "input": dict(inp, vector=v.tolist(), nearest=near.tolist()), "observed": x, "expected": y}); break
    if len(samples) < 3: samples.append({"input": inp, "rows": int(sp.shape[0])})
# known findings are matched on the identifying predicate of the failing input
known = json.load(open(__import__("os").path.join(__import__("os").path.dirname(__import__("os").path.dirname(__import__("os").path.abspath(__file__))), "known_findings.json")))
for f in fails:
    for k in known:
        if k.get("property") == "C19" and k.get("status") == "open" and k.get("harness_check") == f["check"] and eval(k["identified_by_py"], {}, {"input": f["input"]}): f["known_finding"] = k["id"]
json.dump({"name": "c19_runtime", "label": "bounded", "evaluations": len(cases), "distinct_nontrivial": len(nontriv), "rule": "fixed corner cases (zero-width, negative and non-zero lower bounds) + seeded random boxes of dimension 1..4; distinct = distinct (mins,maxs)",
           "failures": fails[:12], "samples": samples, "wall_s": round(time.time() - t0, 2)}, open(a.out, "w"))
