"""Replay a C18 counter-model on the real BatchProcessor."""
import sys, json
import numpy as np, jax.numpy as jnp
from mdpax.utils.batch_processing import BatchProcessor
path = sys.argv[1]; r = json.load(open(path)); m = r.get("model") or {}
out = None
if "__init__" in r["obligation"]:
    n, M = max(1, m.get("n_states", 1)), max(1, m.get("max_batch_size", 1)); D = m.get("pmap_device_count", m.get("jax_device_count", 1)) or 1
    bp = BatchProcessor(n, max(1, m.get("state_dim", 1)), max_batch_size=M, pmap_device_count=D)
    obs = {"n_devices": int(bp.n_devices), "n_batches": int(bp.n_batches), "batch_size": int(bp.batch_size), "n_pad": int(bp.n_pad)}
    bad = not (obs["n_devices"] == D and 1 <= obs["batch_size"] <= M and obs["n_batches"] >= 1 and obs["n_pad"] >= 0 and D * obs["n_batches"] * obs["batch_size"] == n + obs["n_pad"]
               and (obs["n_batches"] == 1 or D * (obs["n_batches"] - 1) * obs["batch_size"] < n))
    out = ({"n_states": n, "max_batch_size": M, "pmap_device_count": D}, obs, bad)
else:
    D, B, bs, n = (max(1, m.get(k, 1)) for k in ("D", "B", "bs", "N")); pad = D * B * bs - n
    if pad >= 0:
        bp = BatchProcessor.__new__(BatchProcessor); bp.n_devices, bp.n_batches, bp.batch_size, bp.n_states, bp.n_pad, bp.state_dim = D, B, bs, n, pad, 2
        st = np.arange(n * 2).reshape(n, 2) + 1; b = np.asarray(bp.prepare_batches(jnp.asarray(st))).reshape(-1, 2)
        res = np.arange(D * B * bs * 3).reshape(D, B, bs, 3); u = np.asarray(bp.unbatch_results(jnp.asarray(res)))
        bad = not ((b[:n] == st).all() and (b[n:] == 0).all() and u.shape == (n, 3) and (u == res.reshape(-1, 3)[:n]).all())
        out = ({"D": D, "B": B, "bs": bs, "n_states": n, "n_pad": pad}, {"unbatched_shape": list(u.shape)}, bad)
if out:
    r["concrete_input"], r["observed"], bad = out; r["expected"] = "BatchProcessor contract (DESIGN C18)"
    r["verdict"] = "confirmed-on-real-code" if bad else "no-failing-input-found"
json.dump(r, open(path, "w"), indent=1)
