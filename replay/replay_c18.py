"""Replay a C18 counter-model on the real BatchProcessor."""
import sys, json
import numpy as np, jax.numpy as jnp
from mdpax.utils.batch_processing import BatchProcessor
path = sys.argv[1]; r = json.load(open(path)); m = r.get("model") or {}
out = None
if "__init__" in r["obligation"]:
    n, M = max(1, m.get("n_states", 1)), max(1, m.get("max_batch_size", 1)); D = m.get("pmap_device_count", m.get("jax_device_count", 1)) or 1
    bp = BatchProcessor(n, max(1, m.get("state_dim", 1)), max_batch_size=M, pmap_device_count=D)
    obs = {"n_devices": int(bp.n_devices), "n_batches": int(bp.n_batches), "batch_size": int(bp.batch_size), "n_pad": int(bp.n_pad)}
    bad = not (obs["n_devices"] == D and 1 <= obs["batch_size"] <= M and obs["n_batches"] >= 1 and obs["n_pad"] >= 0 and D * obs["n_batches"] * obs["batch_size"] == n + obs["n_pad"]
               and (obs["n_batches"] == 1 or D * (obs["n_batches"] - 1) * obs["batch_size"] < n))
    out = ({"n_states": n, "max_batch_size": M, "pmap_device_count": D}, obs, bad)
else:
    # layout / round-trip obligations: the counter-model fixes (devices, batches, batch size, states); any processor BUILT BY THE REAL CONSTRUCTOR that
    # breaks the clause is a failing input, so the model's geometry and its neighbours are tried through __init__ (no hand-set attributes)
    D, B, bs, n = (max(1, int(m.get(k, 1) or 1)) for k in ("D", "B", "bs", "N"))
    cands = []
    for nn in (n, max(1, n - 1), n + 1):
        for M in (bs, max(1, bs - 1), bs + 1, 1, 64):
            for DD in (D, 1, 2, 3):
                if (nn, M, DD) not in cands: cands.append((nn, M, DD))
    for (nn, M, DD) in cands[:40]:
        try:
            bp = BatchProcessor(nn, 2, max_batch_size=M, pmap_device_count=DD)
            st = np.arange(nn * 2).reshape(nn, 2) + 1; b = np.asarray(bp.prepare_batches(jnp.asarray(st)))
            shape_ok = b.shape == (bp.n_devices, bp.n_batches, bp.batch_size, 2); flat = b.reshape(-1, 2)
            res = np.arange(int(np.prod(b.shape[:3])) * 3).reshape(*b.shape[:3], 3); u = np.asarray(bp.unbatch_results(jnp.asarray(res)))
            bad = not (shape_ok and len(flat) == nn + bp.n_pad and (flat[:nn] == st).all() and (flat[nn:] == 0).all() and u.shape == (nn, 3) and (u == res.reshape(-1, 3)[:nn]).all())
            obs = {"batched_shape": list(b.shape), "n_pad": int(bp.n_pad), "unbatched_shape": list(u.shape), "slot_order_ok": bool(len(flat) >= nn and (flat[:nn] == st).all()), "rows_ok": bool(u.shape == (nn, 3) and (u == res.reshape(-1, 3)[:nn]).all())}
        except Exception as ex:
            bad = True; obs = {"raised": f"{type(ex).__name__}: {str(ex)[:200]}"}
        out = ({"n_states": nn, "max_batch_size": M, "pmap_device_count": DD}, obs, bad)
        if bad: break
if out:
    r["concrete_input"], r["observed"], bad = out; r["expected"] = "BatchProcessor contract (DESIGN C18)"
    r["verdict"] = "confirmed-on-real-code" if bad else "no-failing-input-found"
json.dump(r, open(path, "w"), indent=1)
