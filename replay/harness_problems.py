"""Run-time contract checks of the shipped problems (C13 distribution, C14 closure/index/sizes, C15 dynamics, C16 documented distributions)
on complete state x action x event tables of small parameterisations (BOUNDED stand-in + conformance; never counted as proved)."""
import itertools, math
import numpy as np, jax, jax.numpy as jnp, scipy.stats as st
from hlib import args, Report
jax.config.update("jax_enable_x64", True)
from mdpax.problems import Forest
from mdpax.problems.perishable_inventory.de_moor_single_product import DeMoorSingleProductPerishable as DM
from mdpax.problems.perishable_inventory.hendrix_two_product import HendrixTwoProductPerishable as HX
from mdpax.problems.perishable_inventory.mirjalili_platelet import MirjaliliPlateletPerishable as MJ

a = args(); rng = np.random.default_rng(a.seed); TH = a.tier == "thorough"

def ttable(p):
    f = jax.jit(jax.vmap(jax.vmap(jax.vmap(p.transition, in_axes=(None, None, 0)), in_axes=(None, 0, None)), in_axes=(0, None, None)))
    ns, r = f(p.state_space, p.action_space, p.random_event_space)
    idx = jax.vmap(jax.vmap(jax.vmap(p.state_to_index)))(ns)
    return np.asarray(ns), np.asarray(r).reshape(ns.shape[:3]), np.asarray(idx)
def ptable(p):
    f = jax.jit(jax.vmap(jax.vmap(jax.vmap(p.random_event_probability, in_axes=(None, None, 0)), in_axes=(None, 0, None)), in_axes=(0, None, None)))
    pr = np.asarray(f(p.state_space, p.action_space, p.random_event_space)); return pr.reshape(pr.shape[:3])
def issue(stock, demand, oldest_first=True):
    stock = list(stock); rem = demand
    for k in (range(len(stock) - 1, -1, -1) if oldest_first else range(len(stock))):
        t = min(stock[k], rem); stock[k] -= t; rem -= t
    return stock, rem

# ---------------------------------------------------------------- parameterisations and scalar reference models (written from the class docstrings)
def dm_cases():
    grid = list(itertools.product([1, 2, 3], [1, 2, 3], ["fifo", "lifo"])) if TH else [(1, 1, "fifo"), (2, 1, "lifo"), (3, 2, "fifo"), (2, 3, "lifo"), (3, 1, "fifo")]
    for m, L, pol in grid:
        Q = 2; cst = dict(variable_order_cost=3.0, shortage_cost=5.5, wastage_cost=7.25, holding_cost=1.5); kw = dict(max_demand=4, max_useful_life=m, lead_time=L, max_order_quantity=Q, issue_policy=pol, **cst)
        def model(s, a_, e, m=m, L=L, pol=pol):
            transit, stock = s[:L - 1], s[L - 1:]; d = e[0]; q = a_[0]
            after, rem = issue(stock, d, oldest_first=(pol == "fifo")); pipeline = [q] + transit
            nxt = pipeline[:-1] + [pipeline[-1]] + after[:-1]
            cons = sum(stock) == min(d, sum(stock)) + after[-1] + sum(after[:-1])
            return nxt, -(3.0 * q + 5.5 * rem + 7.25 * after[-1] + 1.5 * sum(after[:-1])), cons
        yield f"DeMoor m={m} L={L} {pol}", DM, kw, model, dict(states=(Q + 1) ** (m + L - 1), actions=Q + 1, events=5)
def hx_cases():
    for m in ([1, 2] if not TH else [1, 2, 3]):
        qa, qb = 2, 1; kw = dict(max_useful_life=m, max_order_quantity_a=qa, max_order_quantity_b=qb, sales_price_a=1.5, sales_price_b=2.0, variable_order_cost_a=0.3, variable_order_cost_b=0.7)
        def model(s, a_, e, m=m):
            sa, sb = s[:m], s[m:]; aa_, ra = issue(sa, e[0], True); bb_, rb = issue(sb, e[1], True)
            return [a_[0]] + aa_[:-1] + [a_[1]] + bb_[:-1], 1.5 * e[0] + 2.0 * e[1] - 0.3 * a_[0] - 0.7 * a_[1], True
        yield f"Hendrix m={m}", HX, kw, model, dict(states=(qa + 1) ** m * (qb + 1) ** m, actions=(qa + 1) * (qb + 1))
def mj_cases():
    for m in ([1, 2, 3] if TH else [1, 2, 3][: 3]):
        Q = 2; kw = dict(max_demand=3, max_useful_life=m, max_order_quantity=Q, useful_life_at_arrival_distribution_c_0=tuple([0.5] * (m - 1)), useful_life_at_arrival_distribution_c_1=tuple([0.1] * (m - 1)),
                         variable_order_cost=0.5, fixed_order_cost=10., shortage_cost=20., wastage_cost=5., holding_cost=1.)
        def model(s, a_, e, m=m, Q=Q):
            wd, stock = s[0], s[1:]; d = e[0]; rec = e[1:]
            opening = [min(Q, x + y) for x, y in zip([0] + stock, rec)]; after, rem = issue(opening, d, True)
            cons = sum(opening) == min(d, sum(opening)) + after[-1] + sum(after[:-1])
            return [(wd + 1) % 7] + after[:-1], -(0.5 * a_[0] + 10. * (a_[0] > 0) + 20. * rem + 5. * after[-1] + 1. * sum(after)), cons
        n_rec = sum(1 for r in itertools.product(range(Q + 1), repeat=m) if sum(r) <= Q)
        yield f"Mirjalili m={m}", MJ, kw, model, dict(states=7 * (Q + 1) ** (m - 1), actions=Q + 1, events=4 * n_rec)
def fo_cases():
    for S_ in [1, 2, 3, 5]:
        kw = dict(S=S_, r1=4.5, r2=2.5, p=0.3)
        def model(s, a_, e, S_=S_):
            age = s[0]
            if a_[0] == 1: return [0], (2.5 if age == S_ - 1 else (0.0 if age == 0 else 1.0)), True
            return [0 if e[0] == 1 else min(age + 1, S_ - 1)], (4.5 if age == S_ - 1 else 0.0), True
        yield f"Forest S={S_}", Forest, kw, model, dict(states=S_, actions=2, events=2)
ALL = lambda: itertools.chain(dm_cases(), hx_cases(), mj_cases(), fo_cases())

def c15_c14(which):
    R = Report(f"{which}_runtime", which.upper(), "complete state x action x event tables of small parameterisations of the four shipped problems vs independent scalar models; distinct = parameterisations")
    for name, cls, kw, model, sizes in ALL():
        p = cls(**kw); ns, r, idx = ttable(p); S, A, E = ns.shape[:3]; pr = ptable(p)
        ss, aa, ee = np.asarray(p.state_space), np.asarray(p.action_space), np.asarray(p.random_event_space); inp = dict(problem=name, params=kw); R.case(name, dict(problem=name, S=S, A=A, E=E))
        if which == "c14":
            own = np.asarray(jax.vmap(p.state_to_index)(p.state_space))
            if not (own == np.arange(S)).all(): R.fail("c14.index_of_listed_state", "state_to_index(state_space[i]) != i", inp, own.tolist()[:10])
            for nm, arr, key in (("state", ss, "states"), ("action", aa, "actions"), ("event", ee, "events")):
                if len({tuple(x) for x in arr.tolist()}) != len(arr): R.fail("c14.no_duplicate_rows", f"{nm} space has duplicate rows", inp)
                if key in sizes and len(arr) != sizes[key]: R.fail("c14.documented_size", f"{nm} space has {len(arr)} rows, documented {sizes[key]}", inp, len(arr), sizes[key])
            bad = [(s, a_, e) for s in range(S) for a_ in range(A) for e in range(E) if pr[s, a_, e] > 0 and not (0 <= idx[s, a_, e] < S and (ss[idx[s, a_, e]] == ns[s, a_, e]).all())]
            if bad: s, a_, e = bad[0]; R.fail("c14.closed", "a positive-probability successor is not a listed state whose index points back to it (silently clipped)", dict(inp, state=ss[s], action=aa[a_], event=ee[e]), dict(successor=ns[s, a_, e], index=int(idx[s, a_, e]), row=ss[min(max(int(idx[s, a_, e]), 0), S - 1)]))
        else:
            n_bad = 0
            for s in range(S):
                for a_ in range(A):
                    for e in range(E):
                        en, er, cons = model(ss[s].tolist(), aa[a_].tolist(), ee[e].tolist())
                        if list(ns[s, a_, e]) != list(en) or abs(r[s, a_, e] - er) > 1e-9 or not cons:
                            n_bad += 1
                            if n_bad == 1: R.fail("c15.transition_matches_scalar_model", "successor / reward differ from the independent scalar model of the documented dynamics", dict(inp, state=ss[s], action=aa[a_], event=ee[e]), dict(next=ns[s, a_, e], reward=float(r[s, a_, e])), dict(next=en, reward=er, conservation=cons))
    if which == "c15":       # lead time: an order placed now is the youngest stock after exactly L steps (De Moor)
        for L in (1, 2, 3):
            p = DM(max_demand=3, max_useful_life=2, lead_time=L, max_order_quantity=3); s = jnp.zeros(2 + L - 1, dtype=jnp.int32); R.case(f"leadtime L={L}", None)
            s, _ = p.transition(s, jnp.array([3]), jnp.array([0]))
            for _ in range(L - 1): s, _ = p.transition(s, jnp.array([0]), jnp.array([0]))
            if int(np.asarray(s)[L - 1]) != 3 or int(np.asarray(s).sum()) != 3: R.fail("c15.lead_time", "order does not arrive as the youngest stock after exactly L steps", dict(lead_time=L), np.asarray(s))
    return R

def nmax(a, b):
    """max that PROPAGATES NaN (Python's max silently drops it: max(0, nan) == 0)"""
    a, b = float(a), float(b)
    return float("nan") if (a != a or b != b) else max(a, b)
def c13_c16(which):
    R = Report(f"{which}_runtime", which.upper(), "probability tables of small and edge parameterisations of the four shipped problems vs scipy (gamma, nbinom, multinomial, poisson/binomial brute force); distinct = parameterisations")
    tol = 1e-4
    # De Moor
    for mean, cov, D in [(4.0, 0.5, 100), (4.0, 0.5, 6), (0.3, 2.0, 5), (50., 0.1, 20), (2.0, 1.0, 1)] + ([(1.0, 3.0, 3), (10.0, 0.3, 2)] if TH else []):
        kw = dict(max_demand=D, demand_gamma_mean=mean, demand_gamma_cov=cov, max_order_quantity=1, max_useful_life=1); p = DM(**kw); pr = ptable(p); inp = dict(problem="DeMoor", params=kw); R.case(("dm", mean, cov, D), inp)
        al = 1 / cov ** 2; scale = mean * cov ** 2; F = lambda x: st.gamma.cdf(x, al, scale=scale)
        exp = np.array([F(0.5)] + [F(d + .5) - F(d - .5) for d in range(1, D)] + [1 - F(D - .5)])
        if which == "c13" and (not np.isfinite(pr).all() or pr.min() < 0 or np.abs(pr.sum(-1) - 1).max() > tol): R.fail("c13.de_moor", "not a distribution", inp, dict(min=float(pr.min()), sum_dev=float(np.abs(pr.sum(-1) - 1).max())))
        if which == "c16" and not (np.abs(pr - exp[None, None, :]).max() <= 1e-6): R.fail("c16.de_moor_discretised_gamma", "differs from the half-integer discretised, censored gamma", inp, float(np.abs(pr - exp[None, None, :]).max()))
    # Mirjalili
    for m, Q, D, c0, c1 in [(1, 3, 4, (), ()), (2, 3, 4, (0.7,), (0.2,)), (3, 2, 3, (1.0, 0.5), (-0.3, 0.4)), (2, 4, 2, (-2.0,), (1.5,))]:
        kw = dict(max_demand=D, max_useful_life=m, max_order_quantity=Q, useful_life_at_arrival_distribution_c_0=c0, useful_life_at_arrival_distribution_c_1=c1); p = MJ(**kw); pr = ptable(p); inp = dict(problem="Mirjalili", params=kw); R.case(("mj", m, Q, D), inp)
        ss, aa, ee = np.asarray(p.state_space), np.asarray(p.action_space), np.asarray(p.random_event_space)
        if which == "c13" and (not np.isfinite(pr).all() or pr.min() < 0 or np.abs(pr.sum(-1) - 1).max() > tol): R.fail("c13.mirjalili", "not a distribution", inp, dict(min=float(pr.min()), sum_dev=float(np.abs(pr.sum(-1) - 1).max())))
        if which == "c16":
            nn = np.array(p.config.weekday_demand_negbin_n); dl = np.array(p.config.weekday_demand_negbin_delta); worst = 0
            for s in range(0, len(ss), max(1, len(ss) // 14)):
                wd = ss[s, 0]; n = nn[wd]; pp = n / (n + dl[wd]); dem = st.nbinom.pmf(np.arange(D + 1), n, pp); dem[D] = 1 - st.nbinom.cdf(D - 1, n, pp)
                for a_ in range(len(aa)):
                    q = aa[a_, 0]; la = np.array([0.0] + [c0[i] + c1[i] * q for i in range(m - 1)]); pa = np.exp(la) / np.exp(la).sum(); pso = pa[::-1]
                    for e in range(len(ee)):
                        d, rec = ee[e, 0], ee[e, 1:]; ex = dem[d] * (st.multinomial.pmf(rec, q, pso) if rec.sum() == q else 0.0); worst = nmax(worst, abs(ex - pr[s, a_, e]))
            if not (worst <= 1e-6): R.fail("c16.mirjalili_negbin_times_multinomial", "differs from censored negative binomial x multinomial split", inp, worst)
    # Forest
    for pf in [0.0, 0.1, 1.0]:
        p = Forest(S=4, p=pf); pr = ptable(p); R.case(("fo", pf), dict(problem="Forest", p=pf))
        if which == "c13" and (not np.isfinite(pr).all() or pr.min() < 0 or np.abs(pr.sum(-1) - 1).max() > tol): R.fail("c13.forest", "not a distribution", dict(p=pf))
        if which == "c16" and not (np.allclose(pr[:, 0, 1], pf) and np.allclose(pr[:, 1, 1], 0.0) and np.allclose(pr[:, 0, 0], 1 - pf) and np.allclose(pr[:, 1, 0], 1.0)): R.fail("c16.forest_fire_probability", "fire probability is not p when waiting / 0 when cutting", dict(p=pf), pr[0].tolist())
    # Hendrix: sum-to-one over a parameter grid (C13) and joint distribution vs brute force (C16)
    def hx_ref(la, lb, sub, sa, sb, K=80):
        out = {}; pa = st.poisson.pmf(np.arange(K), la); pb = st.poisson.pmf(np.arange(K), lb)
        for db in range(K):
            ib = min(db, sb); exc = db - ib; subs = st.binom.pmf(np.arange(exc + 1), exc, sub)
            for u in range(exc + 1):
                if pb[db] * subs[u] < 1e-18: continue
                for da in range(K):
                    ia = min(da + u, sa); out[(ia, ib)] = out.get((ia, ib), 0) + pa[da] * pb[db] * subs[u]
        return out
    # incl. unequal order limits with a negligible tail (A's limit far below B's), and - in ONE process - instances that differ only in the mean of A
    grid = [(5, 5, 0.5, 10, 10, 2), (2, 3, 0.3, 3, 2, 1), (1, 1, 1.0, 2, 2, 2), (4, 1, 0.0, 3, 3, 1), (8, 8, 0.5, 3, 3, 1), (0.5, 0.5, 0.5, 1, 1, 1),
            (1, 1, 0.5, 2, 10, 2), (0.5, 2, 1.0, 1, 10, 1), (2, 5, 0.5, 10, 10, 2), (8, 5, 0.5, 10, 10, 2)] + ([(20, 20, 0.5, 2, 2, 1), (2, 2, 0.5, 4, 4, 2)] if TH else [])
    for la, lb, sub, qa, qb, m in grid:
        # paired parameters get DISTINCT values (prices): a slip that exchanges the two products is invisible when they are equal
        kw = dict(max_useful_life=m, demand_poisson_mean_a=float(la), demand_poisson_mean_b=float(lb), substitution_probability=sub, max_order_quantity_a=qa, max_order_quantity_b=qb, sales_price_a=1.5, sales_price_b=4.0); p = HX(**kw)
        ss, ee = np.asarray(p.state_space), np.asarray(p.random_event_space); f = jax.jit(jax.vmap(p.random_event_probability, in_axes=(None, None, 0)))
        md = m * (max(qa, qb) + 2); tail = max(float(st.poisson.sf(md - 1, la + sub * lb)), float(st.poisson.sf(md - 1, lb)))     # demand for A includes substituted demand for B
        inp = dict(problem="Hendrix", params=kw, max_demand=md, poisson_tail_beyond_truncation=tail); R.case(("hx", la, lb, sub, qa, qb, m), inp)
        worst = 0; worst_sum = 0; mn = 0
        for s in rng.choice(len(ss), size=min(12, len(ss)), replace=False):
            pr = np.asarray(f(ss[s], p.action_space[0], p.random_event_space)); worst_sum = nmax(worst_sum, abs(pr.sum() - 1)); mn = -nmax(-mn, -pr.min())
            if which == "c16":
                ref = hx_ref(la, lb, sub, ss[s, :m].sum(), ss[s, m:].sum())
                for e in range(len(ee)): worst = nmax(worst, abs(pr[e] - ref.get((ee[e, 0], ee[e, 1]), 0.0)))
        if which == "c13" and (not (worst_sum <= tol) or not (mn >= 0)): R.fail("c13.hendrix_sum_to_one", "event probabilities are not finite, non-negative and summing to one within 1e-4", inp, dict(max_sum_deviation=float(worst_sum), min=float(mn)), "|sum - 1| <= 1e-4")
        if which == "c16":
            if not (worst <= max(1e-6, 3 * tail)): R.fail("c16.hendrix_joint_distribution", "differs from the brute-force joint distribution by more than the truncated tail mass", inp, worst, max(1e-6, 3 * tail))
            for s_ in sorted({len(ss) - 1, len(ss) // 2, len(ss) // 3, 1 % len(ss)}):
                iv = float(p.initial_value(ss[s_])); pr = np.asarray(f(ss[s_], p.action_space[0], p.random_event_space)); ex = (pr * (ee @ np.array([p.sales_price_a, p.sales_price_b]))).sum()
                if not (abs(iv - ex) <= 1e-6): R.fail("c16.hendrix_initial_value", "initial value != expected one-step sales revenue", dict(inp, state=ss[s_].tolist()), iv, float(ex)); break
    if which == "c16":
        for nm, p in (("forest", Forest(S=3)), ("de_moor", DM(max_demand=3, max_useful_life=1, max_order_quantity=2)), ("mirjalili", MJ(max_demand=2, max_useful_life=1, max_order_quantity=1, useful_life_at_arrival_distribution_c_0=(), useful_life_at_arrival_distribution_c_1=()))):
            R.case(("iv", nm), None)
            if any(float(p.initial_value(s)) != 0.0 for s in p.state_space): R.fail("c16.initial_value_zero", "initial value estimate is not zero", dict(problem=nm))
    return R

try: rep = {"c13": lambda: c13_c16("c13"), "c16": lambda: c13_c16("c16"), "c14": lambda: c15_c14("c14"), "c15": lambda: c15_c14("c15")}[a.prop]()
except Exception as ex:            # an exception escaping from the code under test is a failing case, not a harness crash
    import traceback
    rep = Report(f"{a.prop}_runtime", a.prop.upper(), "aborted"); rep.evaluations = 1
    rep.fail(f"{a.prop}.code_under_test_raised", f"{type(ex).__name__} raised by the code under test", {"see": "traceback"}, traceback.format_exc()[-900:], "no exception")
rep.write(a.out)
