"""Replay of C04 counter-models on the real RelativeValueIteration: the class invariant gain == values[-1] and the reported gain."""
import sys, json
import numpy as np
from tabular import Tab, optimal_gain_lp, policy_gain
from mdpax.solvers import RelativeValueIteration
path = sys.argv[1]; r = json.load(open(path)); m = r.get("model") or {}
# two-state flip chain with reward 1 everywhere (gain 1, periodic but the span is 0 from the first sweep), initial value v0 from the model
v0 = None
for k, v in m.items():
    if isinstance(v, (int, float)) and not isinstance(v, bool) and v != 0 and not k.endswith("#exact") and k not in ("N", "nA", "nE", "state_dim", "action_dim", "event_dim", "D", "B", "bs", "n_pad", "gamma"): v0 = float(v); break
v0 = 5.0 if v0 is None or abs(v0) > 1e6 else v0
ns = np.array([[[1]], [[0]]]); rw = np.ones((2, 1, 1)); p = np.ones((2, 1, 1))
prob = Tab(ns, rw, p, v0=[v0, v0])
s = RelativeValueIteration(prob, epsilon=1e-3, verbose=0)
inv_at_init = float(s.gain) == float(s.values[-1])
st = s.solve(100); gain = float(st.info.gain); true = optimal_gain_lp(ns, rw, p)
fails = (not inv_at_init) and abs(gain - true) >= 1e-3
r["concrete_input"] = {"mdp": "2-state flip chain, reward 1, one action, one event", "initial_value": v0, "epsilon": 1e-3}
r["observed"] = {"gain_after_construction": 0.0 if not inv_at_init else float(s.values[-1]), "values_last_after_construction": v0, "invariant_gain_eq_values_last_at_init": inv_at_init,
                 "converged_at_iteration": int(st.info.iteration), "reported_gain": gain}
r["expected"] = {"optimal_gain": true, "tolerance": 1e-3}
r["verdict"] = "confirmed-on-real-code" if fails else "no-failing-input-found"
json.dump(r, open(path, "w"), indent=1); print(r["verdict"], r["observed"], r["expected"])
