"""Run-time contract checks for C20 on the real code (BOUNDED): three construction routes, the accepted parameter domain works,
invalid values are rejected, and the float64 clause in fresh processes (both construction orders)."""
import os, sys, json, subprocess, tempfile, shutil, itertools
import numpy as np
from hlib import args, Report
a = args(); TH = a.tier == "thorough"; rng = np.random.default_rng(a.seed)
R = Report("c20_runtime", "C20", "5 solvers x {Forest, De Moor} x three construction routes; gamma x epsilon grid; invalid-parameter table; fresh-process dtype runs; distinct = cases")
scratch = tempfile.mkdtemp(prefix="c20_", dir=os.environ.get("VERIF_SCRATCH"))

# ---------------------------------------------------------------- dtype clause: fresh processes, x64 NOT pre-enabled
DT = r'''
import sys, json, numpy as np
order, solver = sys.argv[1], sys.argv[2]
import mdpax.solvers as S
from mdpax.problems import Forest
cls = getattr(S, solver); kw = {"ValueIteration": dict(gamma=0.95, epsilon=1e-6), "PolicyIteration": dict(gamma=0.95, epsilon=1e-6), "RelativeValueIteration": dict(epsilon=1e-6),
      "PeriodicValueIteration": dict(gamma=0.95, epsilon=1e-6, period=2), "SemiAsyncValueIteration": dict(gamma=0.95, epsilon=1e-6)}[solver]
if order == "problem_first":
    p = Forest(S=10); s = cls(p, verbose=0, **kw)
else:
    import jax; jax.config.update("jax_enable_x64", True); p = Forest(S=10); s = cls(p, verbose=0, **kw)
st = s.solve(500)
print(json.dumps({"dtype": str(np.asarray(st.values).dtype), "gamma_dtype": str(np.asarray(s.gamma).dtype), "iteration": int(st.info.iteration), "values": np.asarray(st.values, dtype=float).tolist()}))
'''
def child(order, solver):
    p = subprocess.run([sys.executable, "-c", DT, order, solver], capture_output=True, text=True, env=dict(os.environ, JAX_PLATFORMS="cpu"))
    try: return json.loads(p.stdout.strip().splitlines()[-1])
    except Exception: return {"error": p.stderr[-400:]}
for solver in (["ValueIteration", "PolicyIteration", "RelativeValueIteration", "PeriodicValueIteration", "SemiAsyncValueIteration"] if TH else ["ValueIteration", "RelativeValueIteration"]):
    ref = child("x64_first", solver); got = child("problem_first", solver); inp = dict(solver=solver, problem="Forest(S=10)", order="problem constructed before the first solver of the process", first_solver_in_process=True)
    R.case(("dtype", solver), inp)
    if "error" in got or "error" in ref: R.fail("c20.dtype_run", "fresh-process run failed", inp, got.get("error") or ref.get("error")); continue
    if got["dtype"] != "float64" or got["gamma_dtype"] != "float64" or got["iteration"] != ref["iteration"] or not np.allclose(got["values"], ref["values"], rtol=1e-9, atol=1e-9):
        R.fail("c20.float64_whatever_the_order", "with double precision requested, values are not computed in float64 when the problem is constructed before the first solver",
               inp, dict(values_dtype=got["dtype"], gamma_dtype=got["gamma_dtype"], iteration=got["iteration"]), dict(values_dtype="float64", iteration=ref["iteration"]))

import jax; jax.config.update("jax_enable_x64", True)
from omegaconf import OmegaConf
from hydra.utils import instantiate
import mdpax.solvers as S
from mdpax.problems import Forest
from mdpax.problems.forest import ForestConfig
from mdpax.problems.perishable_inventory.de_moor_single_product import DeMoorSingleProductPerishable as DM, DeMoorSingleProductPerishableConfig as DMC
SOLV = {"ValueIteration": dict(gamma=0.9, epsilon=1e-3), "PolicyIteration": dict(gamma=0.9, epsilon=1e-3, max_eval_iter=3, convergence_test="max_diff", reset_values_for_each_policy_eval=True), "RelativeValueIteration": dict(epsilon=1e-3),
        "PeriodicValueIteration": dict(gamma=0.9, epsilon=1e-3, period=3, clear_value_history_on_convergence=False), "SemiAsyncValueIteration": dict(gamma=0.9, epsilon=1e-3, max_batch_size=2, shuffle_states=True, random_seed=7)}     # non-default options on purpose
from mdpax.problems.perishable_inventory.hendrix_two_product import HendrixTwoProductPerishable as HX0, HendrixTwoProductPerishableConfig as HXC
from mdpax.problems.perishable_inventory.mirjalili_platelet import MirjaliliPlateletPerishable as MJ0, MirjaliliPlateletPerishableConfig as MJC
# every shipped problem, the tuple-valued parameters of the platelet problem included: on the configuration routes they arrive as OmegaConf list nodes, not tuples
PROB = {"forest": (Forest, ForestConfig, dict(S=6, p=0.2)), "de_moor": (DM, DMC, dict(max_demand=3, max_useful_life=2, lead_time=1, max_order_quantity=2)),
        "hendrix": (HX0, HXC, dict(max_useful_life=2, max_order_quantity_a=2, max_order_quantity_b=2, demand_poisson_mean_a=1.0, demand_poisson_mean_b=1.0)),
        "mirjalili": (MJ0, MJC, dict(max_useful_life=2, max_order_quantity=2, max_demand=3, useful_life_at_arrival_distribution_c_0=(1.0,), useful_life_at_arrival_distribution_c_1=(0.5,)))}
def res(st): return (int(st.info.iteration), np.asarray(st.values), np.asarray(st.policy))
# ---------------------------------------------------------------- 64-bit mode is process-global: a single-precision solver built in between must not switch it off
d1 = S.ValueIteration(Forest(S=5, p=0.2), gamma=0.9, epsilon=1e-3, verbose=0)                       # double precision requested (default)
s1 = S.ValueIteration(Forest(S=5, p=0.2), gamma=0.9, epsilon=1e-3, verbose=0, jax_double_precision=False); s1.solve(3)
st = d1.solve(50); R.case(("interleaving", "double, single, solve(double)"), dict(order="double-precision solver constructed; single-precision solver constructed and solved; first solver solved"))
if np.asarray(st.values).dtype != np.float64: R.fail("c20.float64_after_single_precision_solver", "a double-precision solver returns non-float64 values after a single-precision solver was constructed in the same process", dict(order="double, single, solve(double)"), str(np.asarray(st.values).dtype), "float64")
jax.config.update("jax_enable_x64", True)
# ---------------------------------------------------------------- three routes behave identically
for sn, kw in SOLV.items():
    for pn, (pcls, pcfg, pkw) in (PROB.items() if TH or sn == "ValueIteration" else [(k_, PROB[k_]) for k_ in ("forest", "de_moor")] if sn == "PolicyIteration" else [("forest", PROB["forest"])]):
        cls = getattr(S, sn); inp = dict(solver=sn, problem=pn, solver_kwargs=kw, problem_kwargs=pkw); R.case(("routes", sn, pn), inp)
        try:
            d = os.path.join(scratch, f"r_{sn}_{pn}")
            s1 = cls(pcls(**pkw), verbose=0, checkpoint_dir=d, checkpoint_frequency=100, **kw); r1 = res(s1.solve(40))
            s2 = cls(config=cls.Config(problem=pcfg(**pkw), verbose=0, **kw)); r2 = res(s2.solve(40))
            s3 = instantiate(OmegaConf.load(os.path.join(d, "config.yaml")), checkpoint_frequency=0); r3 = res(s3.solve(40))
            for nm, r in (("config-only", r2), ("reloaded-config", r3)):
                if r[0] != r1[0] or not np.array_equal(r[1], r1[1]) or not np.array_equal(r[2], r1[2]): R.fail("c20.routes_identical", f"route {nm} behaves differently from kwargs+instance", dict(inp, route=nm), r[0], r1[0])
            c1 = OmegaConf.to_container(OmegaConf.structured(s1.config)); c2 = OmegaConf.to_container(OmegaConf.structured(s2.config))
            for c in (c1, c2): c.pop("checkpoint_dir"); c.pop("checkpoint_frequency")
            if c1 != c2: R.fail("c20.routes_same_config", "config differs between routes", inp, c2, c1)
        except Exception as ex:
            R.fail("c20.route_works", f"a construction route raised {type(ex).__name__}", inp, str(ex)[:200])
# ---------------------------------------------------------------- the saved-configuration route describes the solver that wrote LAST into a directory (re-used output directory)
try:
    d = os.path.join(scratch, "reused_dir")
    a1 = S.ValueIteration(Forest(S=6), gamma=0.5, epsilon=0.1, verbose=0, checkpoint_dir=d, checkpoint_frequency=1); a1.solve(2)
    if getattr(a1, "checkpoint_manager", None) is not None: a1.checkpoint_manager.wait_until_finished(); a1.checkpoint_manager.close()     # the first writer is DONE before the directory is re-used (two live asynchronous writers on one directory are not part of the property; seen once as ENOENT under load)
    a2 = S.ValueIteration(Forest(S=6), gamma=0.95, epsilon=1e-6, verbose=0, checkpoint_dir=d, checkpoint_frequency=5); a2.solve(5)
    if getattr(a2, "checkpoint_manager", None) is not None: a2.checkpoint_manager.wait_until_finished()
    inp = dict(history="solver A (gamma 0.5, eps 0.1, f=1) writes into D; solver B (gamma 0.95, eps 1e-6, f=5) writes into the same D; restore(D)"); R.case(("reused_directory",), inp)
    r = S.ValueIteration.restore(d, new_checkpoint_dir=d + "_r")
    got = dict(gamma=float(r.gamma), epsilon=float(r.epsilon), checkpoint_frequency=int(r.checkpoint_frequency)); want = dict(gamma=0.95, epsilon=1e-6, checkpoint_frequency=5)
    if got != want: R.fail("c20.saved_config_is_the_last_writers", "restore() of a re-used directory rebuilds a solver with another configuration than the one that wrote the latest checkpoint", inp, got, want)
except Exception as ex:
    R.fail("c20.route_works", f"re-used directory: {type(ex).__name__}", dict(history="two solvers, one directory"), str(ex)[:200])
# ---------------------------------------------------------------- one configuration object re-used for a sweep over problems: every saved configuration describes ITS OWN problem
try:
    from mdpax.solvers.value_iteration import ValueIterationConfig
    shared = ValueIterationConfig(gamma=0.9, epsilon=1e-3, verbose=0, checkpoint_frequency=2)
    for pf in (0.1, 0.4):
        shared.checkpoint_dir = os.path.join(scratch, f"sweep_p{pf}"); sv = S.ValueIteration(problem=Forest(S=5, p=pf), config=shared); sv.solve(4)
        if getattr(sv, "checkpoint_manager", None) is not None: sv.checkpoint_manager.wait_until_finished()
    inp = dict(history="one ValueIterationConfig object re-used for Forest(p=0.1) and then Forest(p=0.4), each with its own checkpoint_dir; restore(second directory)"); R.case(("shared_config_object",), inp)
    r = S.ValueIteration.restore(os.path.join(scratch, "sweep_p0.4"), new_checkpoint_dir=os.path.join(scratch, "sweep_r"))
    if abs(float(r.problem.p) - 0.4) > 1e-12: R.fail("c20.saved_config_describes_own_problem", "the solver rebuilt from the saved configuration has another problem than the one that was solved", inp, float(r.problem.p), 0.4)
except Exception as ex:
    R.fail("c20.route_works", f"re-used configuration object: {type(ex).__name__}", dict(history="shared config object"), str(ex)[:200])
# ---------------------------------------------------------------- every accepted parameter set works
for sn in (SOLV if TH else ["ValueIteration", "PolicyIteration", "SemiAsyncValueIteration", "PeriodicValueIteration"]):
    for g, eps in itertools.product(([0.0, 1e-3, 0.5, 1.0] if sn != "RelativeValueIteration" else [1.0]), ([1e-8, 1.0, 250.0, 1e6] if TH else [1e-8, 250.0])):
        kw = dict(SOLV[sn]); kw.update(epsilon=eps);
        if sn != "RelativeValueIteration": kw.update(gamma=g)
        if sn == "PeriodicValueIteration" and g == 1.0: kw.update(period=2)
        inp = dict(solver=sn, gamma=g, epsilon=eps); R.case(("domain", sn, g, eps), inp)
        try:
            st = getattr(S, sn)(Forest(S=4), verbose=2 if eps > 1 else 0, **kw).solve(3)
            if np.asarray(st.values).dtype != np.float64: R.fail("c20.float64", "values not float64", inp, str(np.asarray(st.values).dtype))
        except Exception as ex:
            R.fail("c20.accepted_parameters_work", f"accepted parameters make construction/solve raise {type(ex).__name__}", inp, str(ex)[:160])
# ---------------------------------------------------------------- invalid values are rejected with ValueError / TypeError
BAD = [("ValueIteration", dict(gamma=-0.1)), ("ValueIteration", dict(gamma=1.01)), ("ValueIteration", dict(epsilon=0.0)), ("ValueIteration", dict(epsilon=-1.0)), ("ValueIteration", dict(max_batch_size=0)),
       ("ValueIteration", dict(checkpoint_frequency=-1)), ("ValueIteration", dict(max_checkpoints=-1)), ("ValueIteration", dict(verbose=5)), ("ValueIteration", dict(verbose=-1)), ("ValueIteration", dict(convergence_test="bogus")),
       ("RelativeValueIteration", dict(gamma=0.9)), ("PeriodicValueIteration", dict(period=0)), ("PeriodicValueIteration", dict(period=-2)), ("PolicyIteration", dict(max_eval_iter=0)), ("PolicyIteration", dict(convergence_test="x")),
       ("SemiAsyncValueIteration", dict(gamma=2.0)), ("SemiAsyncValueIteration", dict(convergence_test="nope")), ("PolicyIteration", dict(epsilon=0))]
for sn, kw in BAD:
    inp = dict(solver=sn, bad=kw); R.case(("bad", sn, json.dumps(kw)), inp)
    try: getattr(S, sn)(Forest(S=3), **dict(dict(verbose=0), **kw)); R.fail("c20.invalid_rejected", "invalid solver parameter accepted at construction", inp)
    except (ValueError, TypeError): pass
    except Exception as ex: R.fail("c20.invalid_rejected", f"invalid parameter raises {type(ex).__name__} instead of ValueError/TypeError", inp, str(ex)[:160])
from mdpax.problems.perishable_inventory.hendrix_two_product import HendrixTwoProductPerishable as HX
from mdpax.problems.perishable_inventory.mirjalili_platelet import MirjaliliPlateletPerishable as MJ
PBAD = [(Forest, dict(S=0)), (Forest, dict(p=1.5)), (Forest, dict(p=-0.1)), (DM, dict(max_demand=0)), (DM, dict(demand_gamma_mean=0.0)), (DM, dict(demand_gamma_cov=-1.0)), (DM, dict(max_useful_life=0)), (DM, dict(lead_time=0)),
        (DM, dict(max_order_quantity=0)), (DM, dict(issue_policy="random")), (HX, dict(max_useful_life=0)), (HX, dict(demand_poisson_mean_a=0.0)), (HX, dict(substitution_probability=1.5)), (HX, dict(max_order_quantity_b=0)),
        (MJ, dict(max_demand=0)), (MJ, dict(max_useful_life=0)), (MJ, dict(max_order_quantity=0)), (MJ, dict(weekday_demand_negbin_n=(1.0,) * 6)), (MJ, dict(weekday_demand_negbin_delta=(1.0,) * 6 + (0.0,))), (MJ, dict(useful_life_at_arrival_distribution_c_0=(1.0,)))]
for pcls, kw in PBAD:
    inp = dict(problem=pcls.__name__, bad=kw); R.case(("pbad", pcls.__name__, json.dumps(kw)), inp)
    try: pcls(**kw); R.fail("c20.invalid_rejected", "invalid problem parameter accepted at construction", inp)
    except (ValueError, TypeError): pass
    except Exception as ex: R.fail("c20.invalid_rejected", f"invalid problem parameter raises {type(ex).__name__} instead of ValueError/TypeError", inp, str(ex)[:160])
shutil.rmtree(scratch, ignore_errors=True)
R.write(a.out)
