"""Run-time contract checks of the checkpointing properties C09 / C10 / C12 on the real code with the real Orbax / OmegaConf / Hydra
(BOUNDED: conformance of the assumed library contracts + the history-level obligations).  usage: harness_ckpt.py --prop c09|c10|c12"""
import os, sys, shutil, tempfile, subprocess, json, time
import numpy as np, jax, jax.numpy as jnp
from hlib import args, Report
jax.config.update("jax_enable_x64", True)
from omegaconf import OmegaConf
from mdpax.problems import Forest
from mdpax.problems.perishable_inventory.de_moor_single_product import DeMoorSingleProductPerishable as DeMoor
from mdpax.problems.perishable_inventory.hendrix_two_product import HendrixTwoProductPerishable as Hendrix
from mdpax.problems.perishable_inventory.mirjalili_platelet import MirjaliliPlateletPerishable as Mirjalili
from mdpax.solvers import ValueIteration as VI, PolicyIteration as PI, RelativeValueIteration as RVI, PeriodicValueIteration as PVI, SemiAsyncValueIteration as SA

a = args(); rng = np.random.default_rng(a.seed); TH = a.tier == "thorough"
base = tempfile.mkdtemp(prefix="ckpt_", dir=os.environ.get("VERIF_SCRATCH"))
def steps(d): return sorted(int(x) for x in os.listdir(d) if x.isdigit()) if os.path.isdir(d) else None
def wait(s):
    if getattr(s, "checkpoint_manager", None) is not None: s.checkpoint_manager.wait_until_finished()
SOLVERS = {"vi": (VI, dict(gamma=0.95, epsilon=1e-4)), "rvi": (RVI, dict(epsilon=1e-4)), "pvi": (PVI, dict(period=3, gamma=0.95, epsilon=1e-3, clear_value_history_on_convergence=False)),
           "sa": (SA, dict(gamma=0.95, epsilon=1e-4, max_batch_size=4)), "pi": (PI, dict(gamma=0.95, epsilon=1e-4, max_eval_iter=7)),
           # non-default option: every evaluation restarts from the values fixed at construction (they must survive a restore / a second solve() unchanged)
           "pi_reset": (PI, dict(gamma=0.95, epsilon=1e-4, max_eval_iter=7, reset_values_for_each_policy_eval=True))}
PROBLEMS = {"forest": lambda: Forest(S=11, p=0.2), "de_moor": lambda: DeMoor(max_demand=4, max_useful_life=2, lead_time=1, max_order_quantity=3),
            "hendrix": lambda: Hendrix(max_useful_life=2, max_order_quantity_a=2, max_order_quantity_b=2, demand_poisson_mean_a=1.0, demand_poisson_mean_b=1.0),
            "mirjalili": lambda: Mirjalili(max_useful_life=2, max_order_quantity=2, max_demand=3, useful_life_at_arrival_distribution_c_0=(1.0,), useful_life_at_arrival_distribution_c_1=(0.5,))}
def state_of(s):
    d = {"iteration": int(s.iteration), "values": np.asarray(s.values), "policy": None if s.policy is None else np.asarray(s.policy)}
    if hasattr(s, "gain"): d["gain"] = np.asarray(s.gain)
    if hasattr(s, "value_history"): d["value_history"] = None if s.value_history is None else np.asarray(s.value_history); d["history_index"] = int(s.history_index); d["period"] = int(s.period)
    return d
def same_state(x, y, skip=()):
    bad = []
    for k in x:
        if k in skip: continue
        u, v = x[k], y.get(k)
        if u is None or v is None: ok = u is None and v is None
        elif isinstance(u, np.ndarray): ok = isinstance(v, np.ndarray) and u.shape == v.shape and np.array_equal(u, v) and u.dtype == v.dtype
        else: ok = u == v
        if not ok: bad.append(k)
    return bad
def result_of(st):
    d = {"iteration": int(st.info.iteration), "values": np.asarray(st.values), "policy": np.asarray(st.policy)}
    if hasattr(st.info, "gain"): d["gain"] = np.asarray(st.info.gain)
    if hasattr(st.info, "value_history"): d["value_history"] = np.asarray(st.info.value_history); d["history_index"] = int(st.info.history_index)
    return d
FRESH = """
import sys, json, numpy as np, jax
jax.config.update('jax_enable_x64', True)
import mdpax.solvers as S
cls = getattr(S, sys.argv[1]); r = cls.restore(sys.argv[2]); st = r.solve(int(sys.argv[3]))
if r.checkpoint_manager is not None: r.checkpoint_manager.wait_until_finished()
out = {'iteration': int(st.info.iteration), 'values': np.asarray(st.values).tolist(), 'policy': np.asarray(st.policy).tolist()}
if hasattr(st.info, 'gain'): out['gain'] = float(st.info.gain)
if hasattr(st.info, 'value_history'): out['value_history'] = np.asarray(st.info.value_history).tolist(); out['history_index'] = int(st.info.history_index)
json.dump(out, open(sys.argv[4], 'w'))
"""
def fresh_resume(cls, d, k):
    out = os.path.join(base, f"fresh_{time.time_ns()}.json")
    env = dict(os.environ, JAX_PLATFORMS="cpu")
    p = subprocess.run([sys.executable, "-c", FRESH, cls.__name__, d, str(k), out], capture_output=True, text=True, env=env)
    if p.returncode != 0: return {"error": p.stderr[-600:]}
    r = json.load(open(out)); return {k_: (np.array(v) if isinstance(v, list) else v) for k_, v in r.items()}

# ----------------------------------------------------------------------------------------------------------------- C09
def c09():
    R = Report("c09_runtime", "C09", "Forest(S=11) x 5 solvers x interruption points x (frequency, retention, sync/async) incl. chains of two interruptions; resumed in a fresh process for a subset; distinct = (solver, k, f, m, async, chain)")
    for name, (cls, kw) in SOLVERS.items():
        ref = cls(Forest(S=11, p=0.2), verbose=0, **kw); rs = result_of(ref.solve(400)); nref = rs["iteration"]
        plan = ([(1, 1, 1, True, False), (3, 2, 2, False, True), (min(7, nref - 1), 3, 5, True, False), (2, 1, 3, False, True), (5, 5, 1, True, True)] if TH
                else [(3, 2, 2, bool(len(name) % 2), name in ("rvi", "pi")), (min(7, nref - 1), 3, 5, not bool(len(name) % 2), False), (nref - 1, 1, 2, True, False), (max(1, nref - 2), 2, 1, False, False)])
        plan = sorted(set(plan))       # interruption points just before convergence matter: state that only influences the stopping test shows there
        for (k, f, m, asyn, chain) in plan:
            if k >= nref or (chain and k + 2 >= nref): continue         # an "interruption" after the run has converged is not one: solve() on a converged solver performs a further sweep (C08's proviso); found in the thorough tier (pi_reset converges at 6, chain 5 -> 7)
            d = os.path.join(base, f"c09_{name}_{k}_{f}_{m}"); inp = dict(solver=name, problem="Forest(S=11,p=0.2)", interrupt_at=k, frequency=f, max_checkpoints=m, async_=asyn, chain=chain, **{x: y for x, y in kw.items()})
            R.case((name, k, f, m, asyn, chain), inp)
            s = cls(Forest(S=11, p=0.2), verbose=0, checkpoint_dir=d, checkpoint_frequency=f, max_checkpoints=m, enable_async_checkpointing=asyn, **kw); s.solve(k); wait(s)
            if chain:                                   # second interruption: restore, run 2 more sweeps, stop again
                r1 = cls.restore(d); r1.solve(2); wait(r1)
            use_fresh = (name in ("pvi",) and not chain and k == 3) or TH
            if use_fresh: got = fresh_resume(cls, d, 400)
            else:
                r = cls.restore(d); got = result_of(r.solve(400)); wait(r)
            if "error" in got: R.fail("c09.resume_runs", "resumed run failed", inp, got["error"]); continue
            bad = [x for x in rs if not (np.allclose(np.asarray(got.get(x), dtype=float), np.asarray(rs[x], dtype=float), rtol=0, atol=0) if x != "iteration" else got.get(x) == rs[x])]
            if bad: R.fail("c09.resume_equals_uninterrupted", f"resumed run differs from the uninterrupted run in {bad}", inp, {x: got.get(x) for x in bad}, {x: rs[x] for x in bad})
        # the load_checkpoint() route: into a hand-built solver that has not run yet, and into a solver OBJECT that has already run to convergence
        # (rewound in place) - run-time state that is neither saved nor re-initialised by the load (flags, counters) shows only in the second form
        for k in sorted({1, max(1, nref // 2)}) if TH else [max(1, nref // 2)]:
            if k >= nref: continue
            d = os.path.join(base, f"c09_lc_{name}_{k}"); s = cls(Forest(S=11, p=0.2), verbose=0, checkpoint_dir=d, checkpoint_frequency=1, max_checkpoints=1, enable_async_checkpointing=False, **kw); s.solve(k); wait(s)
            for how in ("hand_built_solver", "solver_object_that_already_converged"):
                inp = dict(solver=name, problem="Forest(S=11,p=0.2)", interrupt_at=k, route="load_checkpoint", into=how, **{x: y for x, y in kw.items()}); R.case((name, k, "load_checkpoint", how), inp)
                try:
                    h = cls(Forest(S=11, p=0.2), verbose=0, checkpoint_dir=os.path.join(base, f"c09_lc_own_{name}_{k}_{how}"), checkpoint_frequency=0, **kw)
                    if how != "hand_built_solver": h.solve(400); wait(h)
                    h.load_checkpoint(d); got = result_of(h.solve(400)); wait(h)
                except Exception as ex: R.fail("c09.resume_runs", f"resuming through load_checkpoint() failed: {type(ex).__name__}", inp, str(ex)[:300]); continue
                bad = [x for x in rs if not (np.allclose(np.asarray(got.get(x), dtype=float), np.asarray(rs[x], dtype=float), rtol=0, atol=0) if x != "iteration" else got.get(x) == rs[x])]
                if bad: R.fail("c09.resume_equals_uninterrupted", f"a run resumed through load_checkpoint() into a {how.replace('_', ' ')} differs from the uninterrupted run in {bad}", inp, {x: got.get(x) for x in bad}, {x: rs[x] for x in bad})
        # enabling checkpointing (any frequency / retention / mode) never changes a result
        for f, m, asyn in ([(1, 1, True), (4, 2, False)] if TH else [(2, 2, name != "vi")]):
            d = os.path.join(base, f"c09_on_{name}_{f}"); s = cls(Forest(S=11, p=0.2), verbose=0, checkpoint_dir=d, checkpoint_frequency=f, max_checkpoints=m, enable_async_checkpointing=asyn, **kw)
            got = result_of(s.solve(400)); wait(s); R.case((name, "on", f, m, asyn), None)
            bad = same_state(rs, got)
            if bad: R.fail("c09.checkpointing_changes_nothing", f"enabling checkpointing changed {bad}", dict(solver=name, frequency=f, max_checkpoints=m, async_=asyn))
    # shuffled semi-async: the resumed run still converges within the bound
    d = os.path.join(base, "c09_sa_shuffle"); kw = dict(gamma=0.9, epsilon=1e-3, max_batch_size=4, shuffle_states=True, random_seed=7, convergence_test="max_diff")
    prob = Forest(S=11, p=0.2); s = SA(prob, verbose=0, checkpoint_dir=d, checkpoint_frequency=2, **kw); s.solve(3); wait(s)
    r = SA.restore(d); st = r.solve(2000); wait(r); R.case(("sa_shuffle",), dict(solver="sa", shuffle=True, interrupt_at=3))
    P, Rm = prob.build_transition_and_reward_matrices(); P, Rm = np.asarray(P), np.asarray(Rm); V = np.zeros(11)
    for _ in range(100000):
        Vn = (Rm + 0.9 * np.einsum("asn,n->sa", P, V)).max(1)
        if np.abs(Vn - V).max() < 1e-13: break
        V = Vn
    pol = np.asarray(st.policy)[:, 0].astype(int); Pd = P[pol, np.arange(11)]; rd = Rm[np.arange(11), pol]; vd = np.linalg.solve(np.eye(11) - 0.9 * Pd, rd)
    if int(st.info.iteration) < 2000 and (Vn - vd).max() > 2 * 0.9 * 1e-3 / 0.1 + 1e-9: R.fail("c09.shuffled_resume_within_bound", "resumed shuffled run misses the error bound", dict(kw), float((Vn - vd).max()))
    return R

# ----------------------------------------------------------------------------------------------------------------- C10
def c10():
    R = Report("c10_runtime", "C10", "5 solvers x 4 shipped problems (small parameterisations): restore()/load_checkpoint() vs the saving solver at the step (latest and explicit), overrides, error paths; distinct = (solver, problem, scenario)")
    combos = [(sn, pn) for sn in SOLVERS for pn in PROBLEMS] if TH else [("vi", "forest"), ("rvi", "hendrix"), ("pvi", "de_moor"), ("sa", "mirjalili"), ("pi", "forest"), ("vi", "mirjalili"), ("pi", "de_moor")]
    for sn, pn in combos:
        cls, kw = SOLVERS[sn]; d = os.path.join(base, f"c10_{sn}_{pn}")
        s = cls(PROBLEMS[pn](), verbose=0, checkpoint_dir=d, checkpoint_frequency=2, max_checkpoints=3, enable_async_checkpointing=bool(len(sn) % 2), **kw)
        s.solve(4); wait(s); at4 = state_of(s); inp = dict(solver=sn, problem=pn, frequency=2, max_checkpoints=3, history="solve(4)"); R.case((sn, pn, "latest"), inp)
        r = cls.restore(d); got = state_of(r)
        skip = () if sn == "pi" else ("policy",)       # VI family: the step-4 save of a first solve() call precedes policy extraction, so the stored policy is None
        bad = same_state(at4, got, skip=skip)
        if sn != "pi" and got["policy"] is not None: bad.append("policy (expected the stored None)")
        if bad: R.fail("c10.restore_state_equal", f"restored solver differs from the saving solver at the latest step in {bad}", inp, {x: got.get(x) for x in bad}, {x: at4[x] for x in bad})
        c1, c2 = OmegaConf.to_container(OmegaConf.structured(s.config)), OmegaConf.to_container(OmegaConf.structured(r.config))
        for c in (c1, c2): c["checkpoint_dir"] = str(c["checkpoint_dir"])
        if c1 != c2: R.fail("c10.config_equal", "configuration of the restored solver differs", inp, c2, c1)
        if type(r.problem) is not type(s.problem) or not np.array_equal(np.asarray(r.problem.state_space), np.asarray(s.problem.state_space)): R.fail("c10.problem_rebuilt", "problem not rebuilt from the directory alone", inp)
        # explicit older step: state of iteration 2 (recomputed by an independent solver)
        ref2 = cls(PROBLEMS[pn](), verbose=0, **kw); ref2.solve(2); at2 = state_of(ref2); r2 = cls.restore(d, step=2, new_checkpoint_dir=os.path.join(base, f"c10_{sn}_{pn}_new")); R.case((sn, pn, "step2"), None)
        bad = same_state(at2, state_of(r2), skip=("policy",))      # the policy of iteration 2 was never computed by the saving solver (VI family)
        if bad: R.fail("c10.restore_explicit_step", f"restore(step=2) differs from the state at iteration 2 in {bad}", dict(inp, step=2))
    # load_checkpoint() into a hand-built solver that was constructed with OTHER state-shaping options (periodic VI: another period): it takes over the saved
    # solver's state - period, history, index - and then behaves like the saving solver
    dpp = os.path.join(base, "c10_pvi_period"); kwp = dict(gamma=0.95, epsilon=1e-5, clear_value_history_on_convergence=False)
    w4 = PVI(Forest(S=6), period=4, verbose=0, checkpoint_dir=dpp, checkpoint_frequency=1, max_checkpoints=2, enable_async_checkpointing=False, **kwp); w4.solve(6); wait(w4)
    ref = PVI(Forest(S=6), period=4, verbose=0, **kwp); stref = ref.solve(400); R.case(("load_other_period",), dict(history="written with period 4 (6 sweeps); loaded into a solver constructed with period 2; solve()"))
    try:
        rd = PVI(Forest(S=6), period=2, verbose=0, **kwp); rd.load_checkpoint(dpp); strd = rd.solve(400)
        if int(rd.period) != 4 or int(strd.info.iteration) != int(stref.info.iteration) or not np.allclose(np.asarray(strd.values), np.asarray(stref.values), atol=1e-10):
            R.fail("c10.load_checkpoint_takes_over_saved_state", "a solver that loaded a checkpoint written with another period does not continue like the saving solver", dict(writer_period=4, reader_period=2, gamma=0.95), dict(period=int(rd.period), stop=int(strd.info.iteration)), dict(period=4, stop=int(stref.info.iteration)))
    except Exception as ex: R.fail("c10.load_checkpoint_takes_over_saved_state", f"{type(ex).__name__} after loading a checkpoint written with another period", dict(writer_period=4, reader_period=2), str(ex)[:200])
    # overrides take effect for later saves; the original directory is untouched
    d = os.path.join(base, "c10_over"); s = VI(Forest(S=11, p=0.2), verbose=0, gamma=0.95, epsilon=1e-9, checkpoint_dir=d, checkpoint_frequency=2, max_checkpoints=2); s.solve(4); wait(s); before = {f: os.path.getmtime(os.path.join(d, f)) for f in os.listdir(d)}
    nd = os.path.join(base, "c10_over_new"); r = VI.restore(d, new_checkpoint_dir=nd, checkpoint_frequency=3, max_checkpoints=1, enable_async_checkpointing=False); st0 = state_of(r); r.solve(5); wait(r); R.case(("overrides",), dict(new_dir=True, frequency=3, max_checkpoints=1, async_=False))
    after = {f: os.path.getmtime(os.path.join(d, f)) for f in os.listdir(d)}
    if before != after: R.fail("c10.original_dir_untouched", "original directory changed after restore with new_checkpoint_dir", dict(before=sorted(before), after=sorted(after)))
    if steps(nd) != [9] or r.checkpoint_frequency != 3 or r.enable_async_checkpointing is not False: R.fail("c10.overrides_effective", "overrides did not take effect for later saves", dict(steps_new=steps(nd), frequency=r.checkpoint_frequency))
    if same_state(state_of(s), st0, skip=("policy",)): R.fail("c10.overrides_keep_state", "overrides altered the restored state", dict(overrides=True))
    # "from the directory alone": a COPY of the checkpoint directory restores the state it holds, whatever happens later in the original directory
    dc = os.path.join(base, "c10_copy_src"); s_c = VI(Forest(S=11, p=0.2), verbose=0, gamma=0.95, epsilon=1e-12, checkpoint_dir=dc, checkpoint_frequency=1, max_checkpoints=3); s_c.solve(3); wait(s_c); at3 = state_of(s_c)
    dcopy = os.path.join(base, "c10_copy_dst"); shutil.copytree(dc, dcopy); s_c.solve(3); wait(s_c); R.case(("copied_directory",), dict(history="solve(3); copy directory; solve(3) in the original; restore(copy)"))
    try:
        rc_ = VI.restore(dcopy); bad = same_state(at3, state_of(rc_), skip=("policy",))
        if bad: R.fail("c10.restore_reads_the_given_directory", f"restore(copy) does not return the state held by the copy: {bad}", dict(history="solve(3); copy; solve(3); restore(copy)"), dict(iteration=int(rc_.iteration)), dict(iteration=3))
    except Exception as ex: R.fail("c10.restore_reads_the_given_directory", f"restore(copy) raised {type(ex).__name__}", dict(history="solve(3); copy; solve(3); restore(copy)"), str(ex)[:200])
    # one configuration object re-used for two solvers on different problems: each directory restores to ITS problem
    from mdpax.solvers.value_iteration import ValueIterationConfig
    shared = ValueIterationConfig(gamma=0.9, epsilon=1e-3, verbose=0, checkpoint_frequency=2); R.case(("shared_config_object",), dict(history="one ValueIterationConfig re-used for Forest(p=0.1) then Forest(p=0.4); restore(second directory)"))
    for pf in (0.1, 0.4):
        shared.checkpoint_dir = os.path.join(base, f"c10_sweep_{pf}"); sw = VI(problem=Forest(S=5, p=pf), config=shared); sw.solve(4); wait(sw)
    try:
        rs = VI.restore(os.path.join(base, "c10_sweep_0.4"), new_checkpoint_dir=os.path.join(base, "c10_sweep_r"))
        if abs(float(rs.problem.p) - 0.4) > 1e-12 or not np.array_equal(np.asarray(rs.values), np.asarray(sw.values)):
            R.fail("c10.restored_problem_is_the_saved_one", "restore() rebuilds another problem than the one the checkpoint was written for", dict(history="shared config object, Forest(p=0.1) then Forest(p=0.4); restore(second)"), float(rs.problem.p), 0.4)
    except Exception as ex: R.fail("c10.restored_problem_is_the_saved_one", f"restore raised {type(ex).__name__}", dict(history="shared config object"), str(ex)[:200])
    # an override of 0 (= checkpointing disabled for the continued run) is an override like any other
    listing = sorted(os.listdir(d)); r0 = VI.restore(d, checkpoint_frequency=0); R.case(("override_zero",), dict(checkpoint_frequency=0)); r0.solve(3); wait(r0)
    if r0.checkpoint_frequency != 0 or sorted(os.listdir(d)) != listing: R.fail("c10.overrides_effective", "restore(checkpoint_frequency=0) is ignored: the restored solver keeps the saved frequency and writes into the original directory", dict(checkpoint_frequency_override=0, saved_frequency=2), dict(frequency=r0.checkpoint_frequency, listing=sorted(os.listdir(d))), dict(frequency=0, listing=listing))
    # error paths
    R.case(("errors",), None); e = os.path.join(base, "c10_empty"); os.makedirs(e)
    try: VI.restore(e); R.fail("c10.no_config_error", "restore() of a directory without config.yaml did not raise", dict(dir="empty"))
    except FileNotFoundError: pass
    except Exception as ex: R.fail("c10.no_config_error", f"wrong exception {type(ex).__name__}", dict(dir="empty"))
    shutil.copy(os.path.join(d, "config.yaml"), e)
    try: VI.restore(e); R.fail("c10.no_checkpoint_error", "restore() of a directory without completed checkpoint did not raise", dict(dir="config only"))
    except ValueError: pass
    except Exception as ex: R.fail("c10.no_checkpoint_error", f"wrong exception {type(ex).__name__}: {ex}", dict(dir="config only"))
    # a checkpoint directory that an earlier run with ANOTHER configuration already used: restore() rebuilds the solver that wrote last
    try:
        dd = os.path.join(base, "c10_reused"); R.case(("reused_directory",), dict(history="VI(gamma 0.5, Forest p=0.1) writes into D and finishes; VI(gamma 0.95, Forest p=0.3) writes into the same D; restore(D)"))
        a1 = VI(Forest(S=6, p=0.1), gamma=0.5, epsilon=0.1, verbose=0, checkpoint_dir=dd, checkpoint_frequency=1, enable_async_checkpointing=False); a1.solve(2); wait(a1); a1.checkpoint_manager.close()
        a2 = VI(Forest(S=6, p=0.3), gamma=0.95, epsilon=1e-6, verbose=0, checkpoint_dir=dd, checkpoint_frequency=1, enable_async_checkpointing=False); a2.solve(4); wait(a2)
        r = VI.restore(dd, new_checkpoint_dir=dd + "_r")
        got = dict(gamma=float(r.gamma), epsilon=float(r.epsilon), p=float(r.problem.p), iteration=int(r.iteration)); want = dict(gamma=0.95, epsilon=1e-6, p=0.3, iteration=4)
        if got != want or not np.array_equal(np.asarray(r.values), np.asarray(a2.values)):
            R.fail("c10.restored_config_is_the_saving_solvers", "restore() of a directory that an earlier run had used rebuilds a solver / problem with another configuration than the one that wrote the restored state", dict(history="two runs, one directory"), got, want)
    except Exception as ex: R.fail("c10.restored_config_is_the_saving_solvers", f"re-used directory: {type(ex).__name__}", dict(history="two runs, one directory"), str(ex)[:200])
    # load_checkpoint for a hand-built solver on a problem without configuration
    from tabular import Tab, rand_mdp
    ns, rr, pp = rand_mdp(rng, 6, 2, 2); d = os.path.join(base, "c10_tab")
    for cls, kw in [(VI, dict(gamma=0.9, epsilon=1e-9)), (RVI, dict(epsilon=1e-9)), (PVI, dict(period=2, gamma=0.9, epsilon=1e-9))]:
        dd = d + cls.__name__; s = cls(Tab(ns, rr, pp), verbose=0, checkpoint_dir=dd, checkpoint_frequency=1, max_checkpoints=2, **kw); s.solve(3); wait(s); R.case(("load_checkpoint", cls.__name__), None)
        if os.path.exists(os.path.join(dd, "config.yaml")): R.fail("c12.config_only_when_reconstructible", "config.yaml written for a problem without configuration", dict(solver=cls.__name__))
        own = os.path.join(base, "c10_tab_own" + cls.__name__); h = cls(Tab(ns, rr, pp), verbose=0, checkpoint_dir=own, checkpoint_frequency=1, **kw); h.load_checkpoint(dd)
        bad = same_state(state_of(s), state_of(h), skip=("policy",))
        if bad: R.fail("c10.load_checkpoint_state_equal", f"load_checkpoint differs in {bad}", dict(solver=cls.__name__))
        if str(h.checkpoint_dir) != own: R.fail("c10.load_checkpoint_keeps_own_dir", "load_checkpoint changed the solver's own checkpoint directory", dict(solver=cls.__name__))
    # history solve; solve; restore  (stored policy of the first call)
    d = os.path.join(base, "c10_policy"); s = VI(Forest(S=11, p=0.2), verbose=0, gamma=0.95, epsilon=1e-9, checkpoint_dir=d, checkpoint_frequency=1); s.solve(2); s.solve(2); wait(s); R.case(("solve;solve;restore",), None)
    r = VI.restore(d); bad = same_state(state_of(s), state_of(r))
    if bad: R.fail("c10.stored_policy_restored", f"state saved during a second solve() call is not restored completely: {bad}", dict(solver="vi", history="solve(2); solve(2); restore()"), {x: None if state_of(r)[x] is None else "array" for x in bad})
    return R

# ----------------------------------------------------------------------------------------------------------------- C12
def c12():
    R = Report("c12_runtime", "C12", "Forest x 5 solvers x (frequency, retention, sync/async) x call sequences solve(k1); solve(k2); directory listing after wait_until_finished vs the documented cadence/retention; per-step content; f = 0")
    for name, (cls, kw) in SOLVERS.items():
        ref = cls(Forest(S=11, p=0.2), verbose=0, **kw); nref = int(ref.solve(400).info.iteration)
        # incl. runs that END BY CONVERGENCE at iteration N with N = f+1, N = f, N = f+2 and f = 1 (periodic save right before / at / two before the stop)
        conv = [(1, 3, False, [400]), (max(nref - 1, 1), 2, False, [400]), (nref, 2, True, [400]), (max(nref - 2, 1), 3, False, [400]), (2, 2, False, [400]), (3, 2, False, [1, 400])]
        for (f, m, asyn, calls) in [(1, 1, True, [2]), (2, 2, False, [3, 2]), (3, 5, True, [min(7, nref - 1), 400])] + conv + ([(4, 1, False, [4, 4]), (2, 3, True, [1, 1, 1])] if TH else []):
            d = os.path.join(base, f"c12_{name}_{f}_{m}_{len(calls)}_{calls[0]}"); s = cls(Forest(S=11, p=0.2), verbose=0, checkpoint_dir=d, checkpoint_frequency=f, max_checkpoints=m, enable_async_checkpointing=asyn, **kw)
            inp = dict(solver=name, frequency=f, max_checkpoints=m, async_=asyn, calls=calls); R.case((name, f, m, asyn, tuple(calls)), inp)
            allowed = set(); it = 0; ok = True
            for k in calls:
                if it >= nref: break
                st = s.solve(k); wait(s); end = int(st.info.iteration)
                converged = end < it + k
                allowed |= {j for j in range(it + 1, end + 1) if j % f == 0 and not (converged and j == end and False)} | {end}; it = end
                exp = sorted(allowed)[-m:]
                if steps(d) != exp: R.fail("c12.cadence_retention", "directory listing differs from the documented cadence / retention", dict(inp, after_iteration=end), steps(d), exp); ok = False; break
            if ok:
                j = steps(d)[0]; rj = cls.restore(d, step=j, new_checkpoint_dir=os.path.join(base, "c12_tmp_" + name)); ind = cls(Forest(S=11, p=0.2), verbose=0, **kw); ind.solve(j)
                if int(rj.iteration) != j or not np.array_equal(np.asarray(rj.values), np.asarray(ind.values)): R.fail("c12.step_content", "a retained step does not contain the solver state of that iteration", dict(inp, step=j))
                if not os.path.exists(os.path.join(d, "config.yaml")): R.fail("c12.config_present", "config.yaml missing although solver and problem are reconstructible", inp)
    d = os.path.join(base, "c12_off"); s = VI(Forest(S=5), verbose=0, gamma=0.9, checkpoint_dir=d, checkpoint_frequency=0); s.solve(3); R.case(("f=0",), dict(frequency=0))
    if os.path.exists(d): R.fail("c12.disabled_writes_nothing", "checkpoint_frequency=0 created the directory", dict(frequency=0))
    # a hand-written problem WITHOUT any configuration (attribute absent) solved with a solver configuration whose embedded problem entry describes ANOTHER, built-in problem:
    # not reconstructible from configuration -> no config.yaml, restore() refuses the directory
    from mdpax.solvers.value_iteration import ValueIterationConfig
    from mdpax.problems.forest import ForestConfig
    class PlainForest(Forest):
        def __init__(self, **kw):
            super().__init__(**kw); del self.config
    d = os.path.join(base, "c12_plain"); R.case(("configless_problem_with_stale_embedded_config",), dict(problem="Forest subclass without a config attribute", solver_config="ValueIterationConfig(problem=ForestConfig(S=4), checkpoint_frequency=2)"))
    s = VI(problem=PlainForest(S=6), config=ValueIterationConfig(problem=ForestConfig(S=4), checkpoint_dir=d, checkpoint_frequency=2, max_checkpoints=2, verbose=0)); s.solve(4); wait(s)
    if os.path.exists(os.path.join(d, "config.yaml")):
        R.fail("c12.config_absent_when_not_reconstructible", "config.yaml written although the problem instance carries no configuration (the file describes another problem)", dict(problem="Forest subclass without a config attribute, S=6", solver_config="embedded problem entry: ForestConfig(S=4)"), "config.yaml present", "absent")
    # restore of an OLDER step into the same directory, then continue
    d = os.path.join(base, "c12_old"); s = VI(Forest(S=11, p=0.2), verbose=0, gamma=0.95, epsilon=1e-12, checkpoint_dir=d, checkpoint_frequency=5, max_checkpoints=5); s.solve(17); wait(s); R.case(("restore_older_same_dir",), None)
    before = steps(d); r = VI.restore(d, step=10); r.solve(3); wait(r)
    if 13 not in steps(d): R.fail("c12.last_iteration_always_saved", "last iteration of the most recent solve() call is not among the checkpoints", dict(history="solve(17) f=5 m=5; restore(step=10) same directory; solve(3)", steps_before=before, restored_step=10, same_directory=True), steps(d), "13 present")
    return R

try:
    try: rep = {"c09": c09, "c10": c10, "c12": c12}[a.prop]()
    except Exception as ex:        # an exception escaping from the code under test is a failing case, not a harness crash
        import traceback
        rep = Report(f"{a.prop}_runtime", a.prop.upper(), "aborted"); rep.evaluations = 1
        rep.fail(f"{a.prop}.code_under_test_raised", f"{type(ex).__name__} raised by the code under test", {"see": "traceback"}, traceback.format_exc()[-900:], "no exception")
    rep.write(a.out)
finally:
    shutil.rmtree(base, ignore_errors=True)
