"""Table-driven Problem subclass + independent NumPy reference functions (used by replayers and run-time contract harnesses).
Runs under /venv/bin/python with the real mdpax."""
import numpy as np
import jax, jax.numpy as jnp

jax.config.update("jax_enable_x64", True)
from mdpax.core.problem import Problem  # noqa: E402


class Tab(Problem):
    """Finite MDP given by tables ns[s,a,e] (successor), r[s,a,e], p[s,a,e].  States are 1- or 2-component vectors
    (index = first component), actions 2-component vectors, so that vector plumbing is exercised."""

    def __init__(self, ns, r, p, v0=None, pol0=None, sdim=1, prob_as_array=False, half_units=False, real_events=False):
        self.real_events = real_events          # random events are REAL-valued levels 0.6, 1.6, 2.6, ... (integer actions, float events: dtypes differ)
        self.ns, self.r, self.p = jnp.array(ns), jnp.array(r, dtype=jnp.float64), jnp.array(p, dtype=jnp.float64)
        self.N, self.A, self.E = np.asarray(ns).shape
        # integer-valued initial estimates stay INTEGER-typed (a problem may return `0` or `-state[0]` from initial_value): buffers sized "like the values" must still hold floats later
        self.v0 = None if v0 is None else (jnp.array(v0) if np.asarray(v0).dtype.kind in "iu" else jnp.array(v0, dtype=jnp.float64))
        self.pol0 = None if pol0 is None else jnp.array(pol0)
        self.sdim = sdim; self.prob_as_array = prob_as_array
        self.half_units = half_units          # states are levels in half units (float state vectors 0.0, 0.5, 1.0, ...): the library allows float states
        super().__init__()

    @property
    def name(self): return "tab"
    def _k(self, s): return jnp.round(2 * s[0]).astype(jnp.int32) if self.half_units else s[0]
    def _construct_state_space(self):
        i = jnp.arange(self.N)
        if self.half_units: return (0.5 * i).reshape(-1, 1)
        return jnp.stack([i, 7 - i % 3], axis=1) if self.sdim == 2 else i.reshape(-1, 1)
    def _construct_action_space(self): return jnp.stack([jnp.arange(self.A), jnp.arange(self.A) % 2], axis=1)
    def _construct_random_event_space(self): return (jnp.arange(self.E) + 0.6).reshape(-1, 1) if self.real_events else jnp.arange(self.E).reshape(-1, 1)
    def _e(self, e): return (jnp.round(e[0]).astype(jnp.int32) - 1) if self.real_events else e[0]          # levels 0.6, 1.6, 2.6 -> 0, 1, 2 (a truncated level maps elsewhere)
    def state_to_index(self, s): return self._k(s)
    def random_event_probability(self, s, a, e):
        v = self.p[self._k(s), a[0], self._e(e)]
        return v.reshape(1) if self.prob_as_array else v
    def transition(self, s, a, e):
        k = self._k(s); ei = self._e(e); n = self.ns[k, a[0], ei]
        if self.half_units: return (0.5 * n).reshape(1), self.r[k, a[0], ei]
        return (jnp.array([n, 7 - n % 3]) if self.sdim == 2 else n.reshape(1)), self.r[k, a[0], ei]
    def initial_value(self, s): return (0 if getattr(self, "int_zero", False) else 0.0) if self.v0 is None else self.v0[self._k(s)]
    def initial_policy(self, s):
        if self.pol0 is None: raise NotImplementedError
        return self.pol0[self._k(s)]


def rand_mdp(rng, N, A, E, unichain=False):
    ns = rng.integers(0, N, (N, A, E)); r = rng.normal(0, 3, (N, A, E)).round(2)
    p = rng.random((N, A, E)) + 0.05; p /= p.sum(-1, keepdims=True)
    if unichain and E >= 1:
        ns[:, :, 0] = 0            # every (s,a) reaches state 0 with positive probability: unichain and aperiodic (0 -> 0 possible)
    return ns, r, p


def Qf(ns, r, p, g, V): return (p * (r + g * np.asarray(V)[ns])).sum(-1)
def bellman(ns, r, p, g, V): return Qf(ns, r, p, g, V).max(1)
def span(x): return float(np.max(x) - np.min(x))


def matrices(ns, r, p):
    N, A, E = ns.shape
    P = np.zeros((A, N, N)); R = (p * r).sum(-1)
    for s in range(N):
        for a in range(A):
            for e in range(E): P[a, s, ns[s, a, e]] += p[s, a, e]
    return P, R


def optimal_values(ns, r, p, g, tol=1e-13, iters=200000):
    V = np.zeros(ns.shape[0])
    for _ in range(iters):
        Vn = bellman(ns, r, p, g, V)
        if np.abs(Vn - V).max() < tol: return Vn
        V = Vn
    return V


def policy_value(ns, r, p, g, pol):
    P, R = matrices(ns, r, p); N = R.shape[0]; pol = np.asarray(pol).astype(int)
    Pd = P[pol, np.arange(N)]; rd = R[np.arange(N), pol]
    return np.linalg.solve(np.eye(N) - g * Pd, rd)


def policy_gain(ns, r, p, pol):
    """long-run average reward of a stationary policy on a unichain MDP (stationary distribution)"""
    P, R = matrices(ns, r, p); N = R.shape[0]; pol = np.asarray(pol).astype(int)
    Pd = P[pol, np.arange(N)]; rd = R[np.arange(N), pol]
    Amat = np.vstack([Pd.T - np.eye(N), np.ones((1, N))]); b = np.zeros(N + 1); b[-1] = 1
    mu = np.linalg.lstsq(Amat, b, rcond=None)[0]
    return float(mu @ rd)


def optimal_gain_lp(ns, r, p):
    """optimal average reward of a unichain MDP by linear programming (scipy), independent of value iteration"""
    from scipy.optimize import linprog
    P, R = matrices(ns, r, p); A, N, _ = P.shape
    # minimise g  s.t.  g + h(s) - sum_s' P(a,s,s') h(s') >= R(s,a)
    c = np.zeros(N + 1); c[0] = 1.0; Aub = []; bub = []
    for s in range(N):
        for a in range(A):
            row = np.zeros(N + 1); row[0] = -1.0; row[1 + s] -= 1.0; row[1:] += P[a, s]
            Aub.append(row); bub.append(-R[s, a])
    res = linprog(c, A_ub=np.array(Aub), b_ub=np.array(bub), bounds=[(None, None)] * (N + 1), method="highs")
    return float(res.x[0])
