"""Run-time contract checks of the solver-level properties on random tabular MDPs (real code, real JAX; BOUNDED stand-in /
conformance run / replay search -- never counted as proved).   usage: harness_solvers.py --prop c02|c08|c01|c04|c05|c06|c07|c17 ..."""
import numpy as np, jax, jax.numpy as jnp, jax.random as jr
from hlib import args, Report
from tabular import *
from mdpax.solvers import ValueIteration as VI, PolicyIteration as PI, RelativeValueIteration as RVI, PeriodicValueIteration as PVI, SemiAsyncValueIteration as SA

a = args(); rng = np.random.default_rng(a.seed); TH = a.tier == "thorough"
TOL = 1e-9
def close(x, y, tol=TOL): return np.allclose(np.asarray(x, dtype=float), np.asarray(y, dtype=float), rtol=tol, atol=tol)
def mdps(n, lo=2, hi=9, unichain=False):
    for t in range(n):
        N, A, E = int(rng.integers(lo, hi)), int(rng.integers(1, 4)), int(rng.integers(1, 4))
        if t == 0: A, E = 1, 1                   # degenerate corner: one action, one event
        ns, r, p = rand_mdp(rng, N, A, E, unichain=unichain)
        yield t, N, A, E, ns, r, p
def batch_sizes(N): return sorted({1, 2, 3, N, N + 3}) if TH else sorted({1, 3, N + 3})
def desc(N, A, E, **k): return dict(N=N, A=A, E=E, **k)
def tables(ns, r, p): return {"next": ns.tolist(), "reward": r.tolist(), "prob": p.round(6).tolist()}

def gs_reference(ns, r, p, g, cur, perm, bsz, nb):
    carry = np.array(cur, dtype=float); new = np.zeros(len(cur))
    for b in range(nb):
        rows = perm[b * bsz:(b + 1) * bsz]
        if len(rows) == 0: continue
        vals = bellman(ns, r, p, g, carry)[rows]; new[rows] = vals; carry[rows] = vals
    return new

# ----------------------------------------------------------------------------------------------------------------- C02
def c02_report(): return Report("c02_runtime", "C02", "random tabular MDPs (N<9, A,E<=3, 1- and 2-component states, scalar and (1,)-array probabilities) x batch sizes {1,3,N+3}(+{2,N}); distinct = (sizes, batch size, representation)")
def c02(R):
    for t, N, A, E, ns, r, p in mdps(8 if TH else 4):
        v0 = rng.normal(0, 5, N); g = float(rng.choice([0.9, 0.5, 1.0]))
        for bs in batch_sizes(N):
            sdim = 1 + (t + bs) % 2; paa = bool((t + bs) % 3 == 0); half = bool((t + bs) % 4 == 1)      # some problems with float (half-unit) state vectors
            if half: sdim = 1
            prob = Tab(ns, r, p, v0, sdim=sdim, prob_as_array=paa, half_units=half)
            s = VI(prob, gamma=g, epsilon=1e-6, verbose=0, max_batch_size=bs)
            V = rng.normal(0, 4, N); inp = desc(N, A, E, gamma=g, max_batch_size=bs, state_dim=sdim, prob_as_array=paa, half_unit_float_states=half, V=V, **tables(ns, r, p))
            R.case((N, A, E, bs, sdim, paa, half), {k: inp[k] for k in ("N", "A", "E", "gamma", "max_batch_size")})
            out = np.asarray(s._update_values(s.batched_states, prob.action_space, prob.random_event_space, s.gamma, jnp.array(V)))
            Qm = Qf(ns, r, p, g, V)
            if out.shape != (N,) or not close(out, Qm.max(1)): R.fail("c02.sweep_is_bellman_backup", "sweep != max_a sum_e p (r + gamma V[idx(next)])", inp, out, Qm.max(1))
            s.values = jnp.array(V); pol = np.asarray(s._extract_policy())
            ok = pol.shape == (N, 2) and all(0 <= pol[i, 0] < A and pol[i, 1] == pol[i, 0] % 2 and abs(Qm[i, int(pol[i, 0])] - Qm[i].max()) <= 1e-9 * max(1, abs(Qm[i].max())) for i in range(N))
            if not ok: R.fail("c02.policy_greedy", "extracted policy is not an action vector attaining the maximum", inp, pol, Qm.argmax(1))
            if not close(np.asarray(s.__class__(prob, gamma=g, verbose=0, max_batch_size=bs).values), v0): R.fail("c08.initial_values", "initial values != initial_value(state)", inp)
    # "for any problem": event weights that do NOT sum to one (mass depending on state and action, e.g. termination modelled as missing mass) are used as they are
    for t in range(3 if TH else 2):
        N, A, E = int(rng.integers(2, 7)), int(rng.integers(2, 4)), int(rng.integers(2, 4)); ns, r, p = rand_mdp(rng, N, A, E); p = p * rng.uniform(0.3, 1.0, (N, A, 1))
        g = 0.9; V = rng.normal(0, 4, N); prob = Tab(ns, r, p); s = VI(prob, gamma=g, epsilon=1e-6, verbose=0, max_batch_size=3)
        inp = desc(N, A, E, gamma=g, max_batch_size=3, note="event probabilities sum to less than one, by a state- and action-dependent factor", V=V, **tables(ns, r, p)); R.case((N, A, E, "substochastic", t), {k: inp[k] for k in ("N", "A", "E", "note")})
        out = np.asarray(s._update_values(s.batched_states, prob.action_space, prob.random_event_space, s.gamma, jnp.array(V))); Qm = Qf(ns, r, p, g, V)
        if out.shape != (N,) or not close(out, Qm.max(1)): R.fail("c02.sweep_is_bellman_backup", "sweep != max_a sum_e p (r + gamma V[idx(next)]) for event weights that do not sum to one", inp, out, Qm.max(1))
        s.values = jnp.array(V); pol = np.asarray(s._extract_policy())
        if not all(abs(Qm[i, int(pol[i, 0])] - Qm[i].max()) <= 1e-9 * max(1, abs(Qm[i].max())) for i in range(N)): R.fail("c02.policy_greedy", "extracted policy does not attain the maximum of sum_e p (r + gamma V) (weights not summing to one)", inp, pol[:, 0], Qm.argmax(1))
    # real-valued random events with integer actions (the event space and the action space have different dtypes)
    for t in range(2):
        N, A, E = int(rng.integers(3, 8)), 2, 3; ns, r, p = rand_mdp(rng, N, A, E); g = 0.9; V = rng.normal(0, 4, N)
        for cls_, kw_ in ((VI, {}), (PVI, dict(period=2))):
            prob = Tab(ns, r, p, real_events=True); s = cls_(prob, gamma=g, epsilon=1e-6, verbose=0, max_batch_size=4, **kw_)
            inp = desc(N, A, E, gamma=g, max_batch_size=4, solver=cls_.__name__, note="events are the real levels 0.6, 1.6, 2.6; actions are integers", V=V, **tables(ns, r, p)); R.case((N, A, E, "real_events", cls_.__name__, t), {k: inp[k] for k in ("N", "solver", "note")})
            out = np.asarray(s._update_values(s.batched_states, prob.action_space, prob.random_event_space, s.gamma, jnp.array(V))); Qm = Qf(ns, r, p, g, V)
            if out.shape != (N,) or not close(out, Qm.max(1)): R.fail("c02.sweep_is_bellman_backup", "sweep != max_a sum_e p (r + gamma V[idx(next)]) for real-valued events", inp, out, Qm.max(1))
    # more states than the DEFAULT batch size (1024) and not a multiple of it, default options throughout: tables from the problem's own functions
    from mdpax.problems import Forest as _Forest
    fp = _Forest(S=1100, r1=40.0, p=0.1); g = 0.95
    f_t = jax.vmap(jax.vmap(jax.vmap(fp.transition, in_axes=(None, None, 0)), in_axes=(None, 0, None)), in_axes=(0, None, None))
    f_p = jax.vmap(jax.vmap(jax.vmap(fp.random_event_probability, in_axes=(None, None, 0)), in_axes=(None, 0, None)), in_axes=(0, None, None))
    nxt, rew = f_t(fp.state_space, fp.action_space, fp.random_event_space); prb = np.asarray(f_p(fp.state_space, fp.action_space, fp.random_event_space)); prb = prb.reshape(prb.shape[:3])
    idx = np.asarray(jax.vmap(jax.vmap(jax.vmap(fp.state_to_index)))(nxt)); rew = np.asarray(rew).reshape(prb.shape); V = rng.normal(0, 4, 1100)
    sv = VI(fp, gamma=g, epsilon=1e-6, verbose=0); out = np.asarray(sv._update_values(sv.batched_states, fp.action_space, fp.random_event_space, sv.gamma, jnp.array(V))); Qm = (prb * (rew + g * V[idx])).sum(-1)
    inp = dict(problem="Forest(S=1100, r1=40, p=0.1)", gamma=g, max_batch_size="default (1024)", n_batches=int(sv.batch_processor.n_batches), n_pad=int(sv.batch_processor.n_pad)); R.case(("forest1100",), inp)
    if out.shape != (1100,) or not close(out, Qm.max(1)): R.fail("c02.sweep_is_bellman_backup", "sweep != max_a sum_e p (r + gamma V[idx(next)]) for 1100 states with the default batch size", inp, float(np.abs(out - Qm.max(1)).max()) if out.shape == (1100,) else out.shape, 0.0)
    sv.values = jnp.array(V); pol = np.asarray(sv._extract_policy())
    if pol.shape[0] != 1100 or not all(abs(Qm[i, int(pol[i, 0])] - Qm[i].max()) <= 1e-9 * max(1, abs(Qm[i].max())) for i in range(1100)): R.fail("c02.policy_greedy", "extracted policy does not attain the maximum (1100 states, default batch size)", inp)
    # a problem with more than 256 (and more than 2**16 is out of reach) actions: index arithmetic must not be narrowed
    N, A, E = 3, 300, 1; ns = rng.integers(0, N, (N, A, E)); r = rng.normal(0, 3, (N, A, E)).round(2); r[:, 280:, :] += 50.0; p = np.ones((N, A, E))
    prob = Tab(ns, r, p); s = VI(prob, gamma=0.9, epsilon=1e-6, verbose=0, max_batch_size=2); V = rng.normal(0, 4, N); s.values = jnp.array(V); pol = np.asarray(s._extract_policy()); Qm = Qf(ns, r, p, 0.9, V)
    inp = desc(N, A, E, gamma=0.9, note="300 actions, the best ones have index >= 280", V=V); R.case((N, A, E, "many_actions"), inp)
    if not all(0 <= pol[i, 0] < A and abs(Qm[i, int(pol[i, 0])] - Qm[i].max()) <= 1e-9 * max(1, abs(Qm[i].max())) for i in range(N)):
        R.fail("c02.policy_greedy", "extracted policy is not an action vector attaining the maximum (more than 256 actions)", inp, pol[:, 0], Qm.argmax(1))
    return R

# ----------------------------------------------------------------------------------------------------------------- C08
def reference_run(kind, ns, r, p, g, eps, v0, k, P=None, test="span", bsz=None, nb=None):
    """independent reference of the documented iteration + stopping rule; returns (iteration, values, extra)"""
    N = len(v0); Vs = [np.array(v0, dtype=float)]; gain = float(v0[-1]); thr = eps * (1 - g) / g if (g != 1 and kind in ("vi", "sa")) else eps
    for n in range(1, k + 1):
        if kind == "vi": new = bellman(ns, r, p, g, Vs[-1])
        elif kind == "sa": new = gs_reference(ns, r, p, g, Vs[-1], np.arange(N), bsz, nb)
        elif kind == "rvi": new = bellman(ns, r, p, 1.0, Vs[-1]) - gain
        elif kind == "pvi": new = bellman(ns, r, p, g, Vs[-1])
        d = new - Vs[-1]
        if kind == "rvi": gain = float(new[-1])
        Vs.append(new)
        if kind == "pvi":
            if n < P: m = np.inf
            elif g == 1.0: m = span(Vs[n] - Vs[n - P])
            else: m = span(sum((Vs[j] - Vs[j - 1]) / g ** (j - 1) for j in range(n - P + 1, n + 1)))
        else: m = span(d) if test == "span" else float(np.abs(d).max())
        if m < thr: return n, new, dict(gain=gain, converged=True)
    return k, Vs[-1], dict(gain=gain, converged=False)

def make(kind, prob, g, eps, bs, test="span", P=None):
    if kind == "vi": return VI(prob, gamma=g, epsilon=eps, verbose=0, max_batch_size=bs, convergence_test=test)
    if kind == "sa": return SA(prob, gamma=g, epsilon=eps, verbose=0, max_batch_size=bs, convergence_test=test, shuffle_states=False)
    if kind == "rvi": return RVI(prob, epsilon=eps, verbose=0, max_batch_size=bs)
    if kind == "pvi": return PVI(prob, period=P, gamma=g, epsilon=eps, verbose=0, max_batch_size=bs, clear_value_history_on_convergence=False)

def c08_report(): return Report("c08_runtime", "C08", "random tabular MDPs x {VI span, VI max_diff, semi-async fixed order, RVI, periodic (gamma=1 and <1)} x budgets k and splits k1+k2; reference iteration in NumPy; distinct = (solver, sizes, budget)")
def c08(R):
    for t, N, A, E, ns, r, p in mdps(5 if TH else 3, unichain=True):
        v0 = rng.normal(0, 3, N)
        for kind, g, test, P in [("vi", 0.9, "span", None), ("vi", 0.8, "max_diff", None), ("sa", 0.9, "max_diff", None), ("sa", 0.85, "span", None), ("rvi", 1.0, "span", None), ("pvi", 1.0, "span", 2), ("pvi", 0.9, "span", 3)]:
            eps = float(rng.choice([0.5, 0.05])); bs = int(rng.choice(batch_sizes(N)))
            prob = Tab(ns, r, p, v0)
            s = make(kind, prob, g, eps, bs, test, P); bsz, nb = s.batch_processor.batch_size, s.batch_processor.n_batches
            for k in ([1, 4, 60] if TH else [3, 60]):
                s = make(kind, prob, g, eps, bs, test, P)
                inp = desc(N, A, E, solver=kind, gamma=g, epsilon=eps, test=test, period=P, max_batch_size=bs, max_iterations=k, v0=v0, **tables(ns, r, p)); R.case((kind, N, A, E, k, test, P, bs), {x: inp[x] for x in ("solver", "N", "gamma", "epsilon", "max_iterations")})
                st = s.solve(k); it, V, ex = reference_run(kind, ns, r, p, g, eps, v0, k, P, test, bsz, nb)
                if int(st.info.iteration) != it: R.fail("c08.stop_iteration", "solve() stopped at a different iteration than the documented rule", inp, int(st.info.iteration), it); continue
                if not close(st.values, V, 1e-8): R.fail("c08.values_are_reference_iterates", "returned values != that many reference backups of the initial values", inp, np.asarray(st.values), V); continue
                if kind == "rvi" and not (abs(float(st.info.gain) - ex["gain"]) <= 1e-8): R.fail("c08.gain_trajectory", "gain differs from the reference iteration", inp, float(st.info.gain), ex["gain"])
                if not ex["converged"] and k >= 3:               # composability: solve(k1) then solve(k2) == solve(k1+k2) when the first call hit its limit
                    k1 = max(1, k // 3); s2 = make(kind, prob, g, eps, bs, test, P); s2.solve(k1); st2 = s2.solve(k - k1)
                    if int(st2.info.iteration) != it or not close(st2.values, V, 1e-8) or not np.array_equal(np.asarray(st2.policy), np.asarray(st.policy)):
                        R.fail("c08.composable", "solve(k1); solve(k2) differs from solve(k1+k2)", dict(inp, k1=k1), dict(iteration=int(st2.info.iteration)), dict(iteration=it))
    c08_shuffle(R); c08_thresholds(R)
    return R

def c08_thresholds(R):
    """the documented threshold for every gamma in (0, 1], in particular discount factors very close to one (a tolerance test for `gamma == 1` would be wrong there)"""
    ns = np.array([[[0]], [[0]]]); r = np.array([[[1.0]], [[0.5]]]); p = np.ones((2, 1, 1)); eps = 0.01
    for g in (0.5, 0.999, 0.99999, 0.999999, 1 - 1e-9, 1.0):
        for kind, mk in (("vi", lambda t: VI(Tab(ns, r, p), gamma=g, epsilon=eps, verbose=0, convergence_test=t)), ("pi", lambda t: PI(Tab(ns, r, p), gamma=g, epsilon=eps, verbose=0, convergence_test=t)),
                         ("sa", lambda t: SA(Tab(ns, r, p), gamma=g, epsilon=eps, verbose=0, convergence_test=t))):
            for test in ("span", "max_diff"):
                thr = float(mk(test).conv_threshold); want = eps if g == 1.0 else eps * (1 - g) / g
                inp = dict(solver=kind, gamma=g, epsilon=eps, test=test); R.case(("threshold", kind, g, test), inp)
                if not (abs(thr - want) <= 1e-6 * want): R.fail("c08.threshold", "convergence threshold differs from the documented epsilon*(1-gamma)/gamma (epsilon when gamma is exactly 1)", inp, thr, want)
def c08_shuffle(R):
    """composability with the shuffled update order: the PRNG key is carried state (no reference iteration needed: solve(k1); solve(k2) vs solve(k1+k2))"""
    for t, N, A, E, ns, r, p in mdps(2, lo=6, hi=12):
        v0 = rng.normal(0, 3, N); seed = int(rng.integers(0, 1000)); bs = 2
        mk = lambda: SA(Tab(ns, r, p, v0), gamma=0.95, epsilon=1e-12, verbose=0, max_batch_size=bs, shuffle_states=True, random_seed=seed)
        a_ = mk(); a_.solve(3); sa = a_.solve(4); b_ = mk(); sb = b_.solve(7)
        inp = desc(N, A, E, solver="sa", shuffle=True, seed=seed, max_batch_size=bs, calls=[3, 4], v0=v0, **tables(ns, r, p)); R.case(("sa_shuffle", N, A, E, seed), None)
        if int(sa.info.iteration) != int(sb.info.iteration) or not close(sa.values, sb.values, 1e-10):
            R.fail("c08.composable", "shuffled semi-async: solve(3); solve(4) differs from solve(7)", inp, np.asarray(sa.values), np.asarray(sb.values))
    # policy iteration (both settings of reset_values_for_each_policy_eval, small evaluation budget so that the starting point of an evaluation matters)
    for t, N, A, E, ns, r, p in mdps(4, lo=4, hi=9):
        if A < 2: ns, r, p = rand_mdp(rng, N, 3, max(E, 2)); A, E = 3, max(E, 2)
        v0 = rng.normal(0, 3, N)
        for reset in (False, True):
            mk = lambda: PI(Tab(ns, r, p, v0), gamma=0.9, epsilon=1e-10, verbose=0, max_eval_iter=3, reset_values_for_each_policy_eval=reset)
            b_ = mk(); sb = b_.solve(3)
            if int(sb.info.iteration) <= 1: continue          # the single run is policy-stable after its first iteration: a first call solve(1) would stop BY CONVERGENCE (excluded by the property's proviso)
            a_ = mk(); a_.solve(1); sa = a_.solve(2)
            inp = desc(N, A, E, solver="pi", reset_values_for_each_policy_eval=reset, max_eval_iter=3, calls=[1, 2], v0=v0, **tables(ns, r, p)); R.case(("pi_compose", N, A, E, reset), None)
            if int(sa.info.iteration) != int(sb.info.iteration) or not close(sa.values, sb.values, 1e-10) or not np.array_equal(np.asarray(sa.policy), np.asarray(sb.policy)):
                R.fail("c08.composable", "policy iteration: solve(1); solve(2) differs from solve(3)", inp, np.asarray(sa.values), np.asarray(sb.values))
# ----------------------------------------------------------------------------------------------------------------- C01
def c01_report(): return Report("c01_runtime", "C01", "random tabular MDPs x {VI span, VI max_diff, PI span, PI max_diff, semi-async max_diff (fixed + shuffled)}; exact policy evaluation by linear solve; distinct = (solver, sizes)")
def c01(R):
    for t, N, A, E, ns, r, p in mdps(6 if TH else 3):
        g = float(rng.choice([0.9, 0.6, 0.95])); eps = float(rng.choice([1e-2, 1e-3])); v0 = rng.normal(0, 5, N); vstar = optimal_values(ns, r, p, g)
        for kind, test in [("vi", "span"), ("vi", "max_diff"), ("pi", "span"), ("pi", "max_diff"), ("sa", "max_diff"), ("sa_shuffle", "max_diff")]:
            bs = int(rng.choice(batch_sizes(N))); prob = Tab(ns, r, p, v0, pol0=np.stack([rng.integers(0, A, N), np.zeros(N, dtype=int)], 1) if (kind == "pi" and t % 2) else None)
            mei = int(rng.choice([1, 2, 400])) if kind == "pi" else None
            if kind == "vi": s = VI(prob, gamma=g, epsilon=eps, verbose=0, max_batch_size=bs, convergence_test=test); bound = eps if test == "span" else 2 * eps
            elif kind == "pi": s = PI(prob, gamma=g, epsilon=eps, verbose=0, max_batch_size=bs, convergence_test=test, max_eval_iter=mei); bound = eps / g if test == "span" else 2 * eps / g
            else: s = SA(prob, gamma=g, epsilon=eps, verbose=0, max_batch_size=bs, convergence_test=test, shuffle_states=kind == "sa_shuffle", random_seed=int(rng.integers(0, 100))); bound = 2 * g * eps / (1 - g)
            st = s.solve(3000); inp = desc(N, A, E, solver=kind, test=test, gamma=g, epsilon=eps, max_batch_size=bs, max_eval_iter=mei, v0=v0, **tables(ns, r, p)); R.case((kind, test, N, A, E, mei), {x: inp[x] for x in ("solver", "test", "N", "gamma", "epsilon", "max_eval_iter")})
            if int(st.info.iteration) >= 3000: continue           # did not report convergence: nothing claimed
            pol = np.asarray(st.policy)[:, 0]; vd = policy_value(ns, r, p, g, pol); gap = float((vstar - vd).max())
            if kind == "pi":      # did the last policy evaluation meet its own stopping test?  (identifies the known finding C01-pi-eval-budget)
                v = np.asarray(st.values); d = Qf(ns, r, p, g, v)[np.arange(N), pol] - v
                inp["last_evaluation_converged"] = bool((span(d) if test == "span" else float(np.abs(d).max())) < eps * (1 - g) / g)
            if not (gap <= bound * (1 + 1e-6) + 1e-9): R.fail("c01.policy_near_optimal", f"converged policy misses the a-priori bound {bound:.3g}", inp, gap, bound)
            if test == "max_diff":
                if kind == "pi": dv = float(np.abs(np.asarray(st.values) - vd).max()); lim = eps / g; what = "values not within eps/gamma of the policy's own value"
                else: dv = float(np.abs(np.asarray(st.values) - vstar).max()); lim = eps; what = "values not within eps of the optimal values"
                if not (dv <= lim * (1 + 1e-6) + 1e-9): R.fail("c01.values_near", what, inp, dv, lim)
    # value magnitudes far above the action gaps (large reward offset; "regardless of ties": a near-tie is not a tie): ring MDP, moving on is optimal for every offset
    for offset in (0.0, 1e6):
        Nr = 4; ns = np.array([[[s_], [(s_ + 1) % Nr]] for s_ in range(Nr)]); r = np.array([[[offset], [offset + 1 + 0.1 * s_]] for s_ in range(Nr)]); p = np.ones((Nr, 2, 1)); g, eps = 0.9, 0.01
        vstar = optimal_values(ns, r, p, g, tol=1e-9)
        for kind, test in [("vi", "span"), ("pi", "span"), ("pi", "max_diff"), ("sa", "max_diff")]:
            if kind == "vi": s = VI(Tab(ns, r, p), gamma=g, epsilon=eps, verbose=0, convergence_test=test); bound = eps
            elif kind == "pi": s = PI(Tab(ns, r, p), gamma=g, epsilon=eps, verbose=0, convergence_test=test, max_eval_iter=2000); bound = eps / g if test == "span" else 2 * eps / g
            else: s = SA(Tab(ns, r, p), gamma=g, epsilon=eps, verbose=0, convergence_test=test, max_batch_size=2); bound = 2 * g * eps / (1 - g)
            st = s.solve(5000); inp = desc(Nr, 2, 1, solver=kind, test=test, gamma=g, epsilon=eps, reward_offset=offset, note="ring: stay pays offset, move on pays offset + 1 + 0.1 s", **tables(ns, r, p)); R.case((kind, test, "offset", offset), {x: inp[x] for x in ("solver", "test", "reward_offset")})
            if int(st.info.iteration) >= 5000: continue
            pol = np.asarray(st.policy)[:, 0]; gap = float((vstar - policy_value(ns, r, p, g, pol)).max())
            if not (gap <= bound * (1 + 1e-6) + 1e-6 * max(1.0, offset) * 1e-3): R.fail("c01.policy_near_optimal", f"converged policy misses the a-priori bound {bound:.3g} (value magnitude far above the action gaps)", inp, gap, bound)
    # a discount factor very close to (but below) one: whenever convergence is REPORTED the bound must hold.  Start from estimates whose one-step residual is
    # below epsilon but far above the documented threshold epsilon*(1-gamma)/gamma, and for which the greedy choice at state 0 is the wrong one
    g, eps = 0.99999, 0.01; ns = np.array([[[1], [2]], [[1], [1]], [[2], [2]]]); r = np.array([[[0.0], [0.0]], [[1.0], [1.0]], [[0.999], [0.999]]]); p = np.ones((3, 2, 1))
    vstar = np.array([g * 1.0 / (1 - g), 1.0 / (1 - g), 0.999 / (1 - g)]); v0 = np.array([g * 0.999 / (1 - g), 99100.0, 0.999 / (1 - g)])
    for kind, test in [("vi", "span"), ("vi", "max_diff"), ("sa", "max_diff")]:
        if kind == "vi": s = VI(Tab(ns, r, p, v0), gamma=g, epsilon=eps, verbose=0, convergence_test=test); bound = eps if test == "span" else 2 * eps
        else: s = SA(Tab(ns, r, p, v0), gamma=g, epsilon=eps, verbose=0, convergence_test=test); bound = 2 * g * eps / (1 - g)
        st = s.solve(200); inp = desc(3, 2, 1, solver=kind, test=test, gamma=g, epsilon=eps, v0=v0, note="state 0 chooses between two absorbing states paying 1 and 0.999; the better one is underestimated by 900", **tables(ns, r, p)); R.case((kind, test, "gamma_near_one"), {x: inp[x] for x in ("solver", "test", "gamma")})
        if int(st.info.iteration) >= 200: continue          # no convergence claim within the budget: nothing to check
        pol = np.asarray(st.policy)[:, 0]; gap = float((vstar - policy_value(ns, r, p, g, pol)).max())
        if not (gap <= bound * (1 + 1e-6) + 1e-6): R.fail("c01.policy_near_optimal", f"convergence reported at iteration {int(st.info.iteration)} but the policy misses the a-priori bound {bound:.3g} (discount factor close to one)", inp, gap, bound)
    # "on convergence" includes runs that were restored from a checkpoint and continued (the bound is about the state the solver stops in)
    import tempfile, shutil, os
    from mdpax.problems import Forest
    base = tempfile.mkdtemp(prefix="c01_", dir=os.environ.get("VERIF_SCRATCH"))
    try:
        g, eps = 0.9, 1e-3; fp = Forest(S=9, r1=10.0, p=0.15); Pm, Rm = (np.asarray(x) for x in fp.build_transition_and_reward_matrices()); N = Pm.shape[1]
        vs = np.zeros(N)
        for _ in range(100000):
            vn = (Rm + g * np.einsum("asn,n->sa", Pm, vs)).max(1)
            if np.abs(vn - vs).max() < 1e-13: break
            vs = vn
        def pvalue(pol): return np.linalg.solve(np.eye(N) - g * Pm[pol, np.arange(N), :], Rm[np.arange(N), pol])
        for kind, cls, kw, bound in [("vi", VI, dict(convergence_test="span"), eps), ("vi_md", VI, dict(convergence_test="max_diff"), 2 * eps), ("pi", PI, dict(convergence_test="span", max_eval_iter=400), eps / g), ("sa", SA, dict(convergence_test="max_diff", max_batch_size=4, shuffle_states=True, random_seed=7), 2 * g * eps / (1 - g))]:
            mk = lambda **extra: cls(Forest(S=9, r1=10.0, p=0.15), gamma=g, epsilon=eps, verbose=0, **kw, **extra)
            nstar = int(mk().solve(3000).info.iteration)
            for k in sorted({max(nstar - 1, 1), max(nstar // 2, 1)}):
                d = os.path.join(base, f"{kind}_{k}"); s1 = mk(checkpoint_dir=d, checkpoint_frequency=1, max_checkpoints=1, enable_async_checkpointing=False); s1.solve(k)
                inp = dict(problem="Forest(S=9,r1=10,p=0.15)", solver=kind, gamma=g, epsilon=eps, uninterrupted_stop=nstar, restored_at=k, **{a_: b_ for a_, b_ in kw.items()}); R.case(("restored", kind, k), inp)
                s2 = cls.restore(d, new_checkpoint_dir=d + "_r"); st2 = s2.solve(3000)
                if int(st2.info.iteration) >= k + 3000: continue
                gap = float((vs - pvalue(np.asarray(st2.policy)[:, 0])).max())
                if not (gap <= bound * (1 + 1e-6) + 1e-9): R.fail("c01.policy_near_optimal_after_restore", f"a run restored at iteration k and continued to convergence returns a policy that misses the a-priori bound {bound:.3g}", inp, gap, bound)
            # ... and a solver OBJECT that has already converged once, is rewound with load_checkpoint() to an early, unconverged step and solved again
            # (convergence reported by that second call is a claim about the state it returns, like any other)
            d = os.path.join(base, f"{kind}_rw"); s3 = mk(checkpoint_dir=d, checkpoint_frequency=1, max_checkpoints=nstar + 5, enable_async_checkpointing=False); s3.solve(3000)
            inp = dict(problem="Forest(S=9,r1=10,p=0.15)", solver=kind, gamma=g, epsilon=eps, history="solve() to convergence; load_checkpoint(step=1); solve()", **{a_: b_ for a_, b_ in kw.items()}); R.case(("rewound", kind), inp)
            s3.load_checkpoint(d, step=1); st3 = s3.solve(3000)
            if int(st3.info.iteration) < 1 + 3000:
                gap = float((vs - pvalue(np.asarray(st3.policy)[:, 0])).max())
                if not (gap <= bound * (1 + 1e-6) + 1e-9): R.fail("c01.policy_near_optimal_after_restore", f"a converged solver rewound to step 1 with load_checkpoint() and solved again reports convergence with a policy that misses the a-priori bound {bound:.3g}", inp, gap, bound)
                if kw.get("convergence_test") == "max_diff" and kind != "sa" and not (np.abs(np.asarray(st3.values) - vs).max() <= eps * (1 + 1e-6) + 1e-9):
                    R.fail("c01.values_near_optimal_after_restore", "a converged solver rewound to step 1 with load_checkpoint() and solved again reports convergence with values further than epsilon from the optimal values", inp, float(np.abs(np.asarray(st3.values) - vs).max()), eps)
    finally:
        shutil.rmtree(base, ignore_errors=True)
    return R

# ----------------------------------------------------------------------------------------------------------------- C04
def c04_report(): return Report("c04_runtime", "C04", "random unichain aperiodic tabular MDPs (every state-action reaches state 0, which can stay) with non-zero initial values; optimal gain by LP, policy gain by stationary distribution")
def c04(R):
    for t, N, A, E, ns, r, p in mdps(8 if TH else 4, unichain=True):
        if E < 2: ns, r, p = rand_mdp(rng, N, A, 2, unichain=True); E = 2
        eps = float(rng.choice([1e-2, 1e-4, 0.5, 5.0])); v0 = rng.normal(0, 5, N) if t % 2 else np.full(N, 5.0); bs = int(rng.choice(batch_sizes(N)))
        s = RVI(Tab(ns, r, p, v0), epsilon=eps, verbose=0, max_batch_size=bs); st = s.solve(5000)
        inp = desc(N, A, E, epsilon=eps, max_batch_size=bs, v0=v0, **tables(ns, r, p)); R.case((N, A, E, eps), {x: inp[x] for x in ("N", "A", "E", "epsilon")})
        if int(st.info.iteration) >= 5000: continue
        gstar = optimal_gain_lp(ns, r, p); gain = float(st.info.gain); V = np.asarray(st.values)
        if not (abs(gain - gstar) < eps * (1 + 1e-6) + 1e-9): R.fail("c04.gain_within_eps", "reported gain not within epsilon of the optimal average reward", dict(inp, converged_at=int(st.info.iteration)), gain, gstar)
        gp = policy_gain(ns, r, p, np.asarray(st.policy)[:, 0])
        if not (gstar - gp < eps * (1 + 1e-6) + 1e-9): R.fail("c04.policy_gain_within_eps", "returned policy's average reward not within epsilon of optimal", inp, gp, gstar)
        res = bellman(ns, r, p, 1.0, V) - V - gain
        if not (np.abs(res).max() < eps * (1 + 1e-6) + 1e-9): R.fail("c04.aroe_residual", "values do not solve the average-reward optimality equation within epsilon", inp, float(np.abs(res).max()), eps)
    # ... nor of how often solve() was called: again on the converged solver, and in chunks of one sweep
    for t, N, A, E, ns, r, p in mdps(2, unichain=True):
        if E < 2: ns, r, p = rand_mdp(rng, N, A, 2, unichain=True); E = 2
        eps = 1e-4; v0 = rng.normal(0, 5, N); gstar = optimal_gain_lp(ns, r, p)
        s = RVI(Tab(ns, r, p, v0), epsilon=eps, verbose=0); st = s.solve(5000); n1 = int(st.info.iteration)
        inp = desc(N, A, E, epsilon=eps, v0=v0, **tables(ns, r, p))
        if n1 < 5000:
            st2 = s.solve(50); R.case((N, A, E, "solve_twice"), None)
            V2 = np.asarray(st2.values); res2 = bellman(ns, r, p, 1.0, V2) - V2 - float(st2.info.gain)
            if abs(float(st2.info.gain) - gstar) >= eps * (1 + 1e-6) + 1e-9 or np.abs(res2).max() >= eps * (1 + 1e-6) + 1e-9:
                R.fail("c04.gain_within_eps", "solve() called again on the converged solver reports a gain / values that are not within epsilon", dict(inp, history="solve(); solve()", first_stop=n1), float(st2.info.gain), gstar)
            sc = RVI(Tab(ns, r, p, v0), epsilon=eps, verbose=0); R.case((N, A, E, "chunks_of_one"), None)
            for _ in range(n1 + 3):
                stc = sc.solve(1)
                if int(stc.info.iteration) < _ + 1: break
            Vc = np.asarray(stc.values); conv_c = span(bellman(ns, r, p, 1.0, Vc) - Vc) < eps
            if conv_c and abs(float(stc.info.gain) - gstar) >= eps * (1 + 1e-6) + 1e-9:
                R.fail("c04.gain_within_eps", "a run driven by solve(1) calls reports a gain that is not within epsilon of the optimal average reward at convergence", dict(inp, history="solve(1) repeated"), float(stc.info.gain), gstar)
    # the reported gain is a property of the iterates, not of how the run was driven: restored from a checkpoint (converged or not) and solved on
    import tempfile, shutil, os
    from mdpax.problems import Forest
    base = tempfile.mkdtemp(prefix="c04_", dir=os.environ.get("VERIF_SCRATCH"))
    try:
        eps = 1e-6; ref = RVI(Forest(S=5), epsilon=eps, verbose=0); stref = ref.solve(2000); nref = int(stref.info.iteration); gref = float(stref.info.gain)
        for k in sorted({nref, max(nref - 1, 1), max(nref // 2, 1)}):
            d = os.path.join(base, f"k{k}"); s1 = RVI(Forest(S=5), epsilon=eps, verbose=0, checkpoint_dir=d, checkpoint_frequency=1, max_checkpoints=1, enable_async_checkpointing=False); s1.solve(k)
            inp = dict(problem="Forest(S=5)", epsilon=eps, uninterrupted_stop=nref, restored_at=k, reference_gain=gref); R.case(("restored", k), inp)
            for how in ("restore", "load_checkpoint"):
                if how == "restore": s2 = RVI.restore(d, new_checkpoint_dir=d + "_r")
                else: s2 = RVI(Forest(S=5), epsilon=eps, verbose=0, checkpoint_dir=d + "_l", checkpoint_frequency=1); s2.load_checkpoint(d)
                st2 = s2.solve(2000)
                if not (abs(float(st2.info.gain) - gref) < eps * (1 + 1e-6) + 1e-9): R.fail("c04.gain_after_restore", f"{how}() at iteration k followed by solve() reports a gain that is not within epsilon of the one an uninterrupted run reports", dict(inp, how=how), float(st2.info.gain), gref)
        # a solver OBJECT that has already converged, rewound with load_checkpoint() to an early step and solved again (run-time state that a load does not re-initialise)
        d = os.path.join(base, "rw"); s3 = RVI(Forest(S=5), epsilon=eps, verbose=0, checkpoint_dir=d, checkpoint_frequency=1, max_checkpoints=nref + 5, enable_async_checkpointing=False); s3.solve(2000)
        inp = dict(problem="Forest(S=5)", epsilon=eps, history="solve() to convergence; load_checkpoint(step=1) into the same object; solve()", reference_gain=gref); R.case(("rewound",), inp)
        s3.load_checkpoint(d, step=1); st3 = s3.solve(2000)
        if int(st3.info.iteration) < 1 + 2000 and not (abs(float(st3.info.gain) - gref) < eps * (1 + 1e-6) + 1e-9):
            R.fail("c04.gain_after_restore", "a converged solver rewound to step 1 with load_checkpoint() and solved again reports a gain that is not within epsilon of the optimal average reward", inp, float(st3.info.gain), gref)
    finally:
        shutil.rmtree(base, ignore_errors=True)
    return R

# ----------------------------------------------------------------------------------------------------------------- C05
def c05_report(): return Report("c05_runtime", "C05", "random tabular MDPs x random policies (2-component action vectors) x batch sizes; exact policy values by linear solve")
def c05(R):
    for t, N, A, E, ns, r, p in mdps(6 if TH else 3):
        g = float(rng.choice([0.9, 0.7])); eps = 1e-6; v0 = rng.normal(0, 5, N); bs = int(rng.choice(batch_sizes(N)))
        pol = np.stack([rng.integers(0, A, N), np.zeros(N, dtype=int)], 1); pol[:, 1] = pol[:, 0] % 2
        for test in ("max_diff", "span"):
            s = PI(Tab(ns, r, p, v0), gamma=g, epsilon=eps, verbose=0, max_batch_size=bs, convergence_test=test, max_eval_iter=5000)
            inp = desc(N, A, E, gamma=g, epsilon=eps, test=test, max_batch_size=bs, policy=pol, v0=v0, **tables(ns, r, p)); R.case((N, A, E, test, bs), {x: inp[x] for x in ("N", "A", "gamma", "test", "max_batch_size")})
            ref = Qf(ns, r, p, g, v0)[np.arange(N), pol[:, 0]]
            for bs2 in sorted({1, 2, 3, 4, N, N + 3}):          # every padding situation: several batches with a padded last one, single batch, exact fit
                s2 = s if bs2 == bs else PI(Tab(ns, r, p, v0), gamma=g, epsilon=eps, verbose=0, max_batch_size=bs2, convergence_test=test, max_eval_iter=50)
                one = np.asarray(s2._calculate_policy_values(jnp.array(pol), jnp.array(v0))); R.case((N, A, E, test, "backup", bs2), None)
                if one.shape != (N,) or not close(one, ref): R.fail("c05.policy_backup", "one evaluation sweep != one-step value under each state's own policy action", dict(inp, max_batch_size=bs2), one, ref); break
            ev = np.asarray(s._evaluate_policy(jnp.array(pol), jnp.array(v0))); exact = policy_value(ns, r, p, g, pol[:, 0])
            if test == "max_diff" and not (np.abs(ev - exact).max() < eps / g): R.fail("c05.evaluation_accuracy", "evaluation not within eps/gamma of the exact policy value", inp, float(np.abs(ev - exact).max()), eps / g)
            # n_changed counts states whose action VECTOR differs in any component: perturb only the second component of some rows
            s.policy = jnp.array(pol); s.values = jnp.array(v0); newp, n_changed = s._iteration_step(); newp = np.asarray(newp)
            cnt = int((newp != pol).any(1).sum())
            if int(n_changed) != cnt: R.fail("c05.n_changed", "n_changed != number of states whose action vector changed in any component", inp, int(n_changed), cnt)
            pol2 = newp.copy(); pol2[0, 1] = 1 - pol2[0, 1]; s.policy = jnp.array(pol2); _, n2 = s._iteration_step()
            if int(n2) < 1: R.fail("c05.n_changed_second_component", "a change in the second component only is not counted", dict(inp, policy=pol2), int(n2), ">=1")
        # termination <=> stability; returned policy greedy w.r.t. returned values; initial policy
        for use_pol0 in (False, True):
            pol0 = np.stack([rng.integers(0, A, N), np.zeros(N, dtype=int)], 1) if use_pol0 else None
            s = PI(Tab(ns, r, p, v0, pol0=pol0), gamma=g, epsilon=1e-8, verbose=0, max_batch_size=bs, max_eval_iter=3000)
            inp = desc(N, A, E, gamma=g, max_batch_size=bs, initial_policy=pol0, v0=v0, **tables(ns, r, p)); R.case((N, A, E, "solve", use_pol0), None)
            first = np.asarray(s.policy); want = pol0 if use_pol0 else np.stack([(p * r).sum(-1).argmax(1), (p * r).sum(-1).argmax(1) % 2], 1)
            if use_pol0 and not np.array_equal(first, pol0): R.fail("c05.initial_policy", "problem-supplied initial policy is not the first policy", inp, first, pol0)
            if not use_pol0:
                R0 = (p * r).sum(-1)
                if not all(abs(R0[i, int(first[i, 0])] - R0[i].max()) < 1e-9 for i in range(N)): R.fail("c05.initial_policy", "default first policy does not maximise immediate expected reward", inp, first, want)
            st = s.solve(200); V = np.asarray(st.values); polr = np.asarray(st.policy); Qm = Qf(ns, r, p, g, V)
            if int(st.info.iteration) < 200 and not all(abs(Qm[i, int(polr[i, 0])] - Qm[i].max()) <= 1e-9 * max(1, abs(Qm[i].max())) for i in range(N)):
                R.fail("c05.returned_policy_greedy", "returned policy is not greedy w.r.t. the returned values", inp, polr, Qm.argmax(1))
    # greedy means greedy also when the values are huge compared with the action gaps (a near-tie is not a tie)
    for offset in (1e6, -1e6):
        Nr = 4; ns = np.array([[[s_], [(s_ + 1) % Nr]] for s_ in range(Nr)]); r = np.array([[[offset], [offset + 1 + 0.1 * s_]] for s_ in range(Nr)]); p = np.ones((Nr, 2, 1)); g = 0.9
        for test in ("span", "max_diff"):
            st = PI(Tab(ns, r, p), gamma=g, epsilon=0.01, verbose=0, convergence_test=test, max_eval_iter=2000).solve(200); V = np.asarray(st.values); polr = np.asarray(st.policy); Qm = Qf(ns, r, p, g, V)
            inp = desc(Nr, 2, 1, gamma=g, epsilon=0.01, test=test, reward_offset=offset, note="ring: stay pays offset, move on pays offset + 1 + 0.1 s", **tables(ns, r, p)); R.case(("offset", offset, test), {x: inp[x] for x in ("test", "reward_offset")})
            if int(st.info.iteration) < 200 and not all(Qm[i, int(polr[i, 0])] >= Qm[i].max() - 1e-3 for i in range(Nr)):
                R.fail("c05.returned_policy_greedy", "returned policy is not greedy w.r.t. the returned values (value magnitude far above the action gaps)", inp, polr[:, 0], Qm.argmax(1))
    return R

# ----------------------------------------------------------------------------------------------------------------- C06
def c06_report(): return Report("c06_runtime", "C06", "random tabular MDPs x batch sizes x {fixed, shuffled} x seeds; block Gauss-Seidel reference driven by the permutation recomputed from the seed (split once per sweep)")
def c06(R):
    for t, N, A, E, ns, r, p in mdps(6 if TH else 3, lo=3, hi=11):
        g = 0.9; v0 = rng.normal(0, 5, N)
        for bs in batch_sizes(N):
            for shuffle in (False, True):
                seed = int(rng.integers(0, 1000)); prob = Tab(ns, r, p, v0)
                sa = SA(prob, gamma=g, epsilon=1e-6, verbose=0, max_batch_size=bs, shuffle_states=shuffle, random_seed=seed)
                bsz, nb = sa.batch_processor.batch_size, sa.batch_processor.n_batches; key = jr.PRNGKey(seed); cur = np.array(v0)
                inp = desc(N, A, E, gamma=g, max_batch_size=bs, shuffle=shuffle, seed=seed, v0=v0, **tables(ns, r, p)); R.case((N, A, E, bs, shuffle), {x: inp[x] for x in ("N", "max_batch_size", "shuffle", "seed")})
                for sweep in range(3):
                    if shuffle: key, sub = jr.split(key); perm = np.asarray(jr.permutation(sub, jnp.arange(N)))
                    else: perm = np.arange(N)
                    new = gs_reference(ns, r, p, g, cur, perm, bsz, nb)
                    got = np.asarray(sa._update_values(sa.batched_states, prob.action_space, prob.random_event_space, sa.gamma, jnp.array(cur)))
                    if got.shape != (N,) or not close(got, new): R.fail("c06.sweep_is_block_gauss_seidel", f"sweep {sweep + 1} differs from the block Gauss-Seidel reference", dict(inp, sweep=sweep + 1, permutation=perm), got, new); break
                    cur = new
                # the same through the public entry point: solve(1) per sweep (the iteration counter advances, the solver keeps its own state between calls)
                sb = SA(Tab(ns, r, p, v0), gamma=g, epsilon=1e-12, verbose=0, max_batch_size=bs, shuffle_states=shuffle, random_seed=seed); key2 = jr.PRNGKey(seed); cur2 = np.array(v0)
                for sweep in range(4):
                    if shuffle: key2, sub2 = jr.split(key2); perm2 = np.asarray(jr.permutation(sub2, jnp.arange(N)))
                    else: perm2 = np.arange(N)
                    new2 = gs_reference(ns, r, p, g, cur2, perm2, bsz, nb); got2 = np.asarray(sb.solve(1).values)
                    if got2.shape != (N,) or not close(got2, new2): R.fail("c06.sweep_is_block_gauss_seidel", f"sweep {sweep + 1} driven by solve(1) differs from the block Gauss-Seidel reference", dict(inp, sweep=sweep + 1, driven_by="solve(1) per sweep", permutation=perm2), got2, new2); break
                    cur2 = new2
                if shuffle:      # reproducibility from the seed
                    s1 = SA(prob, gamma=g, epsilon=1e-9, verbose=0, max_batch_size=bs, shuffle_states=True, random_seed=seed).solve(4)
                    s2 = SA(prob, gamma=g, epsilon=1e-9, verbose=0, max_batch_size=bs, shuffle_states=True, random_seed=seed).solve(4)
                    if not np.array_equal(np.asarray(s1.values), np.asarray(s2.values)): R.fail("c06.reproducible", "two solvers with the same seed differ", inp)
                # fixed point: a sweep started at v* returns v*
                vstar = optimal_values(ns, r, p, g); sv = SA(Tab(ns, r, p, vstar), gamma=g, epsilon=1e-6, verbose=0, max_batch_size=bs, shuffle_states=shuffle, random_seed=seed)
                got = np.asarray(sv._update_values(sv.batched_states, sv.problem.action_space, sv.problem.random_event_space, sv.gamma, jnp.array(vstar)))
                if not close(got, vstar, 1e-8): R.fail("c06.fixed_point", "sweep started at the optimal values does not return them", inp, got, vstar)
    return R

# ----------------------------------------------------------------------------------------------------------------- C07
def c07_report(): return Report("c07_runtime", "C07", "random tabular MDPs x periods 1..4 x gamma in {1, <1}; reference VI iterates and documented measure; periodic chains for the gain bracket")
def c07(R):
    for t, N, A, E, ns, r, p in mdps(6 if TH else 3, unichain=True):
        v0 = rng.normal(0, 3, N)
        for P, g in [(1, 0.9), (2, 0.9), (3, 1.0), (4, 0.95), (2, 1.0)]:
            eps = float(rng.choice([0.5, 0.05])); bs = int(rng.choice(batch_sizes(N)))
            s = PVI(Tab(ns, r, p, v0), period=P, gamma=g, epsilon=eps, verbose=0, max_batch_size=bs, clear_value_history_on_convergence=False); st = s.solve(80)
            inp = desc(N, A, E, period=P, gamma=g, epsilon=eps, max_batch_size=bs, v0=v0, **tables(ns, r, p)); R.case((N, A, E, P, g), {x: inp[x] for x in ("N", "period", "gamma", "epsilon")})
            it, V, ex = reference_run("pvi", ns, r, p, g, eps, v0, 80, P)
            if int(st.info.iteration) != it or not close(st.values, V, 1e-8): R.fail("c07.stop_and_values", "periodic VI differs from plain VI iterates stopped by the documented period-span rule", inp, int(st.info.iteration), it); continue
            if it < P: R.fail("c07.never_before_full_period", "stopped before a full period", inp, it, P)
            Qm = Qf(ns, r, p, g, V); pol = np.asarray(st.policy)
            if not all(abs(Qm[i, int(pol[i, 0])] - Qm[i].max()) <= 1e-9 * max(1, abs(Qm[i].max())) for i in range(N)): R.fail("c07.policy_greedy", "returned policy not greedy for returned values", inp)
            if g == 1.0 and ex["converged"]:
                hist = np.asarray(st.info.value_history); hi = int(st.info.history_index); prev = hist[(hi + 1) % (P + 1)]
                gstar = optimal_gain_lp(ns, r, p); comp = (V - prev) / P
                if not (np.abs(comp - gstar).max() <= eps / P * (1 + 1e-6) + 1e-9): R.fail("c07.gain_bracket", "(V_n - V_(n-P))/P not within eps/P of the optimal gain", inp, comp, gstar)
        # the first iteration at which the test may fire (n == period) reads the slot holding the INITIAL values: tolerance just above the true measure there
        for P, g in [(2, 1.0), (3, 0.9)]:
            Vs = [np.array(v0, dtype=float)]
            for n in range(1, P + 1): Vs.append(bellman(ns, r, p, g, Vs[-1]))
            mP = span(Vs[P] - Vs[0]) if g == 1.0 else span(sum((Vs[j] - Vs[j - 1]) / g ** (j - 1) for j in range(1, P + 1)))
            eps = mP * 1.05 + 1e-9; s = PVI(Tab(ns, r, p, v0), period=P, gamma=g, epsilon=eps, verbose=0, clear_value_history_on_convergence=False)
            inp = desc(N, A, E, period=P, gamma=g, epsilon=eps, v0=v0, note="tolerance 5% above the documented measure at n == period", **tables(ns, r, p)); R.case((N, A, E, P, g, "at_period"), None)
            if not close(np.asarray(s.value_history)[0], v0): R.fail("c07.history_slot0_is_initial_values", "ring buffer slot 0 does not hold the initial values after construction", inp, np.asarray(s.value_history)[0], v0)
            st = s.solve(40); it, V, ex = reference_run("pvi", ns, r, p, g, eps, v0, 40, P)
            if int(st.info.iteration) != it: R.fail("c07.stop_at_first_full_period", "stop decision at n == period differs from the documented measure (V_n - V_(n-period) with V_0 the initial values)", inp, int(st.info.iteration), it)
    # integer-TYPED initial value estimates (a problem whose initial_value returns 0 or -state[0]): the iterates are floats all the same
    for t, N, A, E, ns, r, p in mdps(2, unichain=True):
        for P, g in [(2, 1.0), (2, 0.9), (3, 0.95)]:
            v0i = rng.integers(-3, 4, N); eps = 1e-3
            s = PVI(Tab(ns, r, p, v0i), period=P, gamma=g, epsilon=eps, verbose=0, clear_value_history_on_convergence=False); st = s.solve(400)
            inp = desc(N, A, E, period=P, gamma=g, epsilon=eps, v0=v0i, note="integer-typed initial values", **tables(ns, r, p)); R.case((N, A, E, P, g, "int_v0"), {x: inp[x] for x in ("N", "period", "gamma", "note")})
            it, V, ex = reference_run("pvi", ns, r, p, g, eps, v0i.astype(float), 400, P)
            if int(st.info.iteration) != it or not close(st.values, V, 1e-8): R.fail("c07.stop_and_values", "periodic VI differs from plain VI iterates stopped by the documented period-span rule (integer-typed initial values)", inp, int(st.info.iteration), it)
    # the stop rule is a property of the iterates, not of how the run was driven: continued by a second solve() call, and restored from a checkpoint
    # taken fewer than `period` sweeps before the documented stopping iteration
    import tempfile, shutil, os
    from mdpax.problems import Forest
    base = tempfile.mkdtemp(prefix="c07_", dir=os.environ.get("VERIF_SCRATCH"))
    try:
        for P, g in [(4, 0.95), (3, 1.0)]:
            mk = lambda **kw: PVI(Forest(S=12, r1=40.0, p=0.05), period=P, gamma=g, epsilon=1e-3, verbose=0, clear_value_history_on_convergence=False, **kw)
            ref = mk(); nstar = int(ref.solve(400).info.iteration); Vstar = np.asarray(ref.values)
            for back in range(1, P + 1):
                k = nstar - back
                if k < 1: continue
                inp = dict(problem="Forest(S=12,r1=40,p=0.05)", period=P, gamma=g, epsilon=1e-3, documented_stop=nstar, continued_from=k); R.case(("continued", P, g, back), inp)
                s2 = mk(); s2.solve(k); st2 = s2.solve(400)
                if int(st2.info.iteration) != nstar or not close(st2.values, Vstar, 1e-9): R.fail("c07.stop_rule_second_call", "solve(k); solve() stops at another iteration than a single solve()", inp, int(st2.info.iteration), nstar)
                d = os.path.join(base, f"p{P}_{back}"); s3 = mk(checkpoint_dir=d, checkpoint_frequency=1, max_checkpoints=2, enable_async_checkpointing=False); s3.solve(k)
                r3 = PVI.restore(d, new_checkpoint_dir=d + "_r"); st3 = r3.solve(400)
                if int(st3.info.iteration) != nstar or not close(st3.values, Vstar, 1e-9): R.fail("c07.stop_rule_after_restore", "a solver restored at iteration k and continued stops at another iteration than the documented first n >= period with the measure below epsilon", inp, int(st3.info.iteration), nstar)
            # ... and a solver OBJECT that has already stopped, rewound with load_checkpoint() to an early step and solved again: same documented stop
            d = os.path.join(base, f"rw{P}"); s4 = mk(checkpoint_dir=d, checkpoint_frequency=1, max_checkpoints=nstar + 5, enable_async_checkpointing=False); s4.solve(400)
            k4 = max(1, nstar // 2); inp = dict(problem="Forest(S=12,r1=40,p=0.05)", period=P, gamma=g, epsilon=1e-3, documented_stop=nstar, history=f"solve() to the stop; load_checkpoint(step={k4}) into the same object; solve()"); R.case(("rewound", P, g), inp)
            s4.load_checkpoint(d, step=k4); st4 = s4.solve(400)
            if int(st4.info.iteration) != nstar or not close(st4.values, Vstar, 1e-9): R.fail("c07.stop_rule_after_restore", "a stopped solver rewound with load_checkpoint() and solved again stops at another iteration than the documented one", inp, int(st4.info.iteration), nstar)
        # ... and taken over with load_checkpoint() by a solver that was constructed with ANOTHER period (it adopts the saved period)
        for g in (0.95, 1.0):
            mk4 = lambda **kw: PVI(Forest(S=6), period=4, gamma=g, epsilon=1e-5, verbose=0, clear_value_history_on_convergence=False, **kw)
            nstar = int(mk4().solve(400).info.iteration); d = os.path.join(base, f"other_period_{g}"); w = mk4(checkpoint_dir=d, checkpoint_frequency=1, max_checkpoints=2, enable_async_checkpointing=False); w.solve(min(6, nstar - 1))
            inp = dict(problem="Forest(S=6)", writer_period=4, reader_period=2, gamma=g, epsilon=1e-5, documented_stop=nstar); R.case(("load_other_period", g), inp)
            rd = PVI(Forest(S=6), period=2, gamma=g, epsilon=1e-5, verbose=0, clear_value_history_on_convergence=False); rd.load_checkpoint(d); st = rd.solve(400)
            if int(st.info.iteration) != nstar: R.fail("c07.stop_rule_after_restore", "a solver that loaded a checkpoint written with another period stops at another iteration than the documented one for the saved period", inp, int(st.info.iteration), nstar)
    finally:
        shutil.rmtree(base, ignore_errors=True)
    # periodic chain with period 2 (plain VI oscillates): deterministic cycle of length 2 with different rewards
    ns = np.array([[[1]], [[0]]]); r = np.array([[[1.0]], [[3.0]]]); p = np.ones((2, 1, 1))
    st = PVI(Tab(ns, r, p), period=2, gamma=1.0, epsilon=1e-3, verbose=0, clear_value_history_on_convergence=False).solve(50); R.case(("cycle2",), {"mdp": "2-cycle rewards 1,3"})
    hist = np.asarray(st.info.value_history); hi = int(st.info.history_index); comp = (np.asarray(st.values) - hist[(hi + 1) % 3]) / 2
    if int(st.info.iteration) >= 50 or np.abs(comp - 2.0).max() > 1e-3: R.fail("c07.periodic_chain", "period-2 chain: no convergence or wrong gain", {"mdp": "2-cycle rewards 1,3"}, comp, 2.0)
    return R

# ----------------------------------------------------------------------------------------------------------------- C17
def c17_report(): return Report("c17_runtime", "C17", "random tabular MDPs (several events to the same successor) x scalar / (1,)-array probabilities; matrices accumulated independently; perturbed rows for the error path")
def c17(R):
    for t, N, A, E, ns, r, p in mdps(8 if TH else 4):
        paa = bool(t % 2); prob = Tab(ns, r, p, prob_as_array=paa)
        inp = desc(N, A, E, prob_as_array=paa, **tables(ns, r, p)); R.case((N, A, E, paa), {x: inp[x] for x in ("N", "A", "E")})
        Pm, Rm = prob.build_transition_and_reward_matrices(); Pref, Rref = matrices(ns, r, p)
        if np.asarray(Pm).shape != (A, N, N) or np.asarray(Rm).shape != (N, A) or not close(Pm, Pref) or not close(Rm, Rref): R.fail("c17.matrices", "explicit matrices differ from the independently accumulated ones", inp, np.asarray(Pm), Pref)
        if not close(np.asarray(Pm).sum(-1), 1.0): R.fail("c17.rows_sum_to_one", "a transition row does not sum to one", inp)
        g = 0.9; v_fun = optimal_values(ns, r, p, g); Vm = np.zeros(N)
        for _ in range(5000):
            Vn = (np.asarray(Rm) + g * np.einsum("asn,n->sa", np.asarray(Pm), Vm)).max(1)
            if np.abs(Vn - Vm).max() < 1e-13: break
            Vm = Vn
        if not close(Vn, v_fun, 1e-8): R.fail("c17.same_optimal_values", "solving the matrices gives different optimal values", inp, Vn, v_fun)
        s_bad, a_bad = int(rng.integers(0, N)), int(rng.integers(0, A)); p2 = p.copy(); p2[s_bad, a_bad, 0] += 0.01
        try:
            Tab(ns, r, p2, prob_as_array=paa).build_transition_and_reward_matrices(); R.fail("c17.error_path", "probabilities off by 0.01 but no ValueError", dict(inp, bad_pair=[s_bad, a_bad]))
        except ValueError as ex:
            if f"state {s_bad}, action {a_bad}" not in str(ex): R.fail("c17.error_names_pair", "ValueError does not name the offending (state, action)", dict(inp, bad_pair=[s_bad, a_bad]), str(ex)[:120])
        if N * A > 1:                                               # ONE deficient row among healthy ones must be reported as well (not only over-full rows)
            p4 = p.copy(); p4[s_bad, a_bad, 0] -= min(0.02, 0.9 * p4[s_bad, a_bad, 0]); defect = float(1 - p4[s_bad, a_bad].sum())
            if defect > 2e-4:
                try:
                    Tab(ns, r, p4, prob_as_array=paa).build_transition_and_reward_matrices(); R.fail("c17.error_path_deficient_row", "one row sums to less than 1 - tolerance but no ValueError (it would be silently renormalised)", dict(inp, bad_pair=[s_bad, a_bad], row_sum=1 - defect))
                except ValueError as ex:
                    if f"state {s_bad}, action {a_bad}" not in str(ex): R.fail("c17.error_names_pair", "ValueError does not name the offending (state, action)", dict(inp, bad_pair=[s_bad, a_bad]), str(ex)[:120])
        try:                                                          # an explicit tolerance of ZERO is a tolerance: a deviation of 5e-5 exceeds it
            Tab(ns, r, (lambda q_: (q_.__setitem__((s_bad, a_bad, 0), q_[s_bad, a_bad, 0] + 5e-5), q_)[1])(p.copy())).build_transition_and_reward_matrices(normalization_tolerance=0.0)
            R.fail("c17.error_path_zero_tolerance", "no ValueError although a row deviates from one by 5e-5 and the tolerance passed is 0.0", dict(inp, bad_state=s_bad, bad_action=a_bad, normalization_tolerance=0.0))
        except ValueError: pass
        p3 = p.copy(); p3[s_bad, a_bad, 0] += 5e-5                  # inside the tolerance: accepted and renormalised
        try:
            P3, _ = Tab(ns, r, p3, prob_as_array=paa).build_transition_and_reward_matrices()
            if not close(np.asarray(P3).sum(-1), 1.0): R.fail("c17.renormalised", "rows within tolerance are not renormalised to one", dict(inp, bad_pair=[s_bad, a_bad]))
        except ValueError: R.fail("c17.tolerance", "deviation 5e-5 < 1e-4 rejected", dict(inp, bad_pair=[s_bad, a_bad]))
    return R


def c17_shipped(R):
    """several instances of the SAME problem class with different bounds in one process: each one's matrices against its own functions"""
    import jax
    from mdpax.problems.perishable_inventory.de_moor_single_product import DeMoorSingleProductPerishable as DMP
    from mdpax.problems.perishable_inventory.hendrix_two_product import HendrixTwoProductPerishable as HXP
    from mdpax.problems.perishable_inventory.mirjalili_platelet import MirjaliliPlateletPerishable as MJP
    from mdpax.problems import Forest
    def functional(pb):
        f = jax.vmap(jax.vmap(jax.vmap(pb.transition, in_axes=(None, None, 0)), in_axes=(None, 0, None)), in_axes=(0, None, None))
        g = jax.vmap(jax.vmap(jax.vmap(pb.random_event_probability, in_axes=(None, None, 0)), in_axes=(None, 0, None)), in_axes=(0, None, None))
        nxt, rew = f(pb.state_space, pb.action_space, pb.random_event_space); pr = np.asarray(g(pb.state_space, pb.action_space, pb.random_event_space)); pr = pr.reshape(pr.shape[:3])
        idx = np.asarray(jax.vmap(jax.vmap(jax.vmap(pb.state_to_index)))(nxt)); rew = np.asarray(rew).reshape(pr.shape); S_, A_, E_ = pr.shape
        P = np.zeros((A_, S_, S_))
        for s_ in range(S_):
            for a_ in range(A_):
                for e_ in range(E_): P[a_, s_, idx[s_, a_, e_]] += pr[s_, a_, e_]
        return P / P.sum(-1, keepdims=True), (pr * rew).sum(-1)
    for cls, kws in [(DMP, [dict(max_demand=3, max_useful_life=2, lead_time=1, max_order_quantity=2), dict(max_demand=3, max_useful_life=2, lead_time=1, max_order_quantity=3)]),
                     (MJP, [dict(max_demand=2, max_useful_life=2, max_order_quantity=1, useful_life_at_arrival_distribution_c_0=(0.5,), useful_life_at_arrival_distribution_c_1=(0.2,)), dict(max_demand=2, max_useful_life=2, max_order_quantity=2, useful_life_at_arrival_distribution_c_0=(0.5,), useful_life_at_arrival_distribution_c_1=(0.2,))]),
                     # more states than any internal block size / the default batch size of 1024, and not a multiple of it
                     (Forest, [dict(S=3), dict(S=5, p=0.3), dict(S=1100, r1=40.0, p=0.1)])]:
        for kw in kws:
            pb = cls(**kw); inp = dict(problem=cls.__name__, params=kw, note="built after another instance of the same class in this process"); R.case((cls.__name__, json.dumps(kw)), None)
            Pm, Rm = pb.build_transition_and_reward_matrices(); Pref, Rref = functional(pb)
            if not close(Pm, Pref, 1e-6) or not close(Rm, Rref, 1e-6): R.fail("c17.matrices_of_shipped_problem", "matrices differ from the accumulation of the problem's own functions", inp, float(np.abs(np.asarray(Pm) - Pref).max()))
import json
if a.prop == "c17":
    _c17 = c17
    def c17(R): _c17(R); c17_shipped(R)
globals()[a.prop + "_report"]().run(globals()[a.prop]).write(a.out)
