"""Conformance of the engine's LIBRARY MODELS (the assumed contracts of numpy / jax.numpy / jax.lax the proofs rely on) with the real libraries:
each expression is evaluated natively (/venv, JAX on CPU, x64) and through the pyvc interpreter's models on the same concrete inputs; the
results must agree.  A disagreement is an ENGINE error (a wrong model), never a property violation.  usage: xcheck_models.py --out f.json"""
import os, sys, json, subprocess, shutil
import numpy as np, jax, jax.numpy as jnp
jax.config.update("jax_enable_x64", True)
from hlib import args, Report, ROOT
a_ = args(); R = Report("library_model_conformance", a_.prop or "C02", "one expression per modelled library function / array method x concrete inputs (vectors with ties, negatives, zeros; 2-D arrays; out-of-range slice starts): real numpy/JAX vs the engine's model", label="conformance")
a = [1.5, -2.0, 0.0, 3.25, 3.25, -0.5]; b = [0.5, 4.0, -1.0, 3.25, 2.0, 0.0]; w = [0.1, 0.2, 0.3, 0.15, 0.05, 0.2]; iv = [2, 3, 1, 4]; idx = [4, 0, 2]
m = [[1.0, -2.0, 0.5], [0.0, 4.0, 4.0], [2.5, 2.5, -1.0], [7.0, 0.0, 1.0]]; a3 = [1.0, 2.0, -1.0]; m1 = [[3.0, -1.0, 2.0]]
IN = dict(a=a, b=b, w=w, iv=iv, idx=idx, m=m, a3=a3, m1=m1)
EXPRS = """jnp.ptp(a)|jnp.max(a) - jnp.min(a)|jnp.mean(a)|jnp.mean(m)|jnp.stack([a, b])|jnp.stack([a[0], b[1], 2.5])|jnp.concatenate([m, m], axis=1)|jnp.concatenate([m, m], axis=-1)|jnp.concatenate([m, m], axis=0)|jnp.pad(m, ((0, 2), (0, 0)))|jnp.pad(m, ((1, 0), (0, 1)))|jnp.pad(a, (1, 2))|jnp.squeeze(m1)|jnp.expand_dims(a, 0)
jnp.expand_dims(a, -1)|jnp.ravel(m)|m.ravel()|m.flatten()|jnp.argmin(a)|jnp.argmax(a)|jnp.argmax(m, axis=1)|jnp.count_nonzero(a)|jnp.matmul(m, a3)|m @ a3|a @ b|jnp.dot(a, b)|jnp.dot(m, a3)
jnp.linalg.norm(a, ord=jnp.inf)|jnp.linalg.norm(a, ord=1)|np.prod(iv)|np.cumprod(iv)|np.append(iv, 1)|jnp.clip(a, -1, 1)|a.clip(0, 1)|jnp.where(a > 0, a, 0)|jnp.outer(a3, a3)|jnp.take(a, jnp.array(idx))|jnp.diff(a)
jnp.hstack([a, b])|jnp.vstack([a, b])|jnp.concatenate([a, b])|jnp.reshape(m, (-1,))|m.reshape(3, 4)|m.reshape(2, -1)|m.T|m.swapaxes(0, 1)|jnp.sum(m, axis=0)|jnp.sum(m, axis=1)|jnp.sum(m)|jnp.max(m, axis=1)|jnp.min(m, axis=0)
jnp.any(m > 1, axis=1)|jnp.all(m > -5)|jnp.any(a > 5)|(a > 0).any()|(a > -9).all()|jnp.broadcast_to(a3, (2, 3))|jnp.tile(iv, 2)|np.repeat(iv, 2)|jnp.ravel_multi_index((1, 2), (3, 4), mode='clip')
jnp.ravel_multi_index((5, -1), (3, 4), mode='clip')|jnp.unravel_index(7, (3, 4))|jnp.isclose(a, b)|jnp.average(a, weights=w)|jnp.average(a)|jnp.arange(2, 7)|jnp.arange(5)|jnp.zeros((2, 3))|jnp.ones((2,))|jnp.full((2,), 3.5)
a[:, None]|a[None, :]|m[:, None, 1]|a[1:3]|a[::-1]|a[:-2]|a[4:]|m[:, 0]|m[1]|m[1:3, 1]|a[-1]|a.at[1].set(9.0)|a.at[jnp.array(idx)].add(1.0)|jnp.argsort(a)|jax.lax.dynamic_slice_in_dim(jnp.array(a), 3, 2)|jax.lax.dynamic_slice_in_dim(jnp.array(a), 5, 3)
jax.lax.dynamic_slice(jnp.array(m), (1, 1), (2, 2))|jax.lax.dynamic_slice(jnp.array(m), (3, 2), (2, 2))|jnp.minimum(a, b)|jnp.maximum(a, 0)|jnp.abs(a)|a.sum()|a.max()|a.min()|m.mean()|m.sum(axis=1)|jnp.size(m)|m.size
jnp.amax(a)|jnp.negative(a)|jnp.subtract(a, b)|jnp.multiply(a, b)|jnp.add(a, b)|jnp.sum(a * w)|jnp.max(jnp.abs(a - b))|(a - b).max() - (a - b).min()|jnp.cumprod(jnp.array(iv))|np.r_[iv, 1]|np.cumprod(iv[:0:-1])[::-1]
jnp.any(m != 0.0, axis=1).sum()|jnp.zeros_like(a)|jnp.asarray(iv) * 2|-jnp.asarray(a)|jnp.asarray(a) ** 2|jnp.asarray(iv) // 2|jnp.asarray(iv) % 3|jnp.where(jnp.asarray(a) >= 3.25, 1, 0).sum()""".replace("\n", "|").split("|")
# the interpreter's own Python semantics (operators, builtins, comprehensions, conditional expressions, short-circuit values, integer division and modulo of negatives)
PYEXPRS = """-(-7 // 2)|7 // -2|-7 % 3|7 % -3|(-7) // 2|int(3.7)|int(-3.7)|min(3, 1, 2)|max([1, 5, 2])|sum([1, 2, 3])|len([1, 2])|list(range(2, 10, 3))|list(range(5, 0, -2))|[i for i in range(6) if i % 2]
tuple(x * 2 for x in range(3))|any(x > 2 for x in [1, 2, 3])|all(x > 2 for x in [1, 2, 3])|3 if 0 else 4|abs(-3)|2 ** 10|1 < 2 < 3|1 < 3 < 2|0 or 5|0 and 5|2 and 7|None or 5|not []|not [0]|(7 + 3 - 1) // 3|max(64, 5)|min(1024, max(64, 17))
sum(x * y for x, y in zip([1, 2, 3], [4, 5, 6]))|[a + b for a, b in zip([1, 2], [3, 4])]|list(reversed([1, 2, 3]))|sorted([3, 1, 2])|[1, 2, 3][::-1]|[1, 2, 3, 4][1:3]|(1, 2) + (3,)|len(range(3, 11, 2))|5 in [1, 5]|5 not in (1, 2)|bool(0.0)|float(3)|10 / 4|7.5 // 2|-7.5 // 2|2 * 3 ** 2|-2 ** 2|divmod(7, -2)[0]|round(2.675, 2) > 2.6|1e-3 * (1 - 0.9) / 0.9""".replace("\n", "|").split("|")
cases = [dict(expr=e.strip(), inputs=IN) for e in EXPRS if e.strip()] + [dict(expr=e.strip(), inputs={}) for e in PYEXPRS if e.strip()]
def tolist(v):
    if isinstance(v, (tuple, list)): return [tolist(x) for x in v]
    v = np.asarray(v)
    if v.dtype == bool: v = v.astype(int)
    return v.tolist()
real = {}
genv = {"jnp": jnp, "np": np, "jax": jax}
for c in cases:
    loc = {k: (jnp.array(v) if k not in ("iv", "idx") else (np.array(v) if k == "iv" else v)) for k, v in c["inputs"].items()}
    try: real[c["expr"]] = {"value": tolist(eval(c["expr"], genv, loc))}
    except Exception as ex: real[c["expr"]] = {"error": f"{type(ex).__name__}: {str(ex)[:160]}"}
scratch = os.environ.get("VERIF_SCRATCH", "/tmp"); fc, fo = os.path.join(scratch, "xm_cases.json"), os.path.join(scratch, "xm_out.json")
json.dump(cases, open(fc, "w"))
vt = shutil.which("python3-vt") or "/opt/veriftools/pyvenv/bin/python"
env = {k: v for k, v in os.environ.items() if k not in ("PYTHONPATH",)}
pr = subprocess.run([vt, os.path.join(ROOT, "tools", "xcheck_models_interp.py"), fc, fo], capture_output=True, text=True, env=env)
try: got = json.load(open(fo))
except Exception: got = {}; R.fail("xcheck.models_ran", "engine side failed", {}, pr.stderr[-800:])
def same(x, y):
    if isinstance(x, list) or isinstance(y, list):
        return isinstance(x, list) and isinstance(y, list) and len(x) == len(y) and all(same(p, q) for p, q in zip(x, y))
    return abs(float(x) - float(y)) <= 1e-9 * max(1.0, abs(float(x)), abs(float(y)))
unmodelled = []
for c in cases:
    e = c["expr"]; r = real[e]; g = got.get(e, {"error": "missing"})
    if "error" in r: R.fail("xcheck.case_list", "the case does not evaluate on the real library (fix the case list)", dict(expr=e), r["error"]); continue
    if "error" in g:
        if "Unsupported" in g["error"]: unmodelled.append(e); continue      # no model: nothing is assumed about it (code using it falls back), nothing to compare
        R.fail("xcheck.model_evaluates", "the engine's model fails on concrete inputs the real library accepts", dict(expr=e), g["error"], r["value"]); continue
    R.case(e, dict(expr=e))
    if not same(g["value"], r["value"]): R.fail("xcheck.model_agrees_with_library", "the engine's library model disagrees with the real library", dict(expr=e, inputs={k: IN[k] for k in IN if k in e}), g["value"], r["value"])
R.grid = {"expressions": len(cases), "compared": R.evaluations, "without_model": unmodelled}
for f in R.failures: f["engine"] = True
R.write(a_.out)
