"""Shared helpers for the run-time contract harnesses (bounded stand-ins; run under /venv/bin/python)."""
import argparse, json, os, time

ROOT = os.path.dirname(os.path.dirname(os.path.abspath(__file__)))
T0 = time.time()


def args(extra=None):
    ap = argparse.ArgumentParser()
    ap.add_argument("--tier", default="quick"); ap.add_argument("--seed", type=int, default=0); ap.add_argument("--out")
    ap.add_argument("--prop", default=None); ap.add_argument("--only", default=None)
    for a, kw in (extra or []): ap.add_argument(a, **kw)
    return ap.parse_args()


def jsonable(x):
    import numpy as np
    if isinstance(x, dict): return {str(k): jsonable(v) for k, v in x.items()}
    if isinstance(x, (list, tuple)): return [jsonable(v) for v in x]
    if isinstance(x, np.ndarray): return x.tolist()
    if isinstance(x, (np.integer,)): return int(x)
    if isinstance(x, (np.floating,)): return float(x)
    if hasattr(x, "tolist") and not isinstance(x, (str, bytes)):
        try: return x.tolist()
        except Exception: return str(x)
    if isinstance(x, (str, int, float, bool, type(None))): return x
    return str(x)


class Report:
    def __init__(self, name, pid, rule, label="bounded"):
        self.name, self.pid, self.rule, self.label = name, pid, rule, label
        self.last_input = None; self.evaluations = 0; self.distinct = set(); self.failures = []; self.samples = []; self.grid = None

    def case(self, key, sample=None):
        self.last_input = sample if sample is not None else jsonable(key)
        self.evaluations += 1; self.distinct.add(json.dumps(jsonable(key), sort_keys=True, default=str))
        if sample is not None and len(self.samples) < 3: self.samples.append(jsonable(sample))

    def fail(self, check, what, inp, observed=None, expected=None):
        if len(self.failures) < 40:
            self.failures.append({"check": check, "what": what, "input": jsonable(inp), "observed": jsonable(observed), "expected": jsonable(expected)})

    def run(self, body):
        """run the harness body; an exception escaping from the code under test is a failing case (the last case started), not a harness crash"""
        import traceback
        try: body(self)
        except Exception as ex:
            tb = traceback.format_exc()
            self.fail(self.name + ".code_under_test_raised", f"{type(ex).__name__} raised while checking this case", getattr(self, "last_input", None), tb[-700:], "no exception")
        return self

    def write(self, out):
        known = json.load(open(os.path.join(ROOT, "known_findings.json")))
        for f in self.failures:
            for k in known:
                if k.get("property") == self.pid and k.get("status") == "open" and k.get("harness_check") == f["check"]:
                    try:
                        if eval(k.get("identified_by_py", "True"), {}, {"input": f["input"], "observed": f["observed"]}): f["known_finding"] = k["id"]
                    except Exception:
                        pass
        json.dump({"name": self.name, "label": self.label, "evaluations": self.evaluations, "distinct_nontrivial": len(self.distinct), "rule": self.rule, "grid": self.grid,
                   "failures": self.failures, "samples": self.samples, "wall_s": round(time.time() - T0, 2)}, open(out, "w"), default=str)
