"""C03 bounded conformance of the assumed pmap contract: identical runs under XLA_FLAGS=--xla_force_host_platform_device_count=N for
several N and several max_batch_size on a random tabular MDP and on Forest; all solvers; compares values after k sweeps, stopping
iteration, gain / history, policy and array lengths against the single-device, single-batch reference."""
import os, sys, json, subprocess, time, itertools
import numpy as np
from hlib import args, Report, jsonable
CHILD = r'''
import os, sys, json, numpy as np
os.environ["XLA_FLAGS"] = "--xla_force_host_platform_device_count=%s" % sys.argv[1]
import jax; jax.config.update("jax_enable_x64", True)
sys.path.insert(0, sys.argv[4])
from tabular import Tab, rand_mdp
from mdpax.problems import Forest
from mdpax.solvers import ValueIteration as VI, PolicyIteration as PI, RelativeValueIteration as RVI, PeriodicValueIteration as PVI, SemiAsyncValueIteration as SA
cfg = json.loads(sys.argv[2]); out = {}
assert len(jax.devices()) == int(sys.argv[1])
for case in cfg:
    n, bs, seed = case["n"], case["bs"], case["seed"]
    rng = np.random.default_rng(seed); ns, r, p = rand_mdp(rng, n, 2, 2, unichain=True); v0 = rng.normal(0, 3, n)
    for name, mk in [("vi", lambda: VI(Tab(ns, r, p, v0), gamma=0.9, epsilon=0.05, verbose=0, max_batch_size=bs)),
                     ("rvi", lambda: RVI(Tab(ns, r, p, v0), epsilon=0.05, verbose=0, max_batch_size=bs)),
                     ("pvi", lambda: PVI(Tab(ns, r, p, v0), period=2, gamma=0.95, epsilon=0.05, verbose=0, max_batch_size=bs, clear_value_history_on_convergence=False)),
                     ("pi", lambda: PI(Tab(ns, r, p, v0), gamma=0.9, epsilon=0.01, verbose=0, max_batch_size=bs, max_eval_iter=50)),
                     ("sa", lambda: SA(Tab(ns, r, p, v0), gamma=0.9, epsilon=0.01, verbose=0, max_batch_size=bs, convergence_test="max_diff"))]:
        key = f"{name}|n={n}|bs={bs}"
        try:
            s = mk(); st = s.solve(60)
            d = {"n_devices": int(s.n_devices), "n_pad": int(s.n_pad), "batch_size": int(s.batch_size), "iteration": int(st.info.iteration), "values": np.asarray(st.values).tolist(), "policy": np.asarray(st.policy).tolist(), "len": int(np.asarray(st.values).shape[0])}
            if hasattr(st.info, "gain"): d["gain"] = float(st.info.gain)
            if hasattr(st.info, "value_history"): d["history"] = np.asarray(st.info.value_history).tolist()
        except Exception as ex:
            d = {"error": f"{type(ex).__name__}: {str(ex)[:160]}", "n_devices": int(sys.argv[1])}
            try: d["n_pad"] = int(s.n_pad)
            except Exception: pass
        out[key] = d
json.dump(out, open(sys.argv[3], "w"))
'''
a = args(); TH = a.tier == "thorough"; here = os.path.dirname(os.path.abspath(__file__))
scratch = os.environ.get("VERIF_SCRATCH", "/tmp")
devs = [1, 2, 3, 4, 8] if TH else [1, 2, 3]
cases = [dict(n=n, bs=bs, seed=a.seed + n) for n in ([1, 2, 3, 5, 7, 16, 65] if TH else [3, 7, 16]) for bs in ([1, 2, 3, 5, 64, 100] if TH else [2, 5, 64])]
R = Report("c03_multidevice", "C03", "emulated host devices x (n_states, max_batch_size) x five solvers, 60 iterations budget; reference = 1 device; distinct = (devices, n, max_batch_size, solver)")
res = {}
procs = []
for D in devs:
    out = os.path.join(scratch, f"dev_{D}.json")
    procs.append((D, out, subprocess.Popen([sys.executable, "-c", CHILD, str(D), json.dumps(cases), out, here], env=dict(os.environ, JAX_PLATFORMS="cpu"), stdout=subprocess.PIPE, stderr=subprocess.PIPE, text=True)))
for D, out, p in procs:
    so, se = p.communicate()
    try: res[D] = json.load(open(out))
    except Exception: res[D] = None; R.fail("c03.harness_child", f"child for {D} devices failed", dict(devices=D), se[-500:])
ref = res.get(1) or {}
# reference across batch sizes on one device (fixed-order solvers must agree for every batch size; semi-async only on its bound -> skipped here)
by_solver_n = {}
for key, d in ref.items():
    name, n, bs = key.split("|"); by_solver_n.setdefault((name, n), []).append((bs, d))
def close(x, y): return np.allclose(np.asarray(x, dtype=float), np.asarray(y, dtype=float), rtol=1e-9, atol=1e-9)
def cmp(base, d, inp):
    if "error" in d: R.fail("c03.run_fails", "solver raises under this device/batch configuration", inp, d["error"]); return
    if "error" in base: return
    if d["len"] != base["len"] or np.asarray(d["values"]).shape != np.asarray(base["values"]).shape or np.asarray(d["policy"]).shape != np.asarray(base["policy"]).shape:
        R.fail("c03.length", "returned array length differs", inp, dict(values=d["len"], policy=len(d["policy"])), dict(values=base["len"], policy=len(base["policy"]))); return
    if d["iteration"] != base["iteration"] or not close(d["values"], base["values"]) or d["policy"] != base["policy"] or ("gain" in d and abs(d["gain"] - base["gain"]) > 1e-9) or ("history" in d and not close(d["history"], base["history"])):
        R.fail("c03.results_differ", "results differ between device / batch configurations", inp, dict(iteration=d["iteration"]), dict(iteration=base["iteration"]))
for (name, n), lst in by_solver_n.items():
    base = lst[0][1]
    for bs, d in lst:
        inp = dict(solver=name, n_states=int(n[2:]), max_batch_size=int(bs[3:]), devices=1, n_devices=1, n_pad=d.get("n_pad")); R.case((name, n, bs, 1), inp)
        if name != "sa": cmp(base, d, inp)
        elif "error" in d: R.fail("c03.run_fails", "solver raises", inp, d["error"])
for D in devs[1:]:
    if not res.get(D): continue
    for key, d in res[D].items():
        name, n, bs = key.split("|"); base = by_solver_n[(name, n)][0][1]
        inp = dict(solver=name, n_states=int(n[2:]), max_batch_size=int(bs[3:]), devices=D, n_devices=d.get("n_devices"), n_pad=d.get("n_pad")); R.case((name, n, bs, D), inp)
        if name != "sa": cmp(base, d, inp)
        elif "error" in d: R.fail("c03.run_fails", "solver raises under this device/batch configuration", inp, d["error"])
        elif "error" not in base and (d["len"] != base["len"] or len(d["policy"]) != len(base["policy"])): R.fail("c03.length", "returned array length differs", inp, d["len"], base["len"])
R.write(a.out)
