"""Replay of a C19 counter-model against the real create_range_space (run with /venv/bin/python, JAX_PLATFORMS=cpu)."""
import sys, json
import numpy as np
from mdpax.utils.spaces import create_range_space
path = sys.argv[1]; r = json.load(open(path)); m = r.get("model") or {}
d = max([int(k[3:]) for k in m if k.startswith(("min", "max")) and k[3:].isdigit()] + [0]) + 1
mins = [m.get(f"min{k}", 0) for k in range(d)]; maxs = [max(m.get(f"max{k}", 0), mins[k]) for k in range(d)]
space, index_fn = create_range_space(np.array(mins), np.array(maxs))
out = {"mins": mins, "maxs": maxs}
if "clip_total" in r["obligation"]:
    v = [m.get(f"v{k}", 0) for k in range(d)]; near = [min(max(x, lo), hi) for x, lo, hi in zip(v, mins, maxs)]
    a, b = int(index_fn(np.array(v))), int(index_fn(np.array(near)))
    out.update(vector=v, nearest_box_vector=near); obs = {"index_of_vector": a, "index_of_nearest": b}; exp = "equal indices in [0, rows)"; fails = (a != b) or not (0 <= a < len(space))
elif "index_inverts" in r["obligation"]:
    row = m.get("row!s", 0); row = min(max(row, 0), len(space) - 1); got = int(index_fn(space[row]))
    out.update(row=row, vector=np.asarray(space[row]).tolist()); obs = {"index_fn(space[row])": got}; exp = {"index": row}; fails = got != row
else:
    import itertools
    ref = np.array(list(itertools.product(*[range(a, b + 1) for a, b in zip(mins, maxs)]))).reshape(-1, d)
    obs = {"rows": int(space.shape[0])}; exp = {"rows": int(ref.shape[0])}; fails = space.shape != ref.shape or not (np.asarray(space) == ref).all()
r["concrete_input"], r["observed"], r["expected"] = out, obs, exp
r["verdict"] = "confirmed-on-real-code" if fails else "no-failing-input-found"
json.dump(r, open(path, "w"), indent=1); print(r["verdict"], out, obs)
