"""Run-time contract check of BatchProcessor on the real code (bounded; conformance of the reshape/vstack models)."""
import argparse, json, time, itertools
import numpy as np, jax.numpy as jnp
from mdpax.utils.batch_processing import BatchProcessor
ap = argparse.ArgumentParser(); ap.add_argument("--tier"); ap.add_argument("--seed", type=int, default=0); ap.add_argument("--out")
a = ap.parse_args(); t0 = time.time()
rng = np.random.default_rng(a.seed)
ns = [1, 2, 3, 5, 7, 16, 63, 64, 65, 129] + ([200, 1000, 1025] if a.tier == "thorough" else [])
ms = [1, 2, 7, 64, 100, 1024] if a.tier == "thorough" else [1, 3, 64, 1024]
ds = [1, 2, 3, 4, 8] if a.tier == "thorough" else [1, 2, 3]
fails = []; n_eval = 0; distinct = set(); samples = []
for n, M, D in itertools.product(ns, ms, ds):
    bp = BatchProcessor(n, 2, max_batch_size=M, pmap_device_count=D); n_eval += 1
    inp = {"n_states": n, "max_batch_size": M, "pmap_device_count": D}
    obs = {"n_devices": int(bp.n_devices), "n_batches": int(bp.n_batches), "batch_size": int(bp.batch_size), "n_pad": int(bp.n_pad)}
    distinct.add(tuple(obs.values()))
    ok = (obs["n_devices"] == D and 1 <= obs["batch_size"] <= M and obs["n_batches"] >= 1 and obs["n_pad"] >= 0
          and D * obs["n_batches"] * obs["batch_size"] == n + obs["n_pad"] and tuple(bp.batch_shape) == (D, obs["n_batches"], obs["batch_size"])
          and (obs["n_batches"] == 1 or D * (obs["n_batches"] - 1) * obs["batch_size"] < n))
    what = "attribute consistency"
    if ok:
        states = jnp.asarray(np.arange(n * 2).reshape(n, 2) + 1)
        b = bp.prepare_batches(states)
        flat = np.asarray(b).reshape(-1, 2)
        ok = b.shape == (D, obs["n_batches"], obs["batch_size"], 2) and (flat[:n] == np.asarray(states)).all() and (flat[n:] == 0).all(); what = "prepare_batches layout"
        if ok:
            for trail in [(), (3,), (2, 2)]:
                res = rng.integers(-1000, 1000, size=b.shape[:3] + trail)
                u = np.asarray(bp.unbatch_results(jnp.asarray(res)))
                if not (u.shape == (n,) + trail and (u == res.reshape((-1,) + trail)[:n]).all()): ok = False; what = f"unbatch_results trailing {trail}"
    if len(samples) < 3: samples.append({"input": inp, "observed": obs})
    if not ok: fails.append({"check": "c18_runtime", "what": what, "input": inp, "observed": obs, "expected": "BatchProcessor contract (DESIGN C18)"})
json.dump({"name": "c18_runtime", "label": "bounded", "evaluations": n_eval, "distinct_nontrivial": len(distinct), "rule": "grid n_states x max_batch_size x device count; distinct = distinct (devices,batches,batch_size,pad) tuples",
           "grid": {"n_states": ns, "max_batch_size": ms, "devices": ds}, "failures": fails[:20], "samples": samples, "wall_s": round(time.time() - t0, 2)}, open(a.out, "w"))
