#!/usr/bin/env python3
"""bin/check <property> [--tier quick|thorough] [--replay FILE]

Decides one property of /verif/properties.jsonl for the CURRENT working tree of /repo (or $MDPAX_SRC):
  1. deductive units: every contracted function the property depends on is re-read from the source, symbolically
     executed by pyvc and its obligations discharged by z3 (cvc5 as second opinion) -- one worker process per unit;
  2. Lean lemma library: the theorems that turn the code contracts into the bound the property states are compiled
     and axiom-audited (links.json ties their hypotheses to code obligations that must be discharged in this run);
  3. bounded stand-ins / conformance runs of the same contracts at run time on the real code (never counted as proved);
  4. replay of every refuted obligation against the real code.
exit 0 held | 1 violation (VIOLATION line) | 2 undecided | 3 engine error.
"""
import sys, os, json, time, subprocess, hashlib, argparse, tempfile, shutil, fnmatch, glob
from concurrent.futures import ThreadPoolExecutor

ROOT = os.path.dirname(os.path.abspath(__file__))
sys.path.insert(0, ROOT)
VT = shutil.which("python3-vt") or "/opt/veriftools/pyvenv/bin/python"
REPO_PY = "/venv/bin/python"
SRC = os.environ.get("MDPAX_SRC", "/repo/src")
# evidence/ and replays/ of /verif describe /repo itself; a run against a scratch tree (MDPAX_SRC) writes elsewhere
OUT = os.environ.get("VERIF_OUT_DIR") or (ROOT if SRC == "/repo/src" else tempfile.mkdtemp(prefix="verif_scratch_out_"))
os.environ["VERIF_OUT_DIR"] = OUT


def sh(cmd, timeout=None, env=None, cwd=None):
    e = dict(os.environ); e.update(env or {})
    try:
        p = subprocess.run(cmd, capture_output=True, text=True, timeout=timeout, env=e, cwd=cwd or ROOT)
        return p.returncode, p.stdout, p.stderr
    except subprocess.TimeoutExpired as ex:
        return 124, (ex.stdout or b"").decode() if isinstance(ex.stdout, bytes) else (ex.stdout or ""), "TIMEOUT"


# ----------------------------------------------------------------------------------------------- deductive units
def run_unit(unit, tier, known):
    if unit.get("script"):          # script-type unit (e.g. the static frame analysis): prints a report in the worker format
        rc, out, err = sh([VT, os.path.join(ROOT, unit["script"])] + unit.get("args", []), timeout=300, env={"MDPAX_SRC": SRC, "PYTHONPATH": ROOT})
        rep = json.loads(out.split("@@REPORT@@", 1)[1].strip().splitlines()[0]) if "@@REPORT@@" in out else {"target": unit["script"], "results": [], "error": f"script rc={rc}: {err[-1500:]}"}
        rep["unit"] = unit.get("id", unit["script"])
        for r in rep["results"]:
            if r["status"] != "proved":
                for k in known:
                    if k.get("obligation") and fnmatch.fnmatch(r["name"], k["obligation"]) and ("lost_fields" not in k or r.get("meta", {}).get("lost") == k["lost_fields"]): r["known_finding"] = k["id"]
        return _ignore(unit, rep)
    spec = {"modules": unit["modules"], "target": unit["target"], "pop": unit.get("pop", []), "prepare": unit.get("prepare"),
            "only": unit.get("only"), "known": known, "export_all": tier == "thorough",
            "timeout_ms": unit.get("timeout_ms", 10000) * (3 if tier == "thorough" else 1)}
    with tempfile.NamedTemporaryFile("w", suffix=".json", delete=False) as f:
        json.dump(spec, f); specfile = f.name
    try:
        wall = unit.get("wall_s", 600) * (2 if tier == "thorough" else 1)
        rc, out, err = sh([VT, "-m", "pyvc.worker", "@" + specfile], timeout=wall, env=dict({"MDPAX_SRC": SRC, "PYTHONPATH": ROOT, "PYVC_UNIT_DEADLINE_S": str(int(wall * 0.7))}, **({"PYVC_NO_DERIVE": "1"} if unit.get("no_derive") else {})))
    finally:
        os.unlink(specfile)
    if "@@REPORT@@" in out:
        rep = json.loads(out.split("@@REPORT@@", 1)[1].strip().splitlines()[0])
    else:
        # a unit that exhausts its wall-clock budget is UNDECIDED (engine limitation -> bounded fallback), like any other Unsupported
        if rc == 124: rep = {"target": unit["target"], "results": [], "error": f"Unsupported: the unit did not finish within its wall-clock budget of {wall} s (symbolic execution or solver blow-up)"}
        else: rep = {"target": unit["target"], "results": [], "error": f"worker rc={rc}: {err[-1500:]}"}
    rep["unit"] = unit.get("id", unit["target"])
    return _ignore(unit, rep)


def _ignore(unit, rep):
    if unit.get("ignore"):          # clauses of a shared contract that belong to another property (listed in props.py, reported in the evidence)
        rep["ignored"] = [r["name"] for r in rep["results"] if any(fnmatch.fnmatch(r["name"], pat) for pat in unit["ignore"])]
        rep["results"] = [r for r in rep["results"] if r["name"] not in rep["ignored"]]
    return rep


def cvc5_second_opinion(smt2, timeout_s=20):
    """unknown from z3 -> ask cvc5 on the exported query (unsat = proved)"""
    if not smt2 or "truncated" in smt2: return None
    with tempfile.NamedTemporaryFile("w", suffix=".smt2", delete=False) as f:
        f.write("(set-logic ALL)\n" + smt2); p = f.name
    try:
        rc, out, err = sh(["/usr/bin/cvc5", f"--tlimit={timeout_s * 1000}", p], timeout=timeout_s + 5)
        o = out.strip().splitlines()[0] if out.strip() else ""
        return o if o in ("sat", "unsat", "unknown") else None
    finally:
        os.unlink(p)


# ----------------------------------------------------------------------------------------------- lean
def lean_status(required, tier):
    """compile (if needed) and audit the lemma library; returns dict"""
    rc, out, err = sh([VT, os.path.join(ROOT, "lean", "build.py")] + (["--force"] if tier == "thorough" else []), timeout=3000)
    try:
        st = json.load(open(os.path.join(ROOT, "lean", "build", "status.json")))
    except Exception:
        st = {"ok": False, "error": (out + err)[-2000:], "theorems": {}}
    miss = [t for t in required if t not in st.get("theorems", {})]
    bad = [t for t in required if t in st.get("theorems", {}) and not st["theorems"][t]["clean"]]
    st["missing"] = miss; st["unclean"] = bad
    st["ok_for_property"] = bool(st.get("ok")) and not miss and not bad
    return st


# ----------------------------------------------------------------------------------------------- bounded harness on the real code
def run_harness(h, tier, seed, pid, scratch):
    out_json = os.path.join(scratch, f"harness_{h['name']}.json")
    cmd = [REPO_PY, os.path.join(ROOT, "replay", h["script"]), "--tier", tier, "--seed", str(seed), "--out", out_json] + h.get("args", [])
    env = {"JAX_PLATFORMS": "cpu", "PYTHONPATH": os.path.join(ROOT, "replay") + (":" + SRC if SRC != "/repo/src" else ""), "VERIF_SCRATCH": scratch,
           "MDPAX_VERIF": "1"}
    env.update(h.get("env", {}))
    # wall_s is the expected duration on an idle machine times ~3; the limit itself is 3 x that again: with the 16 cores five times oversubscribed
    # (load average 80) the solver harnesses were seen to need > 300 s, and a harness that is merely slow must not turn into an engine error
    rc, out, err = sh(cmd, timeout=h.get("wall_s", 600) * (6 if tier == "thorough" else 3), env=env)
    try:
        rep = json.load(open(out_json))
    except Exception:
        rep = {"name": h["name"], "error": f"harness rc={rc}: {(out + err)[-2500:]}", "evaluations": 0, "failures": []}
    rep.setdefault("name", h["name"])
    return rep


# ----------------------------------------------------------------------------------------------- main
def main():
    ap = argparse.ArgumentParser()
    ap.add_argument("pid"); ap.add_argument("--tier", default=os.environ.get("VERIF_TIER", "quick"), choices=["quick", "thorough"])
    ap.add_argument("--replay"); ap.add_argument("--record-names", action="store_true"); ap.add_argument("-v", action="store_true")
    a = ap.parse_args()
    pid, tier = a.pid, a.tier
    seed = int(os.environ.get("VERIF_SEED", "0"))
    import props
    P = props.PROPS[pid]
    if a.replay:
        import replaylib
        return replaylib.replay_file(pid, a.replay, SRC)
    t0 = time.time()
    known_all = json.load(open(os.path.join(ROOT, "known_findings.json")))
    known = [k for k in known_all if k.get("property") == pid]
    known_open = [k for k in known if k.get("status") == "open"]
    os.makedirs(os.path.join(OUT, "evidence"), exist_ok=True); os.makedirs(os.path.join(OUT, "replays"), exist_ok=True)
    scratch = tempfile.mkdtemp(prefix=f"verif_{pid}_")
    lines = []; code = 0
    try:
        units = [u for u in P.get("units", []) if tier == "thorough" or not u.get("thorough_only")]
        with ThreadPoolExecutor(max_workers=min(16, max(1, len(units)))) as ex:
            reps = list(ex.map(lambda u: run_unit(u, tier, known_open), units))
        # modularity closure: a contract applied at a call site inside some unit of this property must belong to a function that is itself proved under this
        # property.  Missing callee units are taken from the registry of all units (any property) and run too, to a fixpoint; a contract with no unit anywhere is an error.
        all_units = {}; ign = {}
        for P2 in props.PROPS.values():
            for u2 in P2.get("units", []):
                if u2.get("target") and not u2.get("script"):
                    all_units.setdefault(u2["target"], u2); ign.setdefault(u2["target"], set()).update(u2.get("ignore") or [])
        closure_added = []; modularity_missing = []
        for _round in range(6):
            have_targets = {u.get("target") for u in units}
            need = sorted({t for rep in reps for t in rep.get("contracts_applied", [])} - have_targets)
            if not need: break
            # clauses of a shared contract that some property lists as belonging to another property stay ignored in closure-added units
            extra = [dict(all_units[t], ignore=sorted(ign[t]) or None) for t in need if t in all_units]; modularity_missing += [t for t in need if t not in all_units]
            if not extra: break
            with ThreadPoolExecutor(max_workers=min(16, len(extra))) as ex: reps += list(ex.map(lambda u: run_unit(u, tier, known_open), extra))
            units = units + extra; closure_added += [u["id"] for u in extra]
        # inline cross-check (both tiers; VERIF_NO_INLINE=1 switches it off for the engine self-tests): every (unit, applied callee contract) pair is run once more with the callee's contract REMOVED, i.e.
        # with the callee's real body inlined.  A postcondition that is refuted there although the modular proof went through means the callee's contract hides a
        # precondition that this call site does not meet (the scenario pre-state of a proof is an implicit `requires`): reported as a refutation of that obligation.
        inline_stats = None
        if not os.environ.get("VERIF_NO_INLINE"):
            by_id = {u.get("id"): u for u in units}
            pairs = []
            for rep in reps:
                u = by_id.get(rep.get("unit"))
                if not u or u.get("script") or rep.get("error"): continue
                for cal in rep.get("contracts_applied", []):
                    if cal == u.get("target") or (u["id"], cal.split(".")[-1]) in props.INLINE_SKIP: continue
                    pairs.append(dict(u, pop=list(u.get("pop", [])) + [cal], id=u["id"] + "|inline:" + cal.split(".")[-1], inline_of=(u["id"], cal), no_derive=True))
            with ThreadPoolExecutor(max_workers=16) as ex: ireps = list(ex.map(lambda u: run_unit(u, "quick", known_open), pairs))
            inline_stats = {"pairs": len(pairs), "skipped_not_inlinable": 0, "agree": 0, "refuted_when_inlined": []}
            proved_modular = {(rep["unit"], r["name"], r["path"].split("path")[0]) for rep in reps for r in rep["results"] if r["status"] == "proved"}
            for u, irep in zip(pairs, ireps):
                if irep.get("error"): inline_stats["skipped_not_inlinable"] += 1; continue
                bad = [r for r in irep["results"] if r["status"] == "refuted" and not r.get("known_finding") and not r["canary"] and not r["guard"]
                       and any(k[0] == u["inline_of"][0] and k[1] == r["name"] for k in proved_modular)]
                if not bad: inline_stats["agree"] += 1; continue
                for r in bad:
                    r["detail"] = f"refuted with the real body of {u['inline_of'][1]} inlined although proved through its contract: the contract hides a precondition this call site does not meet. " + (r.get("detail") or "")
                    inline_stats["refuted_when_inlined"].append({"unit": u["inline_of"][0], "callee": u["inline_of"][1], "obligation": r["name"], "path": r["path"]})
                reps.append({"unit": u["id"], "target": u["target"], "results": bad, "error": None, "contracts_applied": []})
        harnesses = [h for h in P.get("bounded", []) if tier == "thorough" or not h.get("thorough_only")]
        if os.environ.get("VERIF_NO_HARNESS"): harnesses = []          # engine self-tests (mutation table) exercise the deductive part only
        with ThreadPoolExecutor(max_workers=4) as ex:
            hfut = [ex.submit(run_harness, h, tier, seed, pid, scratch) for h in harnesses]
            lean = lean_status(P.get("lean", []), tier) if P.get("lean") else None
            hreps = [f.result() for f in hfut]

        # ---------------- classify deductive results
        exp_names = json.load(open(os.path.join(ROOT, "contracts", "expected_names.json"))) if os.path.exists(os.path.join(ROOT, "contracts", "expected_names.json")) else {}
        obligations = []; canaries = []; guards = []; engine_errors = []; funcs = []
        fallback_units = []
        if modularity_missing: engine_errors.append("modularity gap: contracts applied at call sites whose function is not a verification unit anywhere: " + ", ".join(sorted(set(modularity_missing))[:6]))
        for rep in reps:
            if rep.get("error"):
                # source outside the supported subset / an unmodelled library function is an ENGINE LIMITATION: the unit is not verified;
                # if the property's run-time contract harness ran (bounded fallback, section 9 of DESIGN.md) the run continues on that basis
                if str(rep["error"]).startswith("Unsupported") and harnesses: fallback_units.append({"unit": rep["unit"], "reason": rep["error"][:300]})
                else: engine_errors.append(f"{rep['unit']}: {rep['error']}")
            if rep.get("function"): funcs.append(dict(rep["function"], paths=rep.get("paths"), pruned=rep.get("pruned"), unit=rep["unit"]))
            for r in rep["results"]:
                r["unit"] = rep["unit"]
                (canaries if r["canary"] else guards if r["guard"] else obligations).append(r)
            names = sorted({r["name"] for r in rep["results"]})
            if a.record_names: exp_names[pid + ":" + rep["unit"]] = names
            else:
                missing = [n for n in exp_names.get(pid + ":" + rep["unit"], []) if n not in names]
                if missing and not rep.get("error"): engine_errors.append(f"{rep['unit']}: obligations no longer generated: {missing[:4]}")
            if not rep["results"] and not rep.get("error"): engine_errors.append(f"{rep['unit']}: zero obligations")
        # modularity audit (see below the unit loop): nothing to do here
        if a.record_names:
            json.dump(exp_names, open(os.path.join(ROOT, "contracts", "expected_names.json"), "w"), indent=0, sort_keys=True)
        # second opinion on unknowns
        by_backend = {}
        for r in obligations:
            if r["status"] == "unknown":
                o = cvc5_second_opinion(r.get("smt2"))
                if o == "unsat": r["status"] = "proved"; r["backend"] = "cvc5"
            by_backend[r["backend"]] = by_backend.get(r["backend"], 0) + (r["status"] == "proved")
        cgroups = {}
        for r in canaries: cgroups.setdefault((r["unit"], r["name"], r["path"].split("path")[0]), []).append(r["status"])
        # a canary (a deliberately false clause) must fail on at least one path of its scenario
        # thorough tier: every obligation z3 proved with a non-trivial query is re-checked by cvc5 on the SAME query (assumptions + congruence
        # lemmas + goal); `sat` from cvc5 is a disagreement between the two back ends = engine error; `unknown`/timeout is only counted
        second = {"unsat": 0, "unknown": 0, "sat": 0, "skipped_case_split_or_trivial": 0}
        if tier == "thorough":
            todo = [r for r in obligations if r["status"] == "proved"]
            with ThreadPoolExecutor(max_workers=14) as ex2:
                outs = list(ex2.map(lambda r: cvc5_second_opinion(r.get("deciding_query"), 10) if r.get("deciding_query") else "skip", todo))
            for r, o in zip(todo, outs):
                if o == "skip" or o is None: second["skipped_case_split_or_trivial"] += 1
                else:
                    second[o] += 1
                    if o == "unsat": r["backend"] = r["backend"] + "+cvc5"
                    if o == "sat": engine_errors.append(f"back ends disagree on {r['name']} ({r['path']}): z3 unsat, cvc5 sat")
        # thorough tier: the engine self-test - every source mutation recorded for this property must fail the predicted obligation
        selftest = None
        if tier == "thorough" and SRC == "/repo/src" and not os.environ.get("VERIF_NO_SELFTEST"):
            rows = [m_["id"] for m_ in json.load(open(os.path.join(ROOT, "contracts", "mutations.json"))) if m_["property"] == pid]
            if rows:
                rc_m, out_m, err_m = sh([VT, os.path.join(ROOT, "tools", "mutation_table.py")] + rows, timeout=3000, env={"VERIF_NO_SELFTEST": "1"})
                selftest = {"rows": rows, "ok": rc_m == 0, "lines": [l[:200] for l in out_m.strip().splitlines()]}
                if rc_m != 0: engine_errors.append("mutation self-test: a recorded source mutation is no longer caught at the predicted obligation: " + "; ".join(l for l in selftest["lines"] if "MISSED" in l)[:400])
        vacuous = [k[1] for k, sts in cgroups.items() if all(x == "proved" for x in sts)] + [r["name"] + ":" + r["detail"] for r in guards if r["status"] != "proved"]
        refuted = [r for r in obligations if r["status"] == "refuted"]
        unknown = [r for r in obligations if r["status"] == "unknown"]
        known_hits = {}; violations = []
        for r in refuted + unknown:
            if r.get("known_finding"): known_hits.setdefault(r["known_finding"], []).append(r)
            elif r["status"] == "refuted": violations.append(r)
        unknown = [r for r in unknown if not r.get("known_finding")]
        # "needs contract" (a loop-carried local the invariant does not describe): undecided by the deductive part; with a harness the run continues as bounded fallback
        nc = [r for r in unknown if (r.get("meta") or {}).get("needs_contract")]
        if nc and harnesses:
            unknown = [r for r in unknown if r not in nc]
            for u_ in sorted({r["unit"] for r in nc}): fallback_units.append({"unit": u_, "reason": next(r["detail"] for r in nc if r["unit"] == u_)[:300], "obligations": sorted({r["name"] for r in nc if r["unit"] == u_})[:8]})

        # ---------------- bounded harness results
        hviol = []; hb = {"evaluations": 0, "distinct_nontrivial": 0, "parts": []}
        for hr in hreps:
            if hr.get("error"): engine_errors.append(f"harness {hr['name']}: {hr['error']}")
            hb["evaluations"] += hr.get("evaluations", 0); hb["distinct_nontrivial"] += hr.get("distinct_nontrivial", 0)
            hb["parts"].append({k: hr.get(k) for k in ("name", "evaluations", "distinct_nontrivial", "rule", "grid", "wall_s", "samples", "label") if k in hr})
            for fl in hr.get("failures", []):
                if fl.get("engine"): engine_errors.append(f"harness {hr['name']}: {fl.get('what')}: {str(fl.get('observed'))[:200]}"); continue
                kf = fl.get("known_finding")
                if kf: known_hits.setdefault(kf, []).append(fl)
                else: hviol.append(dict(fl, harness=hr["name"]))

        # ---------------- meta checks supplied by the property (python callables over the reports)
        meta_fail = []
        for mc in P.get("meta", []):
            ok, msg = mc(reps, hreps)
            if not ok: meta_fail.append(msg)

        # ---------------- verdict lines
        import replaylib
        # one replay per (obligation, scenario) -- run concurrently; harness failures: one line per distinct failing check
        seen_v = set(); vv = []; undecided_derived = []
        for r in violations:
            key = (r["name"], r["path"].split("path")[0])
            if key in seen_v: continue
            seen_v.add(key); vv.append(r)
        paths = [replaylib.write_replay(pid, r, SRC) for r in vv]
        with ThreadPoolExecutor(max_workers=8) as ex:
            verdicts = list(ex.map(lambda p_: replaylib.try_replay(pid, p_, SRC, hreps), paths))
        for path, verdict, r in zip(paths, verdicts, vv):
            da = (r.get("meta") or {}).get("derived_attrs")
            if verdict != "confirmed" and da and harnesses:
                # the refutation rests on attribute values the engine derived from construction-time code (pyvc/derive.py) and did not replay on the
                # real code: a model of the abstraction, not a demonstrated failure -> undecided, the property's run-time harness decides (bounded fallback)
                fallback_units.append({"unit": r["unit"], "reason": f"refutation of {r['name']} depends on derived attribute(s) {da} and did not replay on the real code: undecided", "obligations": [r["name"]]})
                undecided_derived.append(r); continue
            lines.append(f"VIOLATION property={pid} replay={path}" + ("" if verdict == "confirmed" else " no-failing-input-found")); code = 1
        seen_h = set()
        for fl in hviol:
            if fl.get("check") in seen_h: continue
            seen_h.add(fl.get("check"))
            path = replaylib.write_harness_replay(pid, fl, SRC)
            lines.append(f"VIOLATION property={pid} replay={path}"); code = 1
        for msg in meta_fail:
            path = replaylib.write_harness_replay(pid, {"harness": "meta", "what": msg, "input": None}, SRC)
            lines.append(f"VIOLATION property={pid} replay={path} no-failing-input-found"); code = 1
        printed = set()
        for k in known_open:
            kid = k.get("id") or k.get("what_fails")
            if kid in known_hits and kid not in printed: printed.add(kid); lines.append(f"KNOWN-FINDING: property={pid} {k['what_fails']} [{k['id']}]")
        lean_bad = lean is not None and not lean["ok_for_property"]
        if code == 0:
            if vacuous: lines.append(f"ENGINE-ERROR property={pid} vacuity guard failed: {vacuous[:3]}"); code = 3
            elif engine_errors: lines.append(f"ENGINE-ERROR property={pid} {engine_errors[0][:600]}"); code = 3
            elif lean_bad: lines.append(f"ENGINE-ERROR property={pid} lean library: missing={lean['missing']} unclean={lean['unclean']} {str(lean.get('error',''))[:300]}"); code = 3
            elif unknown: lines.append(f"UNDECIDED property={pid} obligation={unknown[0]['name']} path={unknown[0]['path']}"); code = 2
        # an obligation hit by an OPEN known finding is counted in its restricted form ("holds outside the finding's identifying predicate",
        # re-proved by the worker) when the finding has an SMT predicate; otherwise it is the finding itself and is listed, not counted
        kf_restricted = [r for r in obligations if r.get("known_finding") and r.get("meta", {}).get("known_restricted")]
        kf_whole = [r for r in obligations if r.get("known_finding") and not r.get("meta", {}).get("known_restricted")]
        n_ob = len(obligations) - len(kf_whole); n_dis = sum(r["status"] == "proved" for r in obligations) + len(kf_restricted)
        if kf_restricted: by_backend["z3(restricted to the complement of a known finding)"] = len(kf_restricted)
        n_lean = len(P.get("lean", [])) if lean and lean["ok_for_property"] else 0
        if code == 0 and fallback_units:
            lines.append(f"BOUNDED-FALLBACK property={pid} units not verified deductively (engine limitation), covered only by the run-time contract harness: {[u['unit'].split('.')[-1] for u in fallback_units]}")
        if code == 0:
            lines.append(f"OK property={pid} obligations={n_ob + n_lean} discharged={n_dis + n_lean} (z3/cvc5 {n_dis}, lean {n_lean}) bounded_evaluations={hb['evaluations']}"
                         + (f" known_findings={len(known_hits)}" if known_hits else ""))

        # ---------------- evidence
        level = P["level"]
        samples = [{"obligation": r["name"], "path": r["path"], "verdict": r["status"], "backend": r["backend"], "secs": r["secs"],
                    "smt2_head": (r.get("smt2") or "")[:700]} for r in (obligations[:3] + refuted[:2])]
        cov = {"obligations": n_ob + len(P.get("lean", [])), "discharged": n_dis + n_lean,
               "checker_cmd": f"bin/check {pid} --tier {tier}",
               "trusted_base": P.get("trusted_base", []) + ["pyvc symbolic interpreter + library models (assumed contracts of numpy/jax/orbax/omegaconf, see DESIGN.md section 9)", "z3 5.1.0 (cvc5 1.0.3 on unknowns)"] + (["Lean 4.33 kernel + Mathlib"] if P.get("lean") else []),
               "functions_under_contract": funcs,
               "callee_units_added_by_the_modularity_closure": closure_added,
               "inline_cross_check": inline_stats,
               "library_models_used": sorted({m for rep in reps for m in rep.get("lib_used", [])}),
               "attributes_derived_from_construction_code": sorted({m for rep in reps for m in rep.get("derived_attributes", [])}),
               "repo_functions_symbolically_executed": sorted({m for rep in reps for m in rep.get("executed", [])}),
               "obligations_by_backend": dict(by_backend, **({"lean": n_lean} if P.get("lean") else {})),
               "solver_time_s": round(sum(r["secs"] for r in obligations + canaries), 3),
               "paths_explored": sum(f.get("paths") or 0 for f in funcs), "paths_pruned": sum(f.get("pruned") or 0 for f in funcs),
               "canaries_refuted": sum(r["status"] != "proved" for r in canaries), "canaries_total": len(canaries),
               "vacuity_guards": len(guards), "second_solver_cvc5": second, "mutation_self_test": selftest,
               "not_discharged": [{"obligation": r["name"], "path": r["path"], "status": r["status"], "known_finding": r.get("known_finding")} for r in obligations if r["status"] != "proved"][:40],
               "lean": ({"theorems": {t: lean["theorems"].get(t) for t in P.get("lean", [])}, "links": P.get("links", {}), "toolchain": lean.get("toolchain")} if lean else None),
               "bounded": hb, "samples": samples,
               "evaluations": max(1, hb["evaluations"] + n_ob), "distinct_nontrivial": max(2, hb["distinct_nontrivial"] + len({r["name"] for r in obligations})),
               "rule": "obligations: one per (contract clause | call-site precondition | loop/scan invariant step | safety condition) per feasible path; bounded parts: see coverage.bounded.parts[].rule",
               "explanation": P.get("explanation", ""),
               "known_findings_observed": sorted(known_hits), "bounded_fallback_units": fallback_units,
               "known_finding_obligations": [{"obligation": r["name"], "path": r["path"], "finding": r["known_finding"], "counted_as": "restricted form proved (finding's predicate excluded)" if r in kf_restricted else "not counted: the obligation is the finding"} for r in kf_restricted + kf_whole]}
        ev = {"property_id": pid, "tier": tier, "seed": seed, "level": level, "coverage": cov,
              "assumptions": P.get("assumptions", []), "wall_s": round(time.time() - t0, 2), "violations": len(violations) + len(hviol) + len(meta_fail)}
        json.dump(ev, open(os.path.join(OUT, "evidence", f"{pid}.json"), "w"), indent=1)
        if a.v:
            for r in obligations + canaries:
                print("  ", r["unit"].split(".")[-1][:28], r["path"], ".".join(r["name"].split(".")[-3:]), r["status"], r["backend"], r["secs"], r.get("detail", "")[:60], r.get("known_finding") or "")
            for e in engine_errors: print("ENGINE:", e)
    finally:
        shutil.rmtree(scratch, ignore_errors=True)
    print("\n".join(lines))
    return code


if __name__ == "__main__":
    sys.exit(main())
